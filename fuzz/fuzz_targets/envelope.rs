#![no_main]
// Oracle and input layout: /verif/harness/chk-crypto/src/fuzzapi.rs (envelope)
libfuzzer_sys::fuzz_target!(|data: &[u8]| chk_crypto::fuzzapi::fuzz_main(chk_crypto::fuzzapi::envelope, data));
