#![no_main]
// Oracle and input layout: /verif/harness/chk-kad/src/fuzzapi.rs (kad_wire)
libfuzzer_sys::fuzz_target!(|data: &[u8]| chk_kad::fuzzapi::fuzz_main(chk_kad::fuzzapi::kad_wire, data));
