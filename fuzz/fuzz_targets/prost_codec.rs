#![no_main]
// Oracle and input layout: /verif/harness/chk-wire/src/fuzzapi.rs (prost_codec)
libfuzzer_sys::fuzz_target!(|data: &[u8]| chk_wire::fuzzapi::fuzz_main(chk_wire::fuzzapi::prost_codec, data));
