#![no_main]
// Oracle and input layout: /verif/harness/chk-gsub-pure/src/fuzzapi.rs (gossipsub_rpc)
libfuzzer_sys::fuzz_target!(|data: &[u8]| chk_gsub_pure::fuzzapi::fuzz_main(chk_gsub_pure::fuzzapi::gossipsub_rpc, data));
