#!/bin/bash
# run_fuzz.sh <target> <runs> <seed> [jobs]
#   Builds the libFuzzer target (offline, nightly) and runs it for a FIXED number of executions
#   (-runs, never a time budget) with -seed=<seed> -len_control=0 on a fresh temporary copy of the
#   seed corpus seeds/<target>/. With jobs>1, <jobs> independent processes are started with seeds
#   <seed>, <seed>+1, ... each on its own corpus copy.
#   Output (parsed by vcore's Ctx::fuzz_stage):
#     STATS target=T seed=S executed=N cov=.. ft=.. corp=.. corp_bytes=.. exec_s=.. new_units=.. peak_rss_mb=..
#         (one per job that finished without an artifact; numbers are libFuzzer's own final
#          "DONE cov: ft: corp:" line and -print_final_stats=1 counters)
#     CRASH target=T seed=S artifact=<path>      (crash-*, oom-*, timeout-* files; kept under $WORK)
#   exit 0: no crash   exit 1: crash   exit 2: build / setup problem (or a job died without artifact)
#   /tmp is scratch only: removed on exit 0; on exit 1/2 the work dir is kept for inspection (the
#   caller copies the artifacts it needs).
set -u
T=${1:?target}; RUNS=${2:?runs}; SEED=${3:-1}; JOBS=${4:-1}
HERE=$(cd "$(dirname "$0")" && pwd)
cd "$HERE" || exit 2
export VERIF_ROOT=${VERIF_ROOT:-$(dirname "$HERE")}
export CARGO_TARGET_DIR=${FUZZ_TARGET_DIR:-$HERE/target}
export CARGO_NET_OFFLINE=true
# cargo-fuzz sets RUSTFLAGS itself (sanitizer, coverage), which overrides build.rustflags of
# .cargo/config.toml; it appends the RUSTFLAGS it finds in the environment, so the cfg goes there.
export RUSTFLAGS="--cfg libp2p_verif ${RUSTFLAGS:-}"
[ -d "seeds/$T" ] || { echo "run_fuzz: no seed corpus seeds/$T"; exit 2; }
[ "$SEED" -gt 0 ] 2>/dev/null || { echo "run_fuzz: seed must be a positive integer (0 = libFuzzer picks a random seed)"; exit 2; }
# the feature (= check crate) this target needs: required-features of its [[bin]] in Cargo.toml
FEAT=$(awk -v t="$T" '/^\[\[bin\]\]/{n=""} /^name = /{gsub(/"/,"",$3); n=$3} /^required-features/{ if(n==t){gsub(/[\[\]"]/,"",$3); print $3} }' Cargo.toml)
[ -n "$FEAT" ] || { echo "run_fuzz: target $T is not declared (with required-features) in $HERE/Cargo.toml"; exit 2; }
LOG=$(mktemp /tmp/fuzz-build-$T-XXXXXX.log)
# FUZZ_SKIP_BUILD=1 (manual campaigns only, never set by the registered checks): use the binary as built
if [ "${FUZZ_SKIP_BUILD:-0}" = 1 ]; then :; elif ! cargo +nightly fuzz build --fuzz-dir "$HERE" --features "$FEAT" "$T" >"$LOG" 2>&1; then
  echo "run_fuzz: BUILD FAILED target=$T (log $LOG)"; tail -30 "$LOG"; exit 2
fi
rm -f "$LOG"
TRIPLE=$(rustc +nightly -vV | sed -n 's/^host: //p')
BIN="$CARGO_TARGET_DIR/$TRIPLE/release/$T"
[ -x "$BIN" ] || { echo "run_fuzz: BUILD FAILED target=$T (no binary $BIN)"; exit 2; }
WORK=$(mktemp -d /tmp/fuzz-$T-XXXXXX)
export ASAN_OPTIONS="detect_odr_violation=0:${ASAN_OPTIONS:-}"
pids=()
for j in $(seq 0 $((JOBS-1))); do
  mkdir -p "$WORK/corpus$j" "$WORK/art$j"
  cp "seeds/$T/"* "$WORK/corpus$j/" 2>/dev/null
  "$BIN" -runs="$RUNS" -seed=$((SEED+j)) -len_control=0 -max_len=8192 -print_final_stats=1 \
      -artifact_prefix="$WORK/art$j/" "$WORK/corpus$j" >"$WORK/log$j" 2>&1 &
  pids+=($!)
done
rc=0
for j in $(seq 0 $((JOBS-1))); do
  wait "${pids[$j]}"; r=$?
  arts=$(ls "$WORK/art$j"/crash-* "$WORK/art$j"/oom-* "$WORK/art$j"/timeout-* "$WORK/art$j"/leak-* 2>/dev/null)
  if [ -n "$arts" ]; then
    for a in $arts; do echo "CRASH target=$T seed=$((SEED+j)) artifact=$a"; done
    grep -aE "VIOLATION|panicked at|ERROR: " "$WORK/log$j" | head -5 | cut -c1-600
    rc=1
  elif [ $r -ne 0 ]; then
    echo "run_fuzz: target=$T job=$j exited $r without an artifact (log $WORK/log$j)"; tail -15 "$WORK/log$j"
    [ $rc -eq 0 ] && rc=2
  else
    # "#N DONE cov: C ft: F corp: K/Bb lim: L exec/s: E rss: Rmb" + "stat::name: value" lines
    done_line=$(grep -aE "^#[0-9]+[[:space:]]+DONE" "$WORK/log$j" | tail -1)
    num() { echo "$done_line" | sed -n "s/.* $1: \([0-9]*\).*/\1/p"; }
    stat() { sed -n "s/^stat::$1:[[:space:]]*\([0-9]*\).*/\1/p" "$WORK/log$j" | tail -1; }
    corp=$(echo "$done_line" | sed -n 's/.* corp: \([0-9]*\)\/.*/\1/p')
    cb=$(echo "$done_line" | sed -n 's/.* corp: [0-9]*\/\([0-9]*[A-Za-z]*\) .*/\1/p')
    case "$cb" in *Kb) cb=$(( ${cb%Kb} * 1024 ));; *Mb) cb=$(( ${cb%Mb} * 1048576 ));; *b) cb=${cb%b};; esac
    echo "STATS target=$T seed=$((SEED+j)) executed=$(stat number_of_executed_units) cov=$(num cov) ft=$(num ft) corp=$corp corp_bytes=$cb exec_s=$(stat average_exec_per_sec) new_units=$(stat new_units_added) peak_rss_mb=$(stat peak_rss_mb)"
  fi
done
[ $rc -eq 0 ] && rm -rf "$WORK"
echo "run_fuzz: target=$T runs=$RUNS seed=$SEED jobs=$JOBS exit=$rc"
exit $rc
