#!/bin/bash
# run_fuzz.sh <target> <runs> <seed> [jobs]
#   Builds the libFuzzer target (offline, nightly) and runs it for a FIXED number of executions
#   (-runs, never a time budget) with -seed=<seed> -len_control=0 on a fresh temporary copy of the
#   seed corpus seeds/<target>/. With jobs>1, <jobs> independent processes are started with seeds
#   <seed>, <seed>+1, ... each on its own corpus copy.
#   exit 0: no crash   exit 1: crash (artifact path printed as "CRASH target=... artifact=...")
#   exit 2: build / setup problem
set -u
T=${1:?target}; RUNS=${2:?runs}; SEED=${3:-1}; JOBS=${4:-1}
HERE=$(cd "$(dirname "$0")" && pwd)
cd "$HERE" || exit 2
export VERIF_ROOT=${VERIF_ROOT:-$(dirname "$HERE")}
export CARGO_TARGET_DIR=${FUZZ_TARGET_DIR:-$HERE/target}
# cargo-fuzz sets RUSTFLAGS itself (sanitizer, coverage), which overrides build.rustflags of
# .cargo/config.toml; it appends the RUSTFLAGS it finds in the environment, so the cfg goes there.
export RUSTFLAGS="--cfg libp2p_verif ${RUSTFLAGS:-}"
[ -d "seeds/$T" ] || { echo "run_fuzz: no seed corpus seeds/$T"; exit 2; }
LOG=$(mktemp /tmp/fuzz-build-$T-XXXXXX.log)
if ! cargo +nightly fuzz build --fuzz-dir "$HERE" "$T" >"$LOG" 2>&1; then
  echo "run_fuzz: BUILD FAILED target=$T (log $LOG)"; tail -30 "$LOG"; exit 2
fi
rm -f "$LOG"
WORK=$(mktemp -d /tmp/fuzz-$T-XXXXXX)
pids=()
for j in $(seq 0 $((JOBS-1))); do
  mkdir -p "$WORK/corpus$j" "$WORK/art$j"
  cp "seeds/$T/"* "$WORK/corpus$j/" 2>/dev/null
  cargo +nightly fuzz run --fuzz-dir "$HERE" "$T" "$WORK/corpus$j" -- \
      -runs="$RUNS" -seed=$((SEED+j)) -len_control=0 -max_len=8192 -artifact_prefix="$WORK/art$j/" \
      >"$WORK/log$j" 2>&1 &
  pids+=($!)
done
rc=0
for j in $(seq 0 $((JOBS-1))); do
  wait "${pids[$j]}"; r=$?
  arts=$(ls "$WORK/art$j"/crash-* "$WORK/art$j"/oom-* "$WORK/art$j"/timeout-* 2>/dev/null)
  if [ -n "$arts" ]; then
    for a in $arts; do echo "CRASH target=$T seed=$((SEED+j)) artifact=$a"; done
    grep -E "VIOLATION|panicked at|ERROR: " "$WORK/log$j" | head -5
    rc=1
  elif [ $r -ne 0 ]; then
    echo "run_fuzz: target=$T job=$j exited $r without an artifact (log $WORK/log$j)"; tail -15 "$WORK/log$j"
    [ $rc -eq 0 ] && rc=2
  else
    grep -E "^Done [0-9]+ runs|stat::number_of_executed_units" "$WORK/log$j" | tail -1 | sed "s/^/run_fuzz: target=$T seed=$((SEED+j)) /"
  fi
done
[ $rc -eq 0 ] && rm -rf "$WORK"
echo "run_fuzz: target=$T runs=$RUNS seed=$SEED jobs=$JOBS exit=$rc"
exit $rc
