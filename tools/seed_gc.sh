#!/bin/bash
# tools/seed_gc.sh — removes scratch seed worktrees (with build output) whose changes have all been filed with a decided check result
for d in /tmp/seed/C*/; do
  t=$(basename $d)
  n=$(ls $d/out/patch*.diff 2>/dev/null | wc -l)
  [ $n = 0 ] && continue
  ok=1
  for k in $(seq 1 $n); do
    m=/verif/seeded/$t-$k/meta.json
    [ -f $m ] && [ "$(jq -r '.check_result.exit' $m)" != 2 ] && [ "$(jq -r '.check_result.exit' $m)" != null ] || ok=0
  done
  pgrep -f "seed_accept.py $t " >/dev/null && ok=0
  if [ $ok = 1 ]; then git -C /repo worktree remove --force /tmp/seed/$t 2>/dev/null; rm -rf /tmp/seed/$t /tmp/seed/$t.lock; echo "removed $t"; fi
done
git -C /repo worktree prune
