#!/bin/bash
# Runs the repository's pinned baseline test-suite with the verification guard OFF (no --cfg libp2p_verif)
# and compares against /root/.vp/BASELINE.json stable_pass. Exit 0 iff every stable_pass test passed.
set -u
cd /repo
unset RUSTFLAGS
export CARGO_NET_OFFLINE=true
if [ -f /w/lib/nextest.toml ] && command -v cargo-nextest >/dev/null; then
  cargo nextest run --workspace --no-fail-fast --tool-config-file pb:/w/lib/nextest.toml --profile pb --test-threads 8 --offline > /tmp/baseline_off.log 2>&1
  J=/repo/target/nextest/pb/junit.xml
  python3 - "$J" <<'PY'
import json,sys,xml.etree.ElementTree as ET
base=json.load(open('/root/.vp/BASELINE.json'))
stable=set(base['stable_pass'])
t=ET.parse(sys.argv[1]).getroot()
res={}
for ts in t.iter('testsuite'):
    for tc in ts.iter('testcase'):
        name=f"{tc.get('classname')}::{tc.get('name')}"
        ok=not any(c.tag in('failure','error') for c in tc)
        res[name]=ok
# try both naming conventions
def lookup(n):
    if n in res: return res[n]
    # classname may be "crate" or "crate::bin"; fall back to suffix match
    for k,v in res.items():
        if k.endswith(n) or n.endswith(k): return v
    return None
missing=[n for n in stable if lookup(n) is None]
failed=[n for n in stable if lookup(n) is False]
print(f"baseline_off: stable={len(stable)} passed={len(stable)-len(missing)-len(failed)} failed={len(failed)} missing={len(missing)}")
for n in failed[:50]: print("FAILED",n)
for n in missing[:20]: print("MISSING",n)
sys.exit(0 if not failed and not missing else 1)
PY
else
  cargo test --workspace --no-fail-fast --offline
fi
