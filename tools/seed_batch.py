#!/usr/bin/env python3
"""tools/seed_batch.py <jobs-file> [workers]  — runs seed_accept jobs (one per line: tag n ID crates demo command...) with a worker pool.
Lines starting with # are skipped. Logs: /var/tmp/seedlogs/<tag>-<n>.log"""
import subprocess, sys, os
from concurrent.futures import ThreadPoolExecutor
jobs = [l.split(None, 4) for l in open(sys.argv[1]) if l.strip() and not l.startswith('#')]
workers = int(sys.argv[2]) if len(sys.argv) > 2 else 3
os.makedirs('/var/tmp/seedlogs', exist_ok=True)
def run(j):
    tag, n, pid, crates, demo = j
    demo = demo.strip()
    with open(f'/var/tmp/seedlogs/{tag}-{n}.log', 'w') as f:
        subprocess.run(['/verif/tools/seed_accept.py', tag, n, pid, crates, demo], stdout=f, stderr=subprocess.STDOUT, cwd='/verif')
    return tag, n
with ThreadPoolExecutor(workers) as ex:
    for tag, n in ex.map(run, jobs):
        print('done', tag, n, flush=True)
