#!/bin/bash
# tools/seed_setup.sh <ID>...  : creates /tmp/seed/<ID> worktrees with out/TASK.md
for id in "$@"; do
  git -C /repo worktree add --detach /tmp/seed/$id HEAD >/dev/null 2>&1 || { echo "worktree failed $id"; continue; }
  mkdir -p /tmp/seed/$id/out && python3 /verif/tools/seed_prompt.py $id > /tmp/seed/$id/out/TASK.md && echo ready $id
done
