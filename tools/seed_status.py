#!/usr/bin/env python3
"""tools/seed_status.py — one line per delivered seeded change (from /var/tmp/seed-inbox and /verif/seeded): status"""
import glob, json, os, re
rows = []
names = set()
for d in sorted(glob.glob('/var/tmp/seed-inbox/C*')):
    tag = os.path.basename(d)
    for p in sorted(glob.glob(f'{d}/patch*.diff')):
        n = re.search(r'patch(\d+)', p).group(1)
        names.add((tag, n))
for d in glob.glob('/verif/seeded/*/'):
    nm = os.path.basename(d.rstrip('/'))
    tag, n = nm.rsplit('-', 1)
    names.add((tag, n))
for tag, n in sorted(names):
    m = f'/verif/seeded/{tag}-{n}/meta.json'
    if os.path.exists(m):
        j = json.load(open(m))
        ex = (j.get('check_result') or {}).get('exit')
        st = {1: 'CAUGHT', 0: 'MISSED', 2: 'CHECK-INCONCLUSIVE(rerun)'}.get(ex, f'?{ex}')
        if j.get('caught_by'): st = 'CAUGHT(' + j['caught_by'] + ')'
    else:
        log = f'/var/tmp/seedlogs/{tag}-{n}.log'
        tail = ''
        if os.path.exists(log):
            t = open(log, errors='replace').read()
            mm = re.findall(r'\{"tag".*?\}', t)
            tail = mm[-1] if mm else t[-120:].replace('\n', ' ')
        running = os.system(f'pgrep -f "[s]eed_accept.py {tag} {n} " >/dev/null') == 0
        st = ('RUNNING ' if running else 'NOT-FILED ') + tail
    print(f'{tag}-{n}: {st}')
