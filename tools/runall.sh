#!/bin/bash
# tools/runall.sh [tier] [ids...] : runs every registered check sequentially, prints id, exit code, seconds
cd "$(dirname "$0")/.." || exit 2
TIER=${1:-quick}; shift
IDS=${*:-$(jq -r '.checks[].property_id' MANIFEST.json)}
mkdir -p /var/tmp/runall
rc=0
for id in $IDS; do
  s=$(date +%s.%N)
  ./run $id $TIER > /var/tmp/runall/$id.$TIER.log 2>&1; e=$?
  t=$(echo "$(date +%s.%N) - $s" | bc)
  printf "%s exit=%s %.1fs %s\n" $id $e $t "$(grep -cE '^(VIOLATION|KNOWN-FINDING)' /var/tmp/runall/$id.$TIER.log) flagged-lines"
  [ $e != 0 ] && rc=1
done
exit $rc
