#!/usr/bin/env python3
"""Regenerates the generated tables of DESIGN.md (between <!-- BEGIN:x --> / <!-- END:x --> markers):
findings (known_findings.json), seeded changes (seeded/*/meta.json), own mutants (mutants/RESULTS.txt), hooks (git log of /repo)."""
import json, glob, os, re, subprocess
ROOT = os.path.dirname(os.path.dirname(os.path.abspath(__file__)))
def esc(s): return (s or "").replace("|", "\\|").replace("\n", " ")
def findings():
    k = json.load(open(f"{ROOT}/known_findings.json"))
    out = ["| property | status | commit | signature | what failed |", "|---|---|---|---|---|"]
    for e in sorted(k, key=lambda e: (e["property"], e["status"])):
        out.append(f"| {e['property']} | {e['status']} | {e.get('commit','–')} | `{e['signature']}` | {esc(e['what'])[:420]} |")
    return "\n".join(out)
def seeded():
    out = ["| seeded change | property | what it breaks / needs | confirmed (demo fails with, passes without; crate tests pass) | caught by quick check | signature |", "|---|---|---|---|---|---|"]
    for f in sorted(glob.glob(f"{ROOT}/seeded/*/meta.json")):
        m = json.load(open(f))
        c = m.get("confirmed_by_main_session", {})
        ok = c.get("demo_without") == 0 and c.get("demo_with") not in (0, None) and c.get("crate_tests_with") == 0
        cr = m.get("check_result") or {}
        sig = ""
        for l in cr.get("violation_lines") or []:
            mm = re.search(r"signature=(\S+)", l)
            if mm: sig = mm.group(1)
        caught = m.get("caught_by") or ("quick" if m.get("caught_by_quick") else "MISSED")
        out.append(f"| `{m['name']}` | {m['property']} | {esc(str(m.get('summary') or ''))[:260]} — needs: {esc(str(m.get('needs') or ''))[:260]} | {'yes' if ok else 'NO'} | {caught} | `{sig}` |")
    return "\n".join(out)
def mutants():
    p = f"{ROOT}/mutants/RESULTS.txt"
    if not os.path.exists(p): return "(not yet run)"
    out = ["| mutant | property | result | signature |", "|---|---|---|---|"]
    for l in open(p):
        parts = l.split()
        if len(parts) >= 3:
            out.append(f"| `{parts[2]}` | {parts[1]} | {parts[0]} | {' '.join(parts[3:])} |")
    return "\n".join(out)
def hooks():
    log = subprocess.check_output(["git", "-C", "/repo", "log", "--format=%h %s", "e3299e1..HEAD"], text=True).splitlines()
    out = ["| commit | kind | subject |", "|---|---|---|"]
    for l in reversed(log):
        h, s = l.split(" ", 1)
        kind = "hook" if s.startswith("verif hook") else ("fix" if s.startswith("fix:") else "other")
        out.append(f"| {h} | {kind} | {esc(s)} |")
    return "\n".join(out)
def notcovered():
    t = {}
    for f in sorted(glob.glob(f"{ROOT}/harness/chk-*/checks.json")):
        t.update(json.load(open(f)))
    out = ["| property | check binary | level | assumptions, trusted parts and what the check does not cover (registry `note`) |", "|---|---|---|---|"]
    for k in sorted(t):
        out.append(f"| {k} | {t[k]['bin']} | {t[k].get('level','exploration')} | {esc(t[k]['note'])} |")
    return "\n".join(out)
gen = {"notcovered": notcovered, "findings": findings, "seeded": seeded, "mutants": mutants, "repo-commits": hooks}
p = f"{ROOT}/DESIGN.md"
s = open(p).read()
for k, fn in gen.items():
    b, e = f"<!-- BEGIN:{k} -->", f"<!-- END:{k} -->"
    if b in s and e in s:
        s = s[:s.index(b) + len(b)] + "\n" + fn() + "\n" + s[s.index(e):]
open(p, "w").write(s)
print("DESIGN.md tables regenerated")
