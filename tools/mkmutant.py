#!/usr/bin/env python3
"""mkmutant.py <name> <repo-relative-file> <old> <new> [<file2> <old2> <new2> ...]
Creates /verif/mutants/<name>.diff as a git diff against /repo HEAD, using a scratch worktree. Never touches /repo's tree."""
import subprocess, sys, os
name = sys.argv[1]; triples = sys.argv[2:]
wt = "/var/tmp/verif-mut/_author/repo"
if not os.path.isdir(wt):
    os.makedirs(os.path.dirname(wt), exist_ok=True)
    subprocess.check_call(["git", "-C", "/repo", "worktree", "add", "--detach", wt, "HEAD"], stdout=subprocess.DEVNULL, stderr=subprocess.DEVNULL)
head = subprocess.check_output(["git", "-C", "/repo", "rev-parse", "HEAD"], text=True).strip()
subprocess.check_call(["git", "-C", wt, "checkout", "-q", "--detach", head])
subprocess.check_call(["git", "-C", wt, "checkout", "-q", "--", "."])
for k in range(0, len(triples), 3):
    f, old, new = triples[k:k+3]
    p = os.path.join(wt, f)
    s = open(p).read()
    if s.count(old) != 1:
        print(f"ERROR: pattern occurs {s.count(old)} times in {f}"); sys.exit(1)
    open(p, "w").write(s.replace(old, new))
d = subprocess.check_output(["git", "-C", wt, "diff"], text=True)
open(f"/verif/mutants/{name}.diff", "w").write(d)
subprocess.check_call(["git", "-C", wt, "checkout", "-q", "--", "."])
print(f"wrote /verif/mutants/{name}.diff ({len(d.splitlines())} lines)")
