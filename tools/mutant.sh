#!/bin/bash
# tools/mutant.sh <slot> <patch.diff|-> <ID> [tier] [extra run args]
#   Applies <patch.diff> (a `git diff` against /repo HEAD; "-" = no patch, i.e. pristine HEAD) to a private
#   scratch worktree of /repo under /var/tmp/verif-mut/<slot>/repo, builds a private copy of the harness
#   against it (own target dir, kept between calls of the same slot for incremental rebuilds) and runs
#   check <ID>. Evidence/replays go to the slot's private VERIF_ROOT, never to /verif.
#   The libFuzzer crate /verif/fuzz is copied too (paths rewritten), so a thorough run's fuzz stage — or
#   `VERIF_ROOT=$BASE/verif $BASE/verif/fuzz/run_fuzz.sh <target> <runs> <seed> [jobs]` directly — runs
#   against the patched worktree.
#   Never touches /repo's working tree.  Remove a slot when done:  tools/mutant.sh <slot> --clean
set -u
SLOT=${1:?slot}; PATCH=${2:?patch or --clean}
BASE=/var/tmp/verif-mut/$SLOT
if [ "$PATCH" = "--clean" ]; then
  git -C /repo worktree remove --force "$BASE/repo" 2>/dev/null
  rm -rf "$BASE"; git -C /repo worktree prune; echo "slot $SLOT removed"; exit 0
fi
ID=${3:?ID}; TIER=${4:-quick}; shift 4 2>/dev/null || shift 3
mkdir -p "$BASE"
if [ ! -d "$BASE/repo" ]; then
  git -C /repo worktree add --detach "$BASE/repo" HEAD >/dev/null 2>&1 || { echo "worktree add failed"; exit 2; }
else
  git -C "$BASE/repo" checkout -q -- . && git -C "$BASE/repo" clean -fdq -e target && git -C "$BASE/repo" checkout -q --detach "$(git -C /repo rev-parse HEAD)"
fi
if [ "$PATCH" != "-" ]; then
  git -C "$BASE/repo" apply "$(realpath "$PATCH")" || { echo "patch does not apply"; exit 2; }
fi
# private copy of the harness with /repo paths rewritten
mkdir -p "$BASE/verif"
rsync -a --delete --exclude 'target*' /verif/harness/ "$BASE/verif/harness/"
find "$BASE/verif/harness" -name Cargo.toml -exec sed -i "s|\"/repo/|\"$BASE/repo/|g" {} +
# private copy of the libFuzzer crate (thorough-tier fuzz stage; own target dir $BASE/verif/fuzz/target)
if [ -d /verif/fuzz ]; then
  rsync -a --delete --exclude 'target*' --exclude corpus --exclude artifacts /verif/fuzz/ "$BASE/verif/fuzz/"
  sed -i "s|\"/repo/|\"$BASE/repo/|g" "$BASE/verif/fuzz/Cargo.toml"
fi
# sources that name /repo paths (e.g. include_bytes!, fs::read of fixtures) keep reading /repo: fixtures only.
cp /verif/known_findings.json "$BASE/verif/" 2>/dev/null
mkdir -p "$BASE/verif/replays" "$BASE/verif/evidence"
rsync -a --delete --exclude 'found-*' /verif/replays/ "$BASE/verif/replays/" 2>/dev/null
export VERIF_ROOT="$BASE/verif" CARGO_NET_OFFLINE=true CARGO_TARGET_DIR="$BASE/target"
unset RUSTFLAGS
cd "$BASE/verif/harness" || exit 2
BIN=$(jq -r --arg id "$ID" 'select(.[$id]) | .[$id].bin' chk-*/checks.json 2>/dev/null | head -1)
[ -z "$BIN" ] && { echo "no check registered for $ID"; exit 2; }
if ! cargo build -q -p "$BIN" > "$BASE/build.log" 2>&1; then
  echo "BUILD FAILED (mutant does not compile with the harness?)"; grep -E "^error" -A12 "$BASE/build.log" | head -50; exit 2
fi
"$BASE/target/debug/$BIN" "$ID" --tier "$TIER" "$@"
RC=$?
echo "mutant.sh: slot=$SLOT patch=$PATCH id=$ID exit=$RC"
exit $RC
