#!/usr/bin/env python3
"""tools/seed_prompt.py <ID> [n]  -> prints the brief for a fresh, independent sub-agent that seeds a breaking change.
The brief contains only the property record and the scratch worktree path (nothing from /verif)."""
import json, sys
pid = sys.argv[1]
tag = sys.argv[2] if len(sys.argv) > 2 else pid
rec = None
for l in open('/verif/properties.jsonl'):
    r = json.loads(l)
    if r['id'] == pid:
        rec = r
wt = f"/tmp/seed/{tag}"
print(f"""You are helping to evaluate a verification effort for the Rust project rust-libp2p by playing the role of a developer who introduces a subtle regression.

Your working directory is `{wt}` — a scratch git worktree of the repository at a pinned commit. Work ONLY inside `{wt}` (build output goes to `{wt}/target`; always pass `--offline` to cargo, there is no network). Do not read or write `/repo`, `/verif` or any other directory outside `{wt}` (reading `~/.cargo/registry` sources is fine).

Here is a semantic property of the code base that is supposed to hold (JSON record; `anchors` points at the code it lives in):

```json
{json.dumps(rec, indent=1)}
```

Task: produce a change to the repository's **non-test source code** that **breaks this property** while
  1. still compiling (also with `RUSTFLAGS="--cfg libp2p_verif" cargo check -p <crate> --offline`; the tree contains some inactive instrumentation items guarded by `#[cfg(libp2p_verif)]` — leave them alone, do not rely on them, but they must keep compiling),
  2. still passing the existing tests of every crate you touched, unedited (`cargo test -p <crate> --offline`; run them before and after your change; if a test was already failing/flaky before your change, note it),
  3. looking like a realistic slip a developer could make (an off-by-one, a condition dropped in a refactoring, a wrong variable, a missed state transition, two call sites that each look fine but disagree, an ordering change, a stale cache…), NOT sabotage keyed on magic values, and
  4. needing **something specific to manifest**: a particular interleaving or schedule, a fault or close at a particular point, a multi-step sequence of operations, an unusual input, or two cooperating sites — not something that ordinary use or the existing tests would expose at once.

Also write a **demonstration**: a test file or small program (placed inside the worktree, e.g. as a new integration test `tests/seeded_demo.rs` in the affected crate, or a new `#[test]` in a new file) that exercises the real code and **fails with your change and passes without it**. Verify both directions yourself (`git stash` / `git apply -R` the source change, keep the demo).

If you can, produce **two independent changes** (different mechanisms / code sites), each with its own demonstration; one good one is better than two weak ones.

Deliverables, in `{wt}/out/` (create it):
  * `patch1.diff` (and `patch2.diff`): `git diff` of the non-test source change only (must apply with `git apply` to a clean checkout of this commit; do not include the demo or `out/` in it),
  * `demo1/` (and `demo2/`): the demonstration file(s) plus `RUN.md` giving the exact path where each file must be placed in the tree and the exact command that runs it,
  * `meta.json`: a list with, per change: {{"property": "{pid}", "patch": "patch1.diff", "summary": what was changed, "breaks": which clause of the property and how, "needs": what it needs in order to manifest, "crate_tests": commands run and their pass/fail counts with and without the change, "demo": command and result with/without the change}}.
Leave the worktree's tracked files **unmodified** at the end (`git -C {wt} status` clean except `out/` and untracked demo files are fine to leave — but the source change itself must be reverted; it lives only in the patch files).

Final message: a short summary of the change(s), what they need to manifest, and confirmation of the four checks above with the commands you ran.""")
