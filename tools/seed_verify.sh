#!/bin/bash
# tools/seed_verify.sh <tag> <patch.diff> <crate[,crate2]> <demo command...>
# Confirms a seeded change in its scratch worktree /tmp/seed/<tag>:
#   demo passes without the patch, fails with it; the touched crates' own tests pass with it; it compiles with the hooks on.
# Prints a JSON line with the results. Leaves the worktree's tracked files clean.
set -u
TAG=$1; PATCH=$(realpath "$2"); CRATES=$3; shift 3
WT=/tmp/seed/$TAG
cd "$WT" || exit 2
export CARGO_NET_OFFLINE=true
unset RUSTFLAGS
# an interrupted earlier run may have left the demonstration files in the hold area: put them back first
[ -f "$WT/out/_hold/files.tar" ] && tar xf "$WT/out/_hold/files.tar" && rm -rf "$WT/out/_hold"
git checkout -q -- . || exit 2
L=$WT/out/verify.log; : > "$L"
echo "== demo without patch: $*" >> "$L"
timeout 1200 bash -c "$*" >> "$L" 2>&1; D0=$?
git apply "$PATCH" || { echo '{"error":"patch does not apply"}'; exit 2; }
echo "== demo with patch" >> "$L"
timeout 1200 bash -c "$*" >> "$L" 2>&1; D1=$?
# the crate's own tests run without the demonstration files (untracked files outside out/ are moved aside)
HOLD=$WT/out/_hold; rm -rf "$HOLD"; mkdir -p "$HOLD"
git ls-files --others --exclude-standard | grep -v -E '^(out/|target)' > "$HOLD/list"
tar cf "$HOLD/files.tar" -T "$HOLD/list" 2>/dev/null && xargs -a "$HOLD/list" rm -f
T=0
for spec in ${CRATES//,/ }; do
  c=${spec%%:*}; X=""; [ "$spec" != "$c" ] && X=${spec#*:}     # crate[:extra-cargo-flag], e.g. libp2p-identity:--all-features
  echo "== cargo test -p $c $X with patch" >> "$L"
  if ! timeout 2400 cargo test -p "$c" $X --offline --no-fail-fast > "$WT/out/_crate_$c.log" 2>&1; then
    cat "$WT/out/_crate_$c.log" >> "$L"
    # timing-based tests of the repository flake on a loaded machine: re-run each failed test alone, up to 3 times
    for t in $(grep -E '^test .* \.\.\. FAILED' "$WT/out/_crate_$c.log" | awk '{print $2}' | sort -u); do
      ok=1
      for k in 1 2 3; do
        echo "== rerun $t ($k)" >> "$L"
        if timeout 900 cargo test -p "$c" $X --offline -- --exact "$t" >> "$L" 2>&1; then ok=0; break; fi
      done
      [ $ok = 0 ] || T=1
    done
    grep -qE '^test .* \.\.\. FAILED' "$WT/out/_crate_$c.log" || T=1   # failed without a named test (build error?)
  else
    tail -5 "$WT/out/_crate_$c.log" >> "$L"
  fi
done
tar xf "$HOLD/files.tar" 2>/dev/null; rm -rf "$HOLD"
echo "== cfg check" >> "$L"
C=0
for spec in ${CRATES//,/ }; do c=${spec%%:*}; RUSTFLAGS="--cfg libp2p_verif" cargo check -p "$c" --offline --target-dir "$WT/target-cfg" >> "$L" 2>&1 || C=1; done
git checkout -q -- .
echo "{\"tag\":\"$TAG\",\"patch\":\"$(basename $PATCH)\",\"demo_without\":$D0,\"demo_with\":$D1,\"crate_tests_with\":$T,\"cfg_check\":$C}"
[ $D0 = 0 ] && [ $D1 != 0 ] && [ $T = 0 ] && [ $C = 0 ]
