#!/bin/bash
# tools/seed_verify.sh <tag> <patch.diff> <crate[,crate2]> <demo command...>
# Confirms a seeded change in its scratch worktree /tmp/seed/<tag>:
#   demo passes without the patch, fails with it; the touched crates' own tests pass with it; it compiles with the hooks on.
# Prints a JSON line with the results. Leaves the worktree's tracked files clean.
set -u
TAG=$1; PATCH=$(realpath "$2"); CRATES=$3; shift 3
WT=/tmp/seed/$TAG
cd "$WT" || exit 2
export CARGO_NET_OFFLINE=true
unset RUSTFLAGS
git checkout -q -- . || exit 2
L=$WT/out/verify.log; : > "$L"
echo "== demo without patch: $*" >> "$L"
bash -c "$*" >> "$L" 2>&1; D0=$?
git apply "$PATCH" || { echo '{"error":"patch does not apply"}'; exit 2; }
echo "== demo with patch" >> "$L"
bash -c "$*" >> "$L" 2>&1; D1=$?
T=0
for c in ${CRATES//,/ }; do
  echo "== cargo test -p $c with patch" >> "$L"
  cargo test -p "$c" --offline >> "$L" 2>&1 || T=1
done
echo "== cfg check" >> "$L"
C=0
for c in ${CRATES//,/ }; do RUSTFLAGS="--cfg libp2p_verif" cargo check -p "$c" --offline --target-dir "$WT/target-cfg" >> "$L" 2>&1 || C=1; done
git checkout -q -- .
echo "{\"tag\":\"$TAG\",\"patch\":\"$(basename $PATCH)\",\"demo_without\":$D0,\"demo_with\":$D1,\"crate_tests_with\":$T,\"cfg_check\":$C}"
[ $D0 = 0 ] && [ $D1 != 0 ] && [ $T = 0 ] && [ $C = 0 ]
