#!/bin/bash
# tools/mutants_run.sh <slot> <ID>=<patch> [<ID>=<patch> ...]   → one line per mutant: CAUGHT / MISSED / BUILD-FAIL
SLOT=$1; shift
for pair in "$@"; do
  ID=${pair%%=*}; P=${pair#*=}
  OUT=$(/verif/tools/mutant.sh "$SLOT" "$P" "$ID" quick 2>&1)
  RC=$(echo "$OUT" | grep -o "mutant.sh: .*exit=[0-9]*" | grep -o "[0-9]*$")
  SIG=$(echo "$OUT" | grep -m1 "^VIOLATION" | grep -o "signature=.*")
  case "$RC" in
    1) echo "CAUGHT  $ID $(basename $P) $SIG";;
    0) echo "MISSED  $ID $(basename $P)";;
    *) echo "OTHER($RC) $ID $(basename $P) $(echo "$OUT" | grep -m2 -E 'error|BUILD|INCONCL' | tr '\n' ' ')";;
  esac
done
