#!/usr/bin/env python3
"""tools/seed_recheck.py <name>... — re-runs only the check stage for filed seeded changes (/verif/seeded/<name>/patch.diff)
against the current /verif and /repo HEAD in a scratch slot, and updates meta.json (check_result, caught_by_quick)."""
import json, os, subprocess, sys, time, glob, fcntl
for name in sys.argv[1:]:
    d = f"/verif/seeded/{name}"
    m = json.load(open(f"{d}/meta.json"))
    pid = m["property"]
    slot = f"seed-{pid}"
    for f in glob.glob("/verif/harness/chk-*/checks.json"):
        reg = json.load(open(f))
        if pid in reg:
            slot = "seed-" + reg[pid]["bin"]
    os.makedirs("/var/tmp/verif-mut", exist_ok=True)
    lk = open(f"/var/tmp/verif-mut/{slot}.lock", "w")
    fcntl.flock(lk, fcntl.LOCK_EX)
    t = time.time()
    r = subprocess.run(["/verif/tools/mutant.sh", slot, f"{d}/patch.diff", pid, "quick"], capture_output=True, text=True)
    fcntl.flock(lk, fcntl.LOCK_UN)
    vio = [l for l in r.stdout.splitlines() if l.startswith("VIOLATION")]
    m["check_result"] = {"cmd": f"tools/mutant.sh {slot} seeded/{name}/patch.diff {pid} quick", "exit": r.returncode, "violation_lines": vio[:3],
                         "wall_s": round(time.time() - t, 1), "result_line": [l for l in r.stdout.splitlines() if l.startswith("RESULT")][-1:]}
    m["caught_by_quick"] = r.returncode == 1 and bool(vio)
    json.dump(m, open(f"{d}/meta.json", "w"), indent=1)
    print(name, "exit", r.returncode, vio[:1], "" if r.returncode in (0, 1) else r.stdout[-300:], flush=True)
