#!/usr/bin/env python3
"""Regenerates /verif/MANIFEST.json from harness/chk-*/checks.json (one table per check crate)."""
import json, glob, os, subprocess
ROOT = os.path.dirname(os.path.dirname(os.path.abspath(__file__)))
props = [json.loads(l) for l in open(os.path.join(ROOT, "properties.jsonl"))]
table = {}
for f in sorted(glob.glob(os.path.join(ROOT, "harness/chk-*/checks.json"))):
    table.update(json.load(open(f)))
na_reasons = {}
p = os.path.join(ROOT, "tools/not_applicable.json")
if os.path.exists(p):
    na_reasons = json.load(open(p))
try:
    commits = subprocess.check_output(["git", "-C", "/repo", "log", "--format=%h %s", "e3299e1..HEAD"], text=True).strip().splitlines()
except Exception:
    commits = []
hook_commits = [c for c in commits if c.split(" ", 1)[1].startswith("verif hook")]
checks, na = [], []
for pr in props:
    i = pr["id"]
    if i in table:
        t = table[i]
        c = {
            "property_id": i,
            "quick_cmd": f"./run {i} quick",
            "thorough_cmd": f"./run {i} thorough",
            "evidence_file": f"/verif/evidence/{i}.json",
            "replay_cmd_template": f"./run {i} quick --replay {{path}}",
            "engine": t["bin"],
            "level_claimed": {"category": t.get("level", "exploration"), "text": t["text"], "design_ref": t.get("design_ref", "DESIGN.md §5 " + i)},
            "level_note": t["note"],
            "technique": t["technique"],
        }
        checks.append(c)
    else:
        na.append({"property_id": i, "reason": na_reasons.get(i, "check not implemented yet in this round; not claimed")})
engines = [
    {"name": "vcore", "path": "harness/vcore", "kind_free_text": "proptest-driven runner (16 deterministic lanes, shrinking, replay files, evidence, known findings), deterministic byte pipe (simio), simulation executor (simexec), generators, reference codecs", "serves_properties": sorted(table)},
]
for f in sorted(glob.glob(os.path.join(ROOT, "harness/chk-*/checks.json"))):
    name = os.path.basename(os.path.dirname(f))
    engines.append({"name": name, "path": f"harness/{name}", "kind_free_text": "check binary (properties listed)", "serves_properties": sorted(json.load(open(f)))})
if os.path.isdir(os.path.join(ROOT, "fuzz")):
    # properties whose check calls Ctx::fuzz (a [[bin]] of fuzz/Cargo.toml named in the check crate's fuzzapi.rs)
    fuzz_props = sorted(i for i, t in table.items() if "libFuzzer target" in t.get("technique", ""))
    engines.append({"name": "fuzz", "path": "fuzz", "kind_free_text": "cargo-fuzz (libFuzzer, ASan) targets whose body is the owning check's semantic oracle (check crate fuzzapi.rs); seeds/<target>/ replayed and proptest-mutated in both tiers, run_fuzz.sh with a fixed -runs per job by the thorough tier (vcore Ctx::fuzz); crash artifacts become replays/<ID>/found-fuzz_<target>-*.json", "serves_properties": fuzz_props})
m = {
    "version": 1,
    "setup_cmd": "./setup.sh",
    "hooks": {
        "guard": "--cfg libp2p_verif",
        "enable": "harness/.cargo/config.toml sets build.rustflags = [\"--cfg\", \"libp2p_verif\"]; the harness workspace depends on /repo crates by path, so every ./run rebuilds from /repo's working tree with the hooks compiled in",
        "baseline_off_cmd": "./tools/baseline_off.sh",
        "source_commits": [c.split(" ")[0] for c in hook_commits],
        "add_only": True,
    },
    "engines": engines,
    "checks": checks,
    "not_applicable": na,
    "notes": "All checks: exit 0 held / exit 1 VIOLATION line / exit 2 INCONCLUSIVE (build failure, watchdog, bound). VERIF_SEED and VERIF_TIER honoured. Known and fixed findings: known_findings.json. fix: commits in /repo: " + "; ".join(c for c in commits if c.split(" ", 1)[1].startswith("fix:")),
}
json.dump(m, open(os.path.join(ROOT, "MANIFEST.json"), "w"), indent=1)
print(f"MANIFEST.json: {len(checks)} checks, {len(na)} not_applicable")
