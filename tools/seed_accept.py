#!/usr/bin/env python3
"""tools/seed_accept.py <tag> <n> <ID> <crate[,crate]> <demo command...>
Confirms seeded change n of /tmp/seed/<tag> (tools/seed_verify.sh), runs check <ID> (quick) against it in a scratch slot
(tools/mutant.sh, never /repo), and files it under /verif/seeded/<ID>-<tag-suffix><n>/ with meta.json."""
import json, os, shutil, subprocess, sys, time
tag, n, pid, crates = sys.argv[1:5]
demo = " ".join(sys.argv[5:])
wt = f"/tmp/seed/{tag}"
patch = f"{wt}/out/patch{n}.diff"
name = f"{pid}-{tag.lower()}-{n}" if tag != pid else f"{pid}-{n}"
# keep a copy of the author's deliverables outside the worktree before anything else
subprocess.run(["rsync", "-a", "--exclude", "*.log", "--exclude", "logs", "--exclude", "_hold", f"{wt}/out/", f"/var/tmp/seed-inbox/{tag}/"])
env = dict(os.environ, CARGO_TARGET_DIR=f"{wt}/target")
import fcntl
wl = open(f"/tmp/seed/{tag}.lock", "w")
fcntl.flock(wl, fcntl.LOCK_EX)   # one user of a seed worktree at a time
v = subprocess.run(["/verif/tools/seed_verify.sh", tag, patch, crates, demo], capture_output=True, text=True, env=env)
print(v.stdout.strip(), v.stderr.strip()[-300:], flush=True)
fcntl.flock(wl, fcntl.LOCK_UN)
try:
    ver = json.loads(v.stdout.strip().splitlines()[-1])
except Exception:
    ver = {"error": v.stdout[-300:]}
confirmed = v.returncode == 0
res = {"confirmed": confirmed, "verify": ver}
if confirmed:
    t = time.time()
    import glob
    slot = os.environ.get("SEED_SLOT")
    if not slot:
        slot = f"seed-{pid}"
        for f in glob.glob("/verif/harness/chk-*/checks.json"):
            reg = json.load(open(f))
            if pid in reg:
                slot = "seed-" + reg[pid]["bin"]   # one scratch slot per check binary: incremental builds across seeds
    import fcntl
    os.makedirs("/var/tmp/verif-mut", exist_ok=True)
    lk = open(f"/var/tmp/verif-mut/{slot}.lock", "w")
    fcntl.flock(lk, fcntl.LOCK_EX)   # one user of a scratch slot at a time
    t = time.time()
    m = subprocess.run(["/verif/tools/mutant.sh", slot, patch, pid, "quick"], capture_output=True, text=True)
    fcntl.flock(lk, fcntl.LOCK_UN)
    out = m.stdout
    rc = m.returncode
    vio = [l for l in out.splitlines() if l.startswith("VIOLATION")]
    res["check"] = {"cmd": f"tools/mutant.sh {slot} patch.diff {pid} quick", "exit": rc, "violation_lines": vio[:3], "wall_s": round(time.time() - t, 1),
                    "result_line": [l for l in out.splitlines() if l.startswith("RESULT")][-1:] }
    res["caught_by_quick"] = rc == 1 and bool(vio)
    print("CHECK exit", rc, vio[:1], out[-400:] if rc not in (0, 1) else "")
    d = f"/verif/seeded/{name}"
    os.makedirs(d, exist_ok=True)
    shutil.copy(patch, f"{d}/patch.diff")
    if os.path.isdir(f"{wt}/out/demo{n}"):
        shutil.copytree(f"{wt}/out/demo{n}", f"{d}/demo", dirs_exist_ok=True)
    agent_meta = None
    try:
        am = json.load(open(f"{wt}/out/meta.json"))
        if isinstance(am, dict):
            am = am.get("changes") or [am]
        for e in am:
            if str(e.get("patch", "")).startswith(f"patch{n}"):
                agent_meta = e
        if agent_meta is None and len(am) >= int(n):
            agent_meta = am[int(n) - 1]
    except Exception as e:
        agent_meta = {"error": f"agent meta unreadable: {e}"}
    meta = {"property": pid, "name": name, "author": "independent sub-agent (given only the property record and a scratch worktree)",
            "breaks": (agent_meta or {}).get("breaks"), "needs": (agent_meta or {}).get("needs"), "summary": (agent_meta or {}).get("summary"),
            "agent_meta": agent_meta,
            "confirmed_by_main_session": {"what_was_run": f"tools/seed_verify.sh {tag} patch{n}.diff {crates} '{demo}' in the scratch worktree: demo without patch (expect pass), demo with patch (expect fail), cargo test -p <crates> with patch and without the demo files (expect pass), cargo check with --cfg libp2p_verif (expect ok)", **ver},
            "check_result": res.get("check"), "caught_by_quick": res.get("caught_by_quick")}
    json.dump(meta, open(f"{d}/meta.json", "w"), indent=1)
    print("filed", d, "caught_by_quick =", res.get("caught_by_quick"))
else:
    print("NOT CONFIRMED", ver)
