//! Harness-side wire types: the repo's generated prost structs (included by path, compiled into
//! the harness, independent of the crate-private copies inside libp2p-gossipsub) and small helpers.

#[allow(dead_code, clippy::all)]
pub mod pb {
    include!("/repo/protocols/gossipsub/src/generated/gossipsub.pb.rs");
}

use prost::Message as _;
use vcore::refcodec;

/// protobuf encoding of an RPC (no length prefix)
pub fn enc(rpc: &pb::Rpc) -> Vec<u8> {
    rpc.encode_to_vec()
}

/// one frame on the wire: unsigned-varint length prefix + protobuf
pub fn frame(rpc: &pb::Rpc) -> Vec<u8> {
    refcodec::lp(&enc(rpc))
}

pub fn sub(subscribe: bool, topic: &str) -> pb::rpc::SubOpts {
    pb::rpc::SubOpts { subscribe: Some(subscribe), topic_id: Some(topic.to_string()), requests_partial: None, supports_partial: None }
}

pub fn subs_rpc(entries: &[(bool, String)]) -> pb::Rpc {
    pb::Rpc { subscriptions: entries.iter().map(|(s, t)| sub(*s, t)).collect(), publish: vec![], control: None, partial: None }
}

pub fn graft_rpc(topics: &[String]) -> pb::Rpc {
    pb::Rpc {
        subscriptions: vec![],
        publish: vec![],
        control: Some(pb::ControlMessage { graft: topics.iter().map(|t| pb::ControlGraft { topic_id: Some(t.clone()) }).collect(), ..Default::default() }),
        partial: None,
    }
}

pub fn prune_rpc(topic: &str, backoff: Option<u64>) -> pb::Rpc {
    pb::Rpc {
        subscriptions: vec![],
        publish: vec![],
        control: Some(pb::ControlMessage { prune: vec![pb::ControlPrune { topic_id: Some(topic.to_string()), peers: vec![], backoff }], ..Default::default() }),
        partial: None,
    }
}

/// The bytes a publisher signs, written with the independent wire writer (fields 1,2,3 optional
/// bytes, field 4 required string, in tag order): "libp2p-pubsub:" ++ protobuf(from,data,seqno,topic).
pub fn signing_bytes(from: Option<&[u8]>, data: Option<&[u8]>, seqno: Option<&[u8]>, topic: &str) -> Vec<u8> {
    let mut v = b"libp2p-pubsub:".to_vec();
    if let Some(f) = from {
        v.extend(refcodec::pb_bytes(1, f));
    }
    if let Some(d) = data {
        v.extend(refcodec::pb_bytes(2, d));
    }
    if let Some(s) = seqno {
        v.extend(refcodec::pb_bytes(3, s));
    }
    v.extend(refcodec::pb_bytes(4, topic.as_bytes()));
    v
}
