//! C31 — gossipsub RPC size limits are applied per frame.
//!
//! A stream of 1..5 length-prefixed RPCs is pushed into a scripted in-memory pipe and read through
//! the real inbound upgrade's `Framed<_, GossipsubCodec>` (asynchronous_codec), i.e. exactly the
//! object the connection handler polls. Sizes are placed around `max_transmit_size`, publish
//! counts around `max_publish_messages`, control bytes around `max_control_message_size`.
use futures::StreamExt;
use libp2p_gossipsub::{self as gs, verif_pure, ValidationMode};
use proptest::prelude::*;
use prost::Message as _;
use serde::{Deserialize, Serialize};
use serde_json::json;
use vcore::simio::{self, DirCfg, Script, Step};
use vcore::{Ctx, Outcome};

use crate::wire::{self, pb};

#[derive(Clone, Debug, Serialize, Deserialize)]
pub enum RpcSpec {
    /// one publish message padded so that the RPC's protobuf encoding is exactly L + delta bytes
    Sized { delta: i8 },
    /// a few subscriptions / messages / control entries, far below every limit
    Small { subs: u8, msgs: u8, data_len: u8, grafts: u8, ihave_ids: u8 },
    /// max_publish_messages + delta minimal publish messages
    ManyPublish { delta: i8 },
    /// subscriptions + control bytes (with tags and length prefixes) == max_control_message_size + delta
    Control { delta: i8, with_sub: bool },
}

#[derive(Clone, Debug, Serialize, Deserialize)]
pub struct Case {
    /// index into [100, 1000, 65536]
    limit: u8,
    /// index into [1, 3, 5000]
    max_publish: u8,
    /// index into [60, 300, 16384]
    max_control: u8,
    rpcs: Vec<RpcSpec>,
    read: Script,
    /// read boundaries placed relative to the frame layout (the read script is derived: reads of at
    /// most 8 KiB up to each cut point, then `read`); empty = `read` alone decides
    #[serde(default)]
    cuts: Vec<(u8, Cut)>,
}

/// A read boundary inside frame number `.0 % rpcs.len()` of the stream.
#[derive(Clone, Copy, Debug, Serialize, Deserialize)]
pub enum Cut {
    /// after the first k bytes of the frame's (multi-byte) unsigned-varint length prefix
    InPrefix(u8),
    /// k bytes before the end of the frame (the frame is incomplete by k bytes when decode runs)
    BeforeEnd(u8),
    /// k bytes after the start of the frame's payload
    AfterPrefix(u8),
}

const LIMITS: [usize; 3] = [100, 1000, 65536];
const MAX_PUBLISH: [usize; 3] = [1, 3, 5000];
const MAX_CONTROL: [usize; 3] = [60, 300, 16384];

fn spec() -> impl Strategy<Value = RpcSpec> {
    prop_oneof![
        4 => (-2i8..=2).prop_map(|delta| RpcSpec::Sized { delta }),
        1 => (-40i8..=-3).prop_map(|delta| RpcSpec::Sized { delta }),
        5 => (0u8..3, 0u8..3, 0u8..30, 0u8..3, 0u8..4).prop_map(|(subs, msgs, data_len, grafts, ihave_ids)| RpcSpec::Small { subs, msgs, data_len, grafts, ihave_ids }),
        2 => (-1i8..=1).prop_map(|delta| RpcSpec::ManyPublish { delta }),
        2 => ((-2i8..=2), any::<bool>()).prop_map(|(delta, with_sub)| RpcSpec::Control { delta, with_sub }),
    ]
}

fn read_script() -> impl Strategy<Value = Script> {
    prop_oneof![
        // everything in one read (FramedRead reads at most 8 KiB per poll)
        2 => Just(Script::whole()),
        1 => Just(Script::bytewise()),
        6 => simio::script_strategy(24),
        // large reads with a few small ones: frame boundaries inside a read
        3 => (proptest::collection::vec(prop_oneof![Just(Step::Chunk(0)), (1u16..200).prop_map(Step::Chunk), (200u16..9000).prop_map(Step::Chunk)], 0..8), prop_oneof![Just(0u16), Just(8192u16), 100u16..4000])
            .prop_map(|(steps, default_chunk)| Script { steps, default_chunk }),
    ]
}

fn cut() -> impl Strategy<Value = (u8, Cut)> {
    (0u8..5, prop_oneof![3 => (1u8..=2).prop_map(Cut::InPrefix), 4 => (1u8..=3).prop_map(Cut::BeforeEnd), 1 => (0u8..=2).prop_map(Cut::AfterPrefix)])
}

fn strategy() -> impl Strategy<Value = Case> {
    (
        prop_oneof![5 => Just(0u8), 4 => Just(1u8), 1 => Just(2u8)],
        0u8..3,
        0u8..3,
        proptest::collection::vec(spec(), 1..=5),
        read_script(),
        prop_oneof![3 => Just(vec![]), 2 => proptest::collection::vec(cut(), 1..=3)],
    )
        .prop_map(|(limit, max_publish, max_control, rpcs, read, cuts)| Case { limit, max_publish, max_control, rpcs, read, cuts })
}

fn marker_topic(i: usize) -> String {
    format!("r{i}")
}

/// Build the RPC for a spec. `i` is the position in the stream (used as marker).
fn build(spec: &RpcSpec, i: usize, l: usize, p: usize, cz: usize) -> pb::Rpc {
    let bare = |data: Vec<u8>, topic: String| pb::Message { from: None, data: Some(data), seqno: None, topic, signature: None, key: None };
    match spec {
        RpcSpec::Sized { delta } => {
            let target = (l as i64 + *delta as i64).max(8) as usize;
            // search data length (and topic padding) for an exact encoded length
            for pad in 0..4usize {
                let topic = format!("{}{}", marker_topic(i), "x".repeat(pad));
                let lo = target.saturating_sub(16 + pad);
                for dlen in lo..=target {
                    let mut data = vec![0xA0 | (i as u8); dlen];
                    if let Some(b) = data.first_mut() {
                        *b = i as u8;
                    }
                    let rpc = pb::Rpc { subscriptions: vec![], publish: vec![bare(data, topic.clone())], control: None, partial: None };
                    if rpc.encoded_len() == target {
                        return rpc;
                    }
                }
            }
            unreachable!("an exact size is always reachable with 0..3 bytes of topic padding")
        }
        RpcSpec::Small { subs, msgs, data_len, grafts, ihave_ids } => {
            let mut rpc = pb::Rpc { subscriptions: vec![], publish: vec![], control: None, partial: None };
            rpc.subscriptions.push(wire::sub(true, &marker_topic(i)));
            for s in 0..*subs {
                rpc.subscriptions.push(wire::sub(s % 2 == 0, &format!("s{s}")));
            }
            for m in 0..*msgs {
                rpc.publish.push(bare(vec![m ^ 0x33; (*data_len as usize).min(8)], marker_topic(i)));
            }
            if *grafts > 0 || *ihave_ids > 0 {
                rpc.control = Some(pb::ControlMessage {
                    graft: (0..*grafts).map(|g| pb::ControlGraft { topic_id: Some(format!("g{g}")) }).collect(),
                    ihave: if *ihave_ids > 0 { vec![pb::ControlIHave { topic_id: Some("h".into()), message_ids: (0..*ihave_ids).map(|k| vec![k, i as u8]).collect() }] } else { vec![] },
                    ..Default::default()
                });
            }
            rpc
        }
        RpcSpec::ManyPublish { delta } => {
            // only meaningful for small publish limits; otherwise a handful of messages
            let n = if p <= 8 { (p as i64 + *delta as i64).max(0) as usize } else { 4 };
            pb::Rpc { subscriptions: vec![], publish: (0..n).map(|m| bare(vec![m as u8], marker_topic(i))).collect(), control: None, partial: None }
        }
        RpcSpec::Control { delta, with_sub } => {
            let target = (cz as i64 + *delta as i64).max(12) as usize;
            if cz > 2000 {
                // large control limit: just a moderately sized IHAVE
                return pb::Rpc {
                    subscriptions: vec![wire::sub(true, &marker_topic(i))],
                    publish: vec![],
                    control: Some(pb::ControlMessage { ihave: vec![pb::ControlIHave { topic_id: Some("h".into()), message_ids: vec![vec![7; 40]] }], ..Default::default() }),
                    partial: None,
                };
            }
            for pad in 0..4usize {
                for idlen in 0..=target {
                    let rpc = pb::Rpc {
                        subscriptions: if *with_sub { vec![wire::sub(true, &marker_topic(i))] } else { vec![] },
                        publish: vec![],
                        control: Some(pb::ControlMessage {
                            ihave: vec![pb::ControlIHave { topic_id: Some(format!("{}{}", marker_topic(i), "y".repeat(pad))), message_ids: vec![vec![i as u8; idlen]] }],
                            ..Default::default()
                        }),
                        partial: None,
                    };
                    if control_outer(&rpc) == target {
                        return rpc;
                    }
                }
            }
            unreachable!("control size reachable")
        }
    }
}

fn varint_len(n: usize) -> usize {
    vcore::refcodec::uvarint(n as u64).len()
}

/// bytes of the subscription (field 1) and control (field 3) fields including tag and length prefix
fn control_outer(rpc: &pb::Rpc) -> usize {
    let mut n = 0;
    for s in &rpc.subscriptions {
        let l = s.encoded_len();
        n += 1 + varint_len(l) + l;
    }
    if let Some(c) = &rpc.control {
        let l = c.encoded_len();
        n += 1 + varint_len(l) + l;
    }
    n
}

#[derive(PartialEq, Debug)]
struct Shape {
    subs: Vec<(bool, String)>,
    datas: Vec<Vec<u8>>,
    msg_topics: Vec<String>,
    grafts: Vec<String>,
    ihave: Vec<(String, Vec<Vec<u8>>)>,
}

fn shape_of_rpc(r: &pb::Rpc) -> Shape {
    let c = r.control.clone().unwrap_or_default();
    Shape {
        subs: r.subscriptions.iter().map(|s| (s.subscribe == Some(true), s.topic_id.clone().unwrap_or_default())).collect(),
        datas: r.publish.iter().map(|m| m.data.clone().unwrap_or_default()).collect(),
        msg_topics: r.publish.iter().map(|m| m.topic.clone()).collect(),
        grafts: c.graft.iter().map(|g| g.topic_id.clone().unwrap_or_default()).collect(),
        ihave: c.ihave.iter().map(|h| (h.topic_id.clone().unwrap_or_default(), h.message_ids.clone())).collect(),
    }
}

fn shape_of_summary(s: &verif_pure::RpcSummary) -> Shape {
    Shape {
        subs: s.subscriptions.iter().map(|(b, t)| (*b, t.as_str().to_string())).collect(),
        datas: s.messages.iter().map(|m| m.data.clone()).collect(),
        msg_topics: s.messages.iter().map(|m| m.topic.as_str().to_string()).collect(),
        grafts: s.graft.iter().map(|t| t.as_str().to_string()).collect(),
        ihave: s.ihave.iter().map(|(t, ids)| (t.as_str().to_string(), ids.iter().map(|i| i.0.clone()).collect())).collect(),
    }
}

#[derive(Clone, Copy, PartialEq, Debug)]
enum Class {
    MustAccept,
    MustReject,
    DontCare,
}

/// stream offsets at which a read ends (every read is followed by a decode attempt); the framed
/// reader asks for at most 8 KiB per read
fn read_boundaries(script: &Script, total: usize) -> Vec<usize> {
    let mut off = 0usize;
    let mut out = vec![];
    let mut steps = script.steps.iter();
    while off < total {
        let step = steps.next().copied().unwrap_or(Step::Chunk(script.default_chunk));
        let n = match step {
            Step::Pending => continue,
            Step::Chunk(0) => usize::MAX,
            Step::Chunk(n) => n as usize,
        };
        off += n.min(8192).min(total - off);
        out.push(off);
    }
    out
}

/// does some read deliver bytes of two different frames (a frame boundary strictly inside a read)?
fn coalesces(boundaries: &[usize], starts: &[usize]) -> bool {
    let mut off = 0usize;
    for &end in boundaries {
        if starts.iter().any(|&f| off < f && f < end) {
            return true;
        }
        off = end;
    }
    false
}

/// read script that puts a read boundary at each of `points` (reads of at most 8 KiB in between) and
/// then continues with `then`
fn script_with_cuts(points: &[usize], then: &Script) -> Script {
    let mut steps = vec![];
    let mut off = 0usize;
    for &c in points {
        while off < c {
            let n = (c - off).min(8192);
            steps.push(Step::Chunk(n as u16));
            off += n;
        }
    }
    steps.extend(then.steps.iter().copied());
    Script { steps, default_chunk: then.default_chunk }
}

fn check(case: &Case) -> Outcome {
    let l = LIMITS[case.limit as usize % 3];
    let p = MAX_PUBLISH[case.max_publish as usize % 3];
    let cz = MAX_CONTROL[case.max_control as usize % 3];
    let cfg = match gs::ConfigBuilder::default().validation_mode(ValidationMode::Anonymous).max_transmit_size(l).max_publish_messages(p).max_control_message_size(cz).build() {
        Ok(c) => c,
        Err(e) => return Outcome::fail("C31:config-rejected", e.to_string()),
    };
    let rpcs: Vec<pb::Rpc> = case.rpcs.iter().enumerate().map(|(i, s)| build(s, i, l, p, cz)).collect();
    let classes: Vec<(Class, usize)> = rpcs
        .iter()
        .map(|r| {
            let len = r.encoded_len();
            let c = if len > l {
                Class::MustReject
            } else if r.publish.len() <= p && control_outer(r) <= cz {
                Class::MustAccept
            } else {
                Class::DontCare
            };
            (c, len)
        })
        .collect();
    let mut stream = vec![];
    let mut starts = vec![];
    for r in &rpcs {
        starts.push(stream.len());
        stream.extend(wire::frame(r));
    }
    // frames after the first fatal one are never looked at
    let relevant = classes.iter().position(|(c, _)| *c == Class::MustReject).map(|i| i + 1).unwrap_or(rpcs.len());
    let mut script = case.read.clone();
    if l > 10_000 && script.default_chunk != 0 && script.default_chunk < 500 {
        script.default_chunk = 997; // keep the 64 KiB cases cheap
    }
    // frame layout: (start, length of the length prefix, end) per frame
    let layout: Vec<(usize, usize, usize)> = starts.iter().zip(&classes).map(|(st, (_, len))| (*st, varint_len(*len), *st + varint_len(*len) + *len)).collect();
    if !case.cuts.is_empty() {
        let mut points: Vec<usize> = case
            .cuts
            .iter()
            .filter_map(|(f, c)| {
                let (st, pl, end) = layout[*f as usize % layout.len()];
                match c {
                    Cut::InPrefix(k) if pl >= 2 => Some(st + (*k as usize).clamp(1, pl - 1)),
                    Cut::InPrefix(_) => None,
                    Cut::BeforeEnd(k) => Some(end - (*k as usize).min(end - st - 1)),
                    Cut::AfterPrefix(k) => Some((st + pl + *k as usize).min(end - 1)),
                }
            })
            .collect();
        points.sort_unstable();
        points.dedup();
        script = script_with_cuts(&points, &script);
    }
    let boundaries = read_boundaries(&script, stream.len());
    let coalesced = relevant >= 2 && coalesces(&boundaries, &starts[..relevant]);
    // generator-distribution classes: where do reads end relative to the frames that are looked at
    let mut cut_in_prefix = false;
    let mut cut_in_tail = false;
    let mut near_limit_cut_in_tail = false;
    for (i, (st, pl, end)) in layout[..relevant].iter().enumerate() {
        if boundaries.iter().any(|b| *st < *b && *b < *st + *pl) {
            cut_in_prefix = true;
        }
        if boundaries.iter().any(|b| *b + 3 >= *end && *b < *end && *b > *st) {
            cut_in_tail = true;
            let (c, len) = classes[i];
            if c == Class::MustAccept && len + 2 >= l && l >= 128 {
                near_limit_cut_in_tail = true;
            }
        }
    }

    let (_a, b) = simio::pair(DirCfg { read: script, write: Script::whole(), capacity: None }, DirCfg::default());
    b.push_raw(&stream);
    b.close_incoming();
    let mut framed = verif_pure::framed_inbound(&cfg, b);
    let detail = |i: usize, what: &str| {
        json!({"limit": l, "max_publish": p, "max_control": cz, "rpc_index": i, "what": what,
               "encoded_lens": classes.iter().map(|(_, n)| *n).collect::<Vec<_>>(),
               "classes": classes.iter().map(|(c, _)| format!("{c:?}")).collect::<Vec<_>>(),
               "publish_counts": rpcs.iter().map(|r| r.publish.len()).collect::<Vec<_>>(),
               "control_bytes": rpcs.iter().map(control_outer).collect::<Vec<_>>(),
               "coalesced_read": coalesced})
    };
    let mut ended_by_error = false;
    let mut delivered = 0usize;
    for (i, rpc) in rpcs.iter().enumerate() {
        let item = futures::executor::block_on(framed.next());
        let (class, len) = classes[i];
        match (class, item) {
            (Class::MustReject, Some(Err(_))) => {
                ended_by_error = true;
                break;
            }
            (Class::MustReject, Some(Ok(_))) => return Outcome::fail("C31:oversized-rpc-accepted", detail(i, "an RPC whose encoding exceeds max_transmit_size was decoded")),
            (Class::MustReject, None) => return Outcome::fail("C31:oversized-rpc-silently-dropped", detail(i, "stream ended without an error")),
            (Class::MustAccept, Some(Err(e))) => {
                let sig = if len == l {
                    "C31:rpc-of-exactly-max-size-rejected"
                } else if i + 1 < rpcs.len() || i > 0 {
                    "C31:within-limit-rpc-rejected-in-multi-frame-stream"
                } else {
                    "C31:within-limit-rpc-rejected"
                };
                return Outcome::fail(sig, detail(i, &e.to_string()));
            }
            (Class::DontCare, Some(Err(_))) => {
                ended_by_error = true;
                break;
            }
            (_, None) => return Outcome::fail("C31:rpc-lost", detail(i, "stream ended before this RPC was yielded")),
            (_, Some(Ok(ev))) => {
                let Some(sum) = verif_pure::summarize(&ev) else { return Outcome::fail("C31:unexpected-event", detail(i, "not a Message event")) };
                if !sum.invalid.is_empty() || shape_of_summary(&sum) != shape_of_rpc(rpc) {
                    return Outcome::fail("C31:rpc-mismatch", detail(i, &format!("decoded {:?} expected {:?}", shape_of_summary(&sum), shape_of_rpc(rpc))));
                }
                delivered += 1;
            }
        }
    }
    if !ended_by_error {
        match futures::executor::block_on(framed.next()) {
            None => {}
            Some(Ok(_)) => return Outcome::fail("C31:phantom-rpc", detail(rpcs.len(), "an extra RPC was yielded")),
            Some(Err(e)) => return Outcome::fail("C31:error-after-last-rpc", detail(rpcs.len(), &e.to_string())),
        }
    }
    let at_limit = classes[..relevant].iter().any(|(c, n)| *c == Class::MustAccept && *n == l);
    let mut labels = vec![match l {
        100 => "L=100",
        1000 => "L=1000",
        _ => "L=65536",
    }];
    if coalesced {
        labels.push("coalesced-read");
    }
    if at_limit {
        labels.push("size==limit");
    }
    if classes[..relevant].iter().any(|(c, _)| *c == Class::MustReject) {
        labels.push("has-oversized");
    }
    if classes[..relevant].iter().any(|(c, _)| *c == Class::DontCare) {
        labels.push("has-over-publish/control-limit");
    }
    if delivered >= 2 {
        labels.push("delivered>=2");
    }
    if stream.len() > l {
        labels.push("stream>limit");
    }
    if cut_in_prefix {
        labels.push("read-ends-inside-a-multibyte-length-prefix");
    }
    if cut_in_tail {
        labels.push("read-ends-in-the-last-3-bytes-of-a-frame");
    }
    if near_limit_cut_in_tail {
        labels.push(if l == 65536 { "L=65536:frame-of-L-2..L-bytes-incomplete-by-1..3-bytes" } else { "L=1000:frame-of-L-2..L-bytes-incomplete-by-1..3-bytes" });
    }
    Outcome::pass_l((coalesced && delivered >= 2) || at_limit, labels)
}

// ---------------------------------------------------------------------------------------------
// byte-level: mutated streams must decode identically however they are chunked

#[derive(Clone, Debug, Serialize, Deserialize)]
pub struct FuzzCase {
    limit: u8,
    rpcs: Vec<RpcSpec>,
    muts: Vec<vcore::gen::Mutation>,
    /// raw bytes appended after the (mutated) frames
    tail: Vec<u8>,
    read: Script,
}

fn fuzz_strategy() -> impl Strategy<Value = FuzzCase> {
    (
        prop_oneof![5 => Just(0u8), 4 => Just(1u8)],
        proptest::collection::vec(spec(), 1..=4),
        proptest::collection::vec(vcore::gen::mutation(), 0..=3),
        prop_oneof![3 => Just(vec![]), 1 => proptest::collection::vec(any::<u8>(), 1..12)],
        read_script(),
    )
        .prop_map(|(limit, rpcs, muts, tail, read)| FuzzCase { limit, rpcs, muts, tail, read })
}

/// (shapes yielded before the stream ended, ended with an error?)
fn decode_all(cfg: &gs::Config, stream: &[u8], script: Script) -> (Vec<String>, bool) {
    let (_a, b) = simio::pair(DirCfg { read: script, write: Script::whole(), capacity: None }, DirCfg::default());
    b.push_raw(stream);
    b.close_incoming();
    let mut framed = verif_pure::framed_inbound(cfg, b);
    let mut out = vec![];
    loop {
        match futures::executor::block_on(framed.next()) {
            None => return (out, false),
            Some(Err(_)) => return (out, true),
            Some(Ok(ev)) => match verif_pure::summarize(&ev) {
                Some(sum) => out.push(format!("{:?}|invalid={}", shape_of_summary(&sum), sum.invalid.len())),
                None => out.push("non-message-event".into()),
            },
        }
        if out.len() > 64 {
            return (out, false);
        }
    }
}

/// configuration of the byte-level sub-check / fuzz target: L in {100, 1000}, 3 publish messages, 300 control bytes
pub fn byte_level_cfg(limit: u8) -> Result<(usize, gs::Config), String> {
    let l = LIMITS[limit as usize % 2];
    gs::ConfigBuilder::default().validation_mode(ValidationMode::Anonymous).max_transmit_size(l).max_publish_messages(3).max_control_message_size(300).build().map(|c| (l, c)).map_err(|e| e.to_string())
}

/// Chunking-independence oracle (shared with the fuzz target `gossipsub_rpc`): the stream is decoded
/// one byte per read (baseline) and with `script`; Ok((shapes yielded, ended with an error)).
pub fn chunking_oracle(cfg: &gs::Config, l: usize, stream: &[u8], script: &Script) -> Result<(Vec<String>, bool), (String, serde_json::Value)> {
    // baseline: one byte per read, so the decoder never sees more than the frame it is working on
    let (base, base_err) = decode_all(cfg, stream, Script::bytewise());
    let (got, got_err) = decode_all(cfg, stream, script.clone());
    if base != got || base_err != got_err {
        return Err((
            "C31:decoding-depends-on-chunking".into(),
            json!({"limit": l, "stream_len": stream.len(), "bytewise": {"yielded": base.len(), "ended_with_error": base_err}, "scripted": {"yielded": got.len(), "ended_with_error": got_err},
                   "first_difference": base.iter().zip(got.iter()).position(|(a, b)| a != b)}),
        ));
    }
    Ok((base, base_err))
}

/// Size-limit oracle on an arbitrary byte stream (fuzz target only). The stream is walked with the
/// independent uvarint reader: k = number of leading complete frames whose declared length is
/// <= L. The decoder (any chunking) must not yield more than k RPCs; if it yields fewer than k
/// it must have ended with an error (no within-limit frame is silently dropped); if the walk stops
/// at a prefix declaring more than L bytes and all k frames were yielded, the stream must end
/// with an error (with or without the oversized payload present).
pub fn limit_oracle(l: usize, stream: &[u8], yielded: usize, ended_with_error: bool) -> Result<&'static str, (String, serde_json::Value)> {
    let mut off = 0usize;
    let mut k = 0usize;
    let stop = loop {
        match vcore::refcodec::read_uvarint(&stream[off..]) {
            None => break if off == stream.len() { "clean-end" } else { "bad-or-incomplete-prefix" },
            Some((len, used)) => {
                if len > l as u64 {
                    break "oversized-prefix";
                }
                let end = off + used + len as usize;
                if end > stream.len() {
                    break "incomplete-frame";
                }
                off = end;
                k += 1;
            }
        }
    };
    let capped = yielded > 64; // decode_all stops after 65 items
    let d = |what: &str| json!({"what": what, "limit": l, "stream_len": stream.len(), "within_limit_complete_frames": k, "walk_stopped_at": stop, "offset": off, "yielded": yielded, "ended_with_error": ended_with_error});
    if yielded > k {
        return Err(("C31:more-rpcs-yielded-than-within-limit-frames".into(), d("an RPC was decoded from bytes that are not a complete frame of at most max_transmit_size bytes")));
    }
    if !capped && yielded < k && !ended_with_error {
        return Err(("C31:within-limit-frame-silently-dropped".into(), d("fewer RPCs than complete within-limit frames and no error")));
    }
    if !capped && stop == "oversized-prefix" && yielded == k && !ended_with_error {
        return Err(("C31:oversized-rpc-silently-dropped".into(), d("a frame declaring more than max_transmit_size bytes did not end the stream with an error")));
    }
    Ok(stop)
}

fn fuzz_check(case: &FuzzCase) -> Outcome {
    let (l, cfg) = match byte_level_cfg(case.limit) {
        Ok(c) => c,
        Err(e) => return Outcome::fail("C31:config-rejected", e),
    };
    let mut stream = vec![];
    for (i, s) in case.rpcs.iter().enumerate() {
        stream.extend(wire::frame(&build(s, i, l, 3, 300)));
    }
    let mut stream = vcore::gen::apply_mutations(&stream, &case.muts);
    stream.extend_from_slice(&case.tail);
    let (base, base_err) = match chunking_oracle(&cfg, l, &stream, &case.read) {
        Ok(x) => x,
        Err((sig, d)) => return Outcome::fail(sig, d),
    };
    let mut labels = vec![];
    if !case.muts.is_empty() || !case.tail.is_empty() {
        labels.push("mutated");
    }
    if base_err {
        labels.push("ends-with-error");
    }
    if base.len() >= 2 {
        labels.push("yielded>=2");
    }
    Outcome::pass_l(!base.is_empty() && (base_err || base.len() >= 2), labels)
}

/// seed material for the fuzz corpus: the frames of a spec list at limit index `limit`
pub fn seed_stream(limit: u8, specs: &[RpcSpec]) -> Vec<u8> {
    let l = LIMITS[limit as usize % 2];
    let mut stream = vec![];
    for (i, s) in specs.iter().enumerate() {
        stream.extend(wire::frame(&build(s, i, l, 3, 300)));
    }
    stream
}

pub fn run(ctx: &mut Ctx) {
    ctx.assume("the reader is the Framed<_, GossipsubCodec> returned by the real InboundUpgrade of the Config (hook verif_pure::framed_inbound); asynchronous_codec reads at most 8 KiB per poll");
    ctx.assume("'within the publish/control limits' is taken conservatively: publish count <= max_publish_messages and subscription+control bytes including tags/length prefixes <= max_control_message_size; RPCs only over those limits are don't-care");
    ctx.check::<Case>(
        "framed-stream",
        "streams of 1..5 RPCs (encoded size L-2..L+2 for L in {100,1000,65536}, small, publish count P-1..P+1, control bytes C-2..C+2) read through scripted chunks (whole / bytewise / generated / 40%: read boundaries placed 1..2 bytes into a frame's multi-byte length prefix, 1..3 bytes before a frame's end or just after its prefix, with reads of <= 8 KiB in between); every RPC within the limits must be yielded in order, an RPC over max_transmit_size must yield Err; non-trivial = a read delivered bytes of >=2 frames and >=2 RPCs were yielded, or an RPC of exactly L bytes",
        ctx.n(30_000, 750_000),
        &|| strategy().boxed(),
        &check,
    );
    ctx.check::<FuzzCase>(
        "chunking-independence",
        "a stream of 1..4 RPC frames (sizes around L in {100,1000}) with 0..3 byte mutations (flip/truncate/dup/remove/insert/set) and an optional garbage tail is decoded twice through the real Framed reader: one byte per read (never more than one frame buffered) and with a generated chunk script; the yielded RPC sequence and whether the stream ended in an error must be identical, and nothing may panic; non-trivial = >=1 RPC yielded and (>=2 yielded or the stream ended with an error)",
        ctx.n(20_000, 500_000),
        &|| fuzz_strategy().boxed(),
        &fuzz_check,
    );
    ctx.fuzz(&crate::fuzzapi::GOSSIPSUB_RPC, 30_000, 600_000, crate::fuzzapi::GOSSIPSUB_RPC_RUNS_PER_JOB, crate::fuzzapi::FUZZ_JOBS);
}
