//! C34 — accepted gossipsub configs never break the behaviour.
//!
//! `builder`: generated sequences of `ConfigBuilder` calls over small values, then `build()`;
//! an accepted config is read back through the public getters and must satisfy the stated
//! inequalities for the default set and for every topic.
//! `heartbeat`: a real `Behaviour` built from every accepted config is driven with generated
//! peers / subscriptions / GRAFTs and heartbeats; nothing may panic.
use libp2p_core::verif_clock;
use libp2p_gossipsub::{self as gs, verif_pure::TopicMeshConfig, Config, ConfigBuilder, TopicHash};
use proptest::prelude::*;
use serde::{Deserialize, Serialize};
use serde_json::json;
use std::time::Duration;
use vcore::runner::catch;
use vcore::{Ctx, Outcome};

use crate::drv::{self, Fed, Node};
use crate::wire;

const NTOPICS: u8 = 4; // t0..t2 may be configured, t3 never is

#[derive(Clone, Debug, Serialize, Deserialize)]
pub enum Call {
    MeshN(u8),
    MeshNLow(u8),
    MeshNHigh(u8),
    OutboundMin(u8),
    MeshNFor(u8, u8),
    MeshNLowFor(u8, u8),
    MeshNHighFor(u8, u8),
    OutboundMinFor(u8, u8),
    /// set_topic_config(topic, {n, low, high, outbound_min})
    TopicConfig { topic: u8, n: u8, low: u8, high: u8, out: u8 },
    /// the four default setters in one go (so that consistent default sets are common)
    DefaultSet { n: u8, low: u8, high: u8, out: u8 },
    HistoryLength(u8),
    HistoryGossip(u8),
    MaxTransmit(u32),
    MaxTransmitFor(u32, u8),
}

fn topic_name(t: u8) -> String {
    format!("t{}", t % NTOPICS)
}
fn th(t: u8) -> TopicHash {
    TopicHash::from_raw(topic_name(t))
}

/// (n, low, high, out): mostly consistent, sometimes with one value perturbed
fn mesh_set() -> impl Strategy<Value = (u8, u8, u8, u8)> {
    (0u8..=8, 0u8..=8, 0u8..=8, 0u8..=8, 0u8..10, 0u8..4, 0u8..=8).prop_map(|(a, b, c, o, perturb, which, v)| {
        let mut s = [a, b, c];
        s.sort();
        let (low, n, high) = (s[0], s[1], s[2]);
        let out = o.min(low).min(n / 2);
        let mut r = (n, low, high, out);
        if perturb < 3 {
            match which {
                0 => r.0 = v,
                1 => r.1 = v,
                2 => r.2 = v,
                _ => r.3 = v,
            }
        }
        r
    })
}

fn size() -> impl Strategy<Value = u32> {
    prop_oneof![Just(0u32), Just(1), Just(50), Just(99), Just(100), Just(101), Just(1000), Just(65536)]
}

fn call() -> impl Strategy<Value = Call> {
    let v = || 0u8..=8;
    let t = || 0u8..3;
    prop_oneof![
        2 => v().prop_map(Call::MeshN),
        2 => v().prop_map(Call::MeshNLow),
        2 => v().prop_map(Call::MeshNHigh),
        2 => v().prop_map(Call::OutboundMin),
        2 => (v(), t()).prop_map(|(a, b)| Call::MeshNFor(a, b)),
        2 => (v(), t()).prop_map(|(a, b)| Call::MeshNLowFor(a, b)),
        2 => (v(), t()).prop_map(|(a, b)| Call::MeshNHighFor(a, b)),
        2 => (v(), t()).prop_map(|(a, b)| Call::OutboundMinFor(a, b)),
        4 => (t(), mesh_set()).prop_map(|(topic, (n, low, high, out))| Call::TopicConfig { topic, n, low, high, out }),
        4 => mesh_set().prop_map(|(n, low, high, out)| Call::DefaultSet { n, low, high, out }),
        1 => v().prop_map(Call::HistoryLength),
        1 => v().prop_map(Call::HistoryGossip),
        1 => size().prop_map(Call::MaxTransmit),
        2 => (size(), t()).prop_map(|(a, b)| Call::MaxTransmitFor(a, b)),
    ]
}

/// calls for the heartbeat half: mostly whole (consistent or one-off perturbed) parameter sets and
/// legal sizes, so that most generated configs are accepted
fn call_mostly_ok() -> impl Strategy<Value = Call> {
    let t = || 0u8..3;
    let ok_size = || prop_oneof![Just(100u32), Just(1000), Just(65536)];
    prop_oneof![
        6 => (t(), mesh_set()).prop_map(|(topic, (n, low, high, out))| Call::TopicConfig { topic, n, low, high, out }),
        5 => mesh_set().prop_map(|(n, low, high, out)| Call::DefaultSet { n, low, high, out }),
        1 => ok_size().prop_map(Call::MaxTransmit),
        2 => (ok_size(), t()).prop_map(|(a, b)| Call::MaxTransmitFor(a, b)),
        2 => call(),
    ]
}

fn apply(b: &mut ConfigBuilder, c: &Call) {
    match *c {
        Call::MeshN(v) => {
            b.mesh_n(v as usize);
        }
        Call::MeshNLow(v) => {
            b.mesh_n_low(v as usize);
        }
        Call::MeshNHigh(v) => {
            b.mesh_n_high(v as usize);
        }
        Call::OutboundMin(v) => {
            b.mesh_outbound_min(v as usize);
        }
        Call::MeshNFor(v, t) => {
            b.mesh_n_for_topic(v as usize, th(t));
        }
        Call::MeshNLowFor(v, t) => {
            b.mesh_n_low_for_topic(v as usize, th(t));
        }
        Call::MeshNHighFor(v, t) => {
            b.mesh_n_high_for_topic(v as usize, th(t));
        }
        Call::OutboundMinFor(v, t) => {
            b.mesh_outbound_min_for_topic(v as usize, th(t));
        }
        Call::TopicConfig { topic, n, low, high, out } => {
            b.set_topic_config(th(topic), TopicMeshConfig { mesh_n: n as usize, mesh_n_low: low as usize, mesh_n_high: high as usize, mesh_outbound_min: out as usize });
        }
        Call::DefaultSet { n, low, high, out } => {
            b.mesh_n(n as usize).mesh_n_low(low as usize).mesh_n_high(high as usize).mesh_outbound_min(out as usize);
        }
        Call::HistoryLength(v) => {
            b.history_length(v as usize);
        }
        Call::HistoryGossip(v) => {
            b.history_gossip(v as usize);
        }
        Call::MaxTransmit(v) => {
            b.max_transmit_size(v as usize);
        }
        Call::MaxTransmitFor(v, t) => {
            b.max_transmit_size_for_topic(v as usize, th(t));
        }
    }
}

fn per_topic_call(c: &Call) -> bool {
    matches!(c, Call::MeshNFor(..) | Call::MeshNLowFor(..) | Call::MeshNHighFor(..) | Call::OutboundMinFor(..) | Call::TopicConfig { .. } | Call::MaxTransmitFor(..))
}

/// The statement's inequalities, read back through the public getters. Returns the first
/// violated one as (signature, detail).
/// Signature suffix of the known finding: build() validates a per-topic mesh parameter set only when the topic
/// also has its own max_transmit_size (the repository's own test-suite relies on the missing validation).
const UNVALIDATED: &str = "-for-topic-without-own-transmit-size";

fn violated(cfg: &Config, calls: &[Call]) -> Option<(&'static str, serde_json::Value)> {
    // 0 = default set, 1 = topic with its own transmit size, 2 = topic without
    let set = |scope: String, kind: u8, out: usize, low: usize, n: usize, high: usize| -> Option<(&'static str, serde_json::Value)> {
        let d = json!({"scope": scope, "mesh_outbound_min": out, "mesh_n_low": low, "mesh_n": n, "mesh_n_high": high, "topic_has_own_transmit_size": kind == 1});
        if !(out <= low && low <= n && n <= high) {
            return Some((
                match kind {
                    0 => "C34:accepted-default-mesh-params-out-of-order",
                    1 => "C34:accepted-topic-mesh-params-out-of-order",
                    _ => "C34:accepted-topic-mesh-params-out-of-order-for-topic-without-own-transmit-size",
                },
                d,
            ));
        }
        if 2 * out > n {
            return Some((
                match kind {
                    0 => "C34:accepted-default-outbound-min-above-half-mesh-n",
                    1 => "C34:accepted-topic-outbound-min-above-half-mesh-n",
                    _ => "C34:accepted-topic-outbound-min-above-half-mesh-n-for-topic-without-own-transmit-size",
                },
                d,
            ));
        }
        None
    };
    if let Some(v) = set("default".into(), 0, cfg.mesh_outbound_min(), cfg.mesh_n_low(), cfg.mesh_n(), cfg.mesh_n_high()) {
        return Some(v);
    }
    let topics = |want: u8| -> Option<(&'static str, serde_json::Value)> {
        for t in 0..NTOPICS {
            let own = calls.iter().any(|c| matches!(c, Call::MaxTransmitFor(_, tt) if *tt == t));
            let kind = if own { 1 } else { 2 };
            if kind != want {
                continue;
            }
            let h = th(t);
            if let Some(v) = set(topic_name(t), kind, cfg.mesh_outbound_min_for_topic(&h), cfg.mesh_n_low_for_topic(&h), cfg.mesh_n_for_topic(&h), cfg.mesh_n_high_for_topic(&h)) {
                return Some(v);
            }
        }
        None
    };
    if let Some(v) = topics(1) {
        return Some(v);
    }
    if cfg.history_gossip() > cfg.history_length() {
        return Some(("C34:accepted-history-gossip-above-history-length", json!({"history_gossip": cfg.history_gossip(), "history_length": cfg.history_length()})));
    }
    if cfg.max_transmit_size() < 100 {
        return Some(("C34:accepted-default-max-transmit-size-below-100", json!({"max_transmit_size": cfg.max_transmit_size()})));
    }
    for t in 0..NTOPICS {
        let s = cfg.max_transmit_size_for_topic(&th(t));
        if s < 100 {
            return Some(("C34:accepted-topic-max-transmit-size-below-100", json!({"topic": topic_name(t), "max_transmit_size": s})));
        }
    }
    // last, so that the known finding never hides another violation of the same config
    if let Some(v) = topics(2) {
        return Some(v);
    }
    None
}

#[derive(Clone, Debug, Serialize, Deserialize)]
pub struct Case {
    calls: Vec<Call>,
}

fn check_builder(case: &Case) -> Outcome {
    let mut b = ConfigBuilder::default();
    for c in &case.calls {
        apply(&mut b, c);
    }
    let used_topic = case.calls.iter().any(per_topic_call);
    match b.build() {
        Ok(cfg) => {
            if let Some((sig, d)) = violated(&cfg, &case.calls) {
                return Outcome::fail(sig, d);
            }
            Outcome::pass_l(used_topic, if used_topic { vec!["accepted", "per-topic-setter"] } else { vec!["accepted"] })
        }
        Err(e) => {
            let l: &'static str = match e {
                gs::ConfigBuilderError::MaxTransmissionSizeTooSmall => "rejected:size",
                gs::ConfigBuilderError::HistoryLengthTooSmall => "rejected:history",
                gs::ConfigBuilderError::MeshParametersInvalid => "rejected:mesh-order",
                gs::ConfigBuilderError::MeshOutboundInvalid => "rejected:outbound",
                _ => "rejected:other",
            };
            Outcome::pass_l(false, vec!["rejected", l])
        }
    }
}

// ---------------------------------------------------------------------------------------------
// heartbeat half

#[derive(Clone, Debug, Serialize, Deserialize)]
pub enum BOp {
    Connect { peer: u8, outbound: bool },
    /// peer (if connected) sends subscribe for the topics in the 4-bit mask
    PeerSubscribe { peer: u8, mask: u8 },
    PeerGraft { peer: u8, topic: u8 },
    LocalSubscribe { topic: u8 },
    LocalUnsubscribe { topic: u8 },
    Heartbeat,
    Publish { topic: u8 },
}

#[derive(Clone, Debug, Serialize, Deserialize)]
pub struct HCase {
    calls: Vec<Call>,
    ops: Vec<BOp>,
}

fn bop() -> impl Strategy<Value = BOp> {
    prop_oneof![
        6 => (0u8..12, any::<bool>()).prop_map(|(peer, outbound)| BOp::Connect { peer, outbound }),
        6 => (0u8..12, 1u8..16).prop_map(|(peer, mask)| BOp::PeerSubscribe { peer, mask }),
        5 => (0u8..12, 0u8..NTOPICS).prop_map(|(peer, topic)| BOp::PeerGraft { peer, topic }),
        4 => (0u8..NTOPICS).prop_map(|topic| BOp::LocalSubscribe { topic }),
        1 => (0u8..NTOPICS).prop_map(|topic| BOp::LocalUnsubscribe { topic }),
        4 => Just(BOp::Heartbeat),
        1 => (0u8..NTOPICS).prop_map(|topic| BOp::Publish { topic }),
    ]
}

fn check_heartbeat(case: &HCase) -> Outcome {
    verif_clock::set(Duration::ZERO);
    let mut b = drv::quiet_builder();
    for c in &case.calls {
        apply(&mut b, c);
    }
    let cfg = match b.build() {
        Ok(c) => c,
        Err(_) => return Outcome::pass_l(false, vec!["rejected"]),
    };
    let inconsistent = violated(&cfg, &case.calls);
    let hb = cfg.heartbeat_interval();
    let mut node = match catch(|| Node::new(cfg, gs::AllowAllSubscriptionFilter {})) {
        Ok(Ok(n)) => n,
        Ok(Err(e)) => return Outcome::fail("C34:behaviour-new-rejected-accepted-config", e),
        Err(p) => return Outcome::fail("C34:panic-constructing-behaviour", json!({"panic": p})),
    };
    let mut connected: Vec<u8> = vec![];
    let mut heartbeats = 0usize;
    let mut max_mesh = 0usize;
    // every run ends with three heartbeats, as the statement's "heartbeat for any set of peers"
    let tail = [BOp::Heartbeat, BOp::Heartbeat, BOp::Heartbeat];
    for (step, op) in case.ops.iter().chain(tail.iter()).enumerate() {
        let r = catch(|| -> Result<(), String> {
            match op {
                BOp::Connect { peer, outbound } => {
                    if !connected.contains(peer) {
                        node.connect(vcore::gen::synthetic_peer(*peer as u64 + 1), *outbound, 3);
                        connected.push(*peer);
                    }
                }
                BOp::PeerSubscribe { peer, mask } => {
                    if connected.contains(peer) {
                        let subs: Vec<(bool, String)> = (0..NTOPICS).filter(|t| mask & (1 << t) != 0).map(|t| (true, topic_name(t))).collect();
                        if let Fed::CodecError(e) = node.feed(&vcore::gen::synthetic_peer(*peer as u64 + 1), &wire::subs_rpc(&subs)) {
                            return Err(e);
                        }
                    }
                }
                BOp::PeerGraft { peer, topic } => {
                    if connected.contains(peer) {
                        if let Fed::CodecError(e) = node.feed(&vcore::gen::synthetic_peer(*peer as u64 + 1), &wire::graft_rpc(&[topic_name(*topic)])) {
                            return Err(e);
                        }
                    }
                }
                BOp::LocalSubscribe { topic } => {
                    let _ = node.b.subscribe(&gs::IdentTopic::new(topic_name(*topic)));
                }
                BOp::LocalUnsubscribe { topic } => {
                    let _ = node.b.unsubscribe(&gs::IdentTopic::new(topic_name(*topic)));
                }
                BOp::Heartbeat => {
                    verif_clock::advance(hb);
                    node.heartbeat();
                }
                BOp::Publish { topic } => {
                    let _ = node.b.publish(gs::IdentTopic::new(topic_name(*topic)), vec![step as u8; 4]);
                }
            }
            let _ = node.drain_events();
            Ok(())
        });
        match r {
            Ok(Ok(())) => {}
            Ok(Err(e)) => return Outcome::fail("C34:accepted-config-codec-refuses-minimal-rpc", e),
            Err(p) => {
                let unvalidated = inconsistent.as_ref().is_some_and(|(s, _)| s.ends_with(UNVALIDATED));
                let sig = match (matches!(op, BOp::Heartbeat), unvalidated) {
                    (true, false) => "C34:heartbeat-panic",
                    (true, true) => "C34:heartbeat-panic-with-unvalidated-topic-mesh-params",
                    (false, false) => "C34:behaviour-panic-outside-heartbeat",
                    (false, true) => "C34:behaviour-panic-outside-heartbeat-with-unvalidated-topic-mesh-params",
                };
                return Outcome::fail(
                    sig,
                    json!({"panic": p, "step": step, "op": format!("{op:?}"), "config_violation": inconsistent.as_ref().map(|(s, d)| json!({"signature": s, "detail": d})),
                           "peers": connected.len()}),
                );
            }
        }
        if matches!(op, BOp::Heartbeat) {
            heartbeats += 1;
        }
        max_mesh = max_mesh.max(node.mesh_snapshot().iter().map(|(_, p)| p.len()).max().unwrap_or(0));
    }
    // the builder half reports inconsistent accepted configs; here they only matter if they panic
    let mut labels = vec!["accepted"];
    if case.calls.iter().any(per_topic_call) {
        labels.push("per-topic-setter");
    }
    if max_mesh >= 2 {
        labels.push("mesh>=2");
    }
    if connected.len() >= 6 {
        labels.push("peers>=6");
    }
    if inconsistent.is_some() {
        labels.push("inconsistent-config-survived");
    }
    Outcome::pass_l(case.calls.iter().any(per_topic_call) && max_mesh >= 1 && heartbeats >= 3, labels)
}

pub fn run(ctx: &mut Ctx) {
    ctx.assume("configs are read back only through the public getters of Config; topics t0..t2 may receive per-topic settings, t3 never does");
    ctx.assume("heartbeats are run through the cfg(libp2p_verif) shim verif_pure::heartbeat (the same call poll() makes when the timer fires); the harness is built with overflow checks, so arithmetic underflow panics");
    ctx.check::<Case>(
        "builder",
        "<=12 ConfigBuilder calls (default and per-topic mesh_n/low/high/outbound_min setters, set_topic_config, history_length/gossip, max_transmit_size default/per-topic around 100) over values 0..8, then build(); accepted => inequalities hold for the default set and all of t0..t3; non-trivial = accepted and >=1 per-topic setter used",
        ctx.n(400_000, 10_000_000),
        &|| proptest::collection::vec(call(), 0..=12).prop_map(|calls| Case { calls }).boxed(),
        &check_builder,
    );
    ctx.check::<HCase>(
        "heartbeat",
        "a Behaviour from every accepted config, <=50 ops (connect up to 12 peers in/outbound, peer subscriptions and GRAFTs as real wire RPCs, local subscribe/unsubscribe, publish, heartbeat) plus three final heartbeats under catch_unwind; non-trivial = per-topic setter used, some mesh became non-empty, >=3 heartbeats",
        ctx.n(60_000, 1_500_000),
        &|| (proptest::collection::vec(call_mostly_ok(), 0..=5), proptest::collection::vec(bop(), 0..=50)).prop_map(|(calls, ops)| HCase { calls, ops }).boxed(),
        &check_heartbeat,
    );
}
