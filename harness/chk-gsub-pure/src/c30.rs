//! C30 — gossipsub accepts only messages valid for the validation mode.
//!
//! Messages are signed by a reference signer written in the harness (independent protobuf writer,
//! every key type of the pool) or by the real publish path (`build_raw_message`), mutated field by
//! field, put on the wire as one-message RPCs and decoded by the real `GossipsubCodec` obtained
//! from the real upgrade of a `Config` with the chosen `ValidationMode`.
use asynchronous_codec::Decoder;
use bytes::BytesMut;
use libp2p_gossipsub::{self as gs, verif_pure, RawMessage, TopicHash, ValidationMode};
use libp2p_identity::{Keypair, PeerId, PublicKey};
use proptest::prelude::*;
use serde::{Deserialize, Serialize};
use serde_json::json;
use vcore::{ensure, pick, Ctx, Outcome};

use crate::wire::{self, pb};

const TOPICS: &[&str] = &["alpha", "Beta", "gammaTopic", "d"];

#[derive(Clone, Copy, Debug, PartialEq, Eq, Serialize, Deserialize)]
pub enum Field {
    From,
    Data,
    Seqno,
    Topic,
    Signature,
    Key,
}

#[derive(Clone, Debug, Serialize, Deserialize)]
pub enum MutOp {
    /// XOR one byte
    Flip { pos: u16, x: u8 },
    /// field absent (topic: empty string, it is a required field)
    Drop,
    /// field present but empty
    Empty,
    /// take the field of another, independently signed message
    Swap,
    /// cut the value at pos (never to the same length)
    Truncate { pos: u16 },
    /// append one byte
    Append { b: u8 },
}

#[derive(Clone, Debug, Serialize, Deserialize)]
pub struct FieldMut {
    field: Field,
    op: MutOp,
}

#[derive(Clone, Debug, Serialize, Deserialize)]
pub enum Kind {
    /// signed by the harness's reference signer
    Signed,
    /// built and signed by the real publish path of a Behaviour
    RealPublish,
    /// no signature; which of from/seqno are present
    Unsigned { from: bool, seqno: bool },
    /// from = key A, signature (and key field) by key B
    Forged,
    /// no signature; `from` is arbitrary bytes (almost never a PeerId); seqno present or not
    UnsignedRawFrom { from: Vec<u8>, seqno: bool },
}

#[derive(Clone, Debug, Serialize, Deserialize)]
pub struct Case {
    key: u16,
    other_key: u16,
    topic: u8,
    data: Vec<u8>,
    seqno: u64,
    kind: Kind,
    muts: Vec<FieldMut>,
    /// 0 Strict, 1 Permissive, 2 Anonymous, 3 None
    mode: u8,
}

fn field() -> impl Strategy<Value = Field> {
    prop_oneof![Just(Field::From), Just(Field::Data), Just(Field::Seqno), Just(Field::Topic), Just(Field::Signature), Just(Field::Key)]
}

fn mutop() -> impl Strategy<Value = MutOp> {
    prop_oneof![
        4 => (any::<u16>(), 1u8..=255).prop_map(|(pos, x)| MutOp::Flip { pos, x }),
        2 => Just(MutOp::Drop),
        2 => Just(MutOp::Empty),
        2 => Just(MutOp::Swap),
        1 => any::<u16>().prop_map(|pos| MutOp::Truncate { pos }),
        1 => any::<u8>().prop_map(|b| MutOp::Append { b }),
    ]
}

fn strategy() -> impl Strategy<Value = Case> {
    let kind = prop_oneof![
        6 => Just(Kind::Signed),
        2 => Just(Kind::RealPublish),
        2 => (any::<bool>(), any::<bool>()).prop_map(|(from, seqno)| Kind::Unsigned { from, seqno }),
        2 => Just(Kind::Forged),
        1 => (proptest::collection::vec(any::<u8>(), 1..40), any::<bool>()).prop_map(|(from, seqno)| Kind::UnsignedRawFrom { from, seqno }),
    ];
    let muts = prop_oneof![
        2 => Just(vec![]),
        6 => (field(), mutop()).prop_map(|(field, op)| vec![FieldMut { field, op }]),
        1 => proptest::collection::vec((field(), mutop()).prop_map(|(field, op)| FieldMut { field, op }), 2..=3),
    ];
    (any::<u16>(), any::<u16>(), 0u8..TOPICS.len() as u8, proptest::collection::vec(any::<u8>(), 0..24), any::<u64>(), kind, muts, 0u8..4)
        .prop_map(|(key, other_key, topic, data, seqno, kind, muts, mode)| Case { key, other_key, topic, data, seqno, kind, muts, mode })
}

fn mode_of(m: u8) -> ValidationMode {
    match m {
        0 => ValidationMode::Strict,
        1 => ValidationMode::Permissive,
        2 => ValidationMode::Anonymous,
        _ => ValidationMode::None,
    }
}

/// key field as the publishing side sets it: only when the key is not inlined in the peer id
fn key_field(k: &Keypair) -> Option<Vec<u8>> {
    let enc = k.public().encode_protobuf();
    let inlined = k.public().to_peer_id().to_bytes()[0] == 0x00;
    if inlined {
        None
    } else {
        Some(enc)
    }
}

/// reference signer
fn sign(k: &Keypair, from: &PeerId, data: &[u8], seqno: u64, topic: &str) -> pb::Message {
    let from_b = from.to_bytes();
    let seq_b = seqno.to_be_bytes().to_vec();
    let to_sign = wire::signing_bytes(Some(&from_b), Some(data), Some(&seq_b), topic);
    let sig = k.sign(&to_sign).expect("signing with a pool key");
    pb::Message { from: Some(from_b), data: Some(data.to_vec()), seqno: Some(seq_b), topic: topic.to_string(), signature: Some(sig), key: key_field(k) }
}

/// The statement's Strict predicate, evaluated by the harness: the message carries a source and
/// a signature that verifies, under a key belonging to that source (from the `key` field or
/// inlined in the peer id), over exactly from/data/seqno/topic.
fn authentic(m: &pb::Message) -> bool {
    let Some(from) = m.from.as_ref() else { return false };
    let Ok(source) = PeerId::from_bytes(from) else { return false };
    let Some(sig) = m.signature.as_ref() else { return false };
    let mut candidates: Vec<PublicKey> = vec![];
    if let Some(k) = m.key.as_ref() {
        if let Ok(pk) = PublicKey::try_decode_protobuf(k) {
            candidates.push(pk);
        }
    }
    let sb = source.to_bytes();
    if sb[0] == 0x00 && sb.len() > 2 {
        if let Ok(pk) = PublicKey::try_decode_protobuf(&sb[2..]) {
            candidates.push(pk);
        }
    }
    let to_verify = wire::signing_bytes(m.from.as_deref(), m.data.as_deref(), m.seqno.as_deref(), &m.topic);
    candidates.iter().any(|pk| pk.to_peer_id() == source && pk.verify(&to_verify, sig))
}

/// Authentic *and* nothing questionable about the key field (absent, or exactly the source's key):
/// used only for the "must be accepted" direction.
fn authentic_and_clean_key(m: &pb::Message) -> bool {
    let key_clean = match (m.key.as_ref(), m.from.as_ref().and_then(|f| PeerId::from_bytes(f).ok())) {
        (None, _) => true,
        (Some(k), Some(src)) => PublicKey::try_decode_protobuf(k).is_ok_and(|pk| pk.to_peer_id() == src),
        (Some(_), None) => false,
    };
    key_clean && authentic(m)
}

fn mutate_bytes(v: &Option<Vec<u8>>, other: &Option<Vec<u8>>, op: &MutOp) -> Option<Vec<u8>> {
    match op {
        MutOp::Drop => None,
        MutOp::Empty => Some(vec![]),
        MutOp::Swap => other.clone(),
        MutOp::Flip { pos, x } => match v {
            Some(b) if !b.is_empty() => {
                let mut b = b.clone();
                let i = pick(*pos, b.len());
                b[i] ^= *x;
                Some(b)
            }
            other_v => other_v.clone(),
        },
        MutOp::Truncate { pos } => match v {
            Some(b) if !b.is_empty() => Some(b[..pick(*pos, b.len())].to_vec()),
            other_v => other_v.clone(),
        },
        MutOp::Append { b } => {
            let mut w = v.clone().unwrap_or_default();
            w.push(*b);
            Some(w)
        }
    }
}

fn mutate_topic(t: &str, other: &str, op: &MutOp) -> String {
    match op {
        MutOp::Drop | MutOp::Empty => String::new(),
        MutOp::Swap => other.to_string(),
        MutOp::Flip { pos, x } => {
            // stay inside ASCII letters/punctuation 0x40..0x7f so the string stays valid UTF-8
            let mut b = t.as_bytes().to_vec();
            if b.is_empty() {
                return t.to_string();
            }
            let i = pick(*pos, b.len());
            b[i] ^= (*x & 0x1f) | 1;
            String::from_utf8(b).unwrap_or_else(|_| t.to_string())
        }
        MutOp::Truncate { pos } => t[..pick(*pos, t.len().max(1)).min(t.len())].to_string(),
        MutOp::Append { b } => format!("{t}{}", (b'a' + (*b % 26)) as char),
    }
}

fn apply(m: &pb::Message, other: &pb::Message, fm: &FieldMut) -> pb::Message {
    let mut r = m.clone();
    match fm.field {
        Field::From => r.from = mutate_bytes(&m.from, &other.from, &fm.op),
        Field::Data => r.data = mutate_bytes(&m.data, &other.data, &fm.op),
        Field::Seqno => r.seqno = mutate_bytes(&m.seqno, &other.seqno, &fm.op),
        Field::Topic => r.topic = mutate_topic(&m.topic, &other.topic, &fm.op),
        Field::Signature => r.signature = mutate_bytes(&m.signature, &other.signature, &fm.op),
        Field::Key => {
            // "another message's key" for an inlined-key peer is its public key protobuf
            r.key = mutate_bytes(&m.key, &other.key, &fm.op)
        }
    }
    r
}

fn raw_fidelity(raw: &RawMessage, m: &pb::Message) -> Result<(), String> {
    if raw.data != m.data.clone().unwrap_or_default() {
        return Err("data".into());
    }
    if raw.topic != TopicHash::from_raw(m.topic.clone()) {
        return Err("topic".into());
    }
    if raw.signature != m.signature {
        return Err("signature".into());
    }
    if raw.key != m.key {
        return Err("key".into());
    }
    if let Some(src) = raw.source {
        if Some(src.to_bytes()) != m.from {
            return Err("source".into());
        }
    }
    if let Some(n) = raw.sequence_number {
        if m.seqno.as_deref() != Some(&n.to_be_bytes()[..]) {
            return Err("sequence_number".into());
        }
    }
    Ok(())
}

fn check(case: &Case) -> Outcome {
    let pool = vcore::gen::keys().all();
    let ki = pick(case.key, pool.len());
    let key = pool[ki];
    // a different key for the second message / the forger
    let oi = (ki + 1 + pick(case.other_key, pool.len() - 1)) % pool.len();
    let other_key = pool[oi];
    let me = key.public().to_peer_id();
    let topic = TOPICS[case.topic as usize % TOPICS.len()];
    let other_topic = TOPICS[(case.topic as usize + 1) % TOPICS.len()];

    let cfg = match gs::ConfigBuilder::default().validation_mode(mode_of(case.mode)).build() {
        Ok(c) => c,
        Err(e) => return Outcome::fail("C30:config", e.to_string()),
    };

    let original: pb::Message = match &case.kind {
        Kind::Signed => sign(key, &me, &case.data, case.seqno, topic),
        Kind::RealPublish => {
            let strict = match gs::ConfigBuilder::default().build() {
                Ok(c) => c,
                Err(e) => return Outcome::fail("C30:config", e.to_string()),
            };
            let mut b: gs::Behaviour = match gs::Behaviour::new(gs::MessageAuthenticity::Signed(key.clone()), strict) {
                Ok(b) => b,
                Err(e) => return Outcome::fail("C30:behaviour-new", e),
            };
            let raw = match verif_pure::build_raw_message(&mut b, TopicHash::from_raw(topic), case.data.clone()) {
                Ok(r) => r,
                Err(e) => return Outcome::fail("C30:build-raw-message", e.to_string()),
            };
            let m = pb::Message {
                from: raw.source.map(|p| p.to_bytes()),
                data: Some(raw.data.clone()),
                seqno: raw.sequence_number.map(|n| n.to_be_bytes().to_vec()),
                topic: topic.to_string(),
                signature: raw.signature.clone(),
                key: raw.key.clone(),
            };
            // cross-check of the reference signer's byte layout against the real signer
            ensure!(authentic(&m), "C30:real-publish-not-authentic-for-reference", json!({"key_index": ki}));
            m
        }
        Kind::Unsigned { from, seqno } => pb::Message {
            from: from.then(|| me.to_bytes()),
            data: Some(case.data.clone()),
            seqno: seqno.then(|| case.seqno.to_be_bytes().to_vec()),
            topic: topic.to_string(),
            signature: None,
            key: None,
        },
        Kind::UnsignedRawFrom { from, seqno } => pb::Message {
            from: Some(from.clone()),
            data: Some(case.data.clone()),
            seqno: seqno.then(|| case.seqno.to_be_bytes().to_vec()),
            topic: topic.to_string(),
            signature: None,
            key: None,
        },
        Kind::Forged => {
            // B signs a message that claims to come from A and ships B's key
            let mut m = sign(other_key, &me, &case.data, case.seqno, topic);
            m.key = Some(other_key.public().encode_protobuf());
            m
        }
    };
    let mut other = sign(other_key, &other_key.public().to_peer_id(), &[case.data.clone(), vec![0x5a]].concat(), case.seqno ^ 0x0101, other_topic);
    if other.key.is_none() {
        other.key = Some(other_key.public().encode_protobuf());
    }

    let mut m = original.clone();
    for fm in &case.muts {
        m = apply(&m, &other, fm);
    }
    let changed: Vec<Field> = [
        (Field::From, m.from != original.from),
        (Field::Data, m.data != original.data),
        (Field::Seqno, m.seqno != original.seqno),
        (Field::Topic, m.topic != original.topic),
        (Field::Signature, m.signature != original.signature),
        (Field::Key, m.key != original.key),
    ]
    .into_iter()
    .filter(|(_, c)| *c)
    .map(|(f, _)| f)
    .collect();
    let signed_kind = matches!(case.kind, Kind::Signed | Kind::RealPublish);
    let content_changed = changed.iter().any(|f| matches!(f, Field::From | Field::Data | Field::Seqno | Field::Topic));

    // wire → real codec
    let rpc = pb::Rpc { subscriptions: vec![], publish: vec![m.clone()], control: None, partial: None };
    let mut codec = verif_pure::codec_for(&cfg);
    let mut buf = BytesMut::from(&wire::frame(&rpc)[..]);
    let ev = match codec.decode(&mut buf) {
        Ok(Some(ev)) => ev,
        Ok(None) => return Outcome::fail("C30:complete-frame-not-decoded", json!({"len": wire::enc(&rpc).len()})),
        Err(e) => return Outcome::fail("C30:codec-error-on-wellformed-rpc", e.to_string()),
    };
    let Some(sum) = verif_pure::summarize(&ev) else { return Outcome::fail("C30:not-a-message-event", "") };
    ensure!(sum.messages.len() + sum.invalid.len() == 1, "C30:message-not-in-exactly-one-list", json!({"valid": sum.messages.len(), "invalid": sum.invalid.len()}));
    let valid = sum.messages.len() == 1;
    let detail = || {
        json!({"mode": case.mode, "kind": format!("{:?}", case.kind), "changed": format!("{changed:?}"), "key_index": ki,
               "from": m.from.as_ref().map(|b| b.len()), "seqno": m.seqno.clone(), "sig_len": m.signature.as_ref().map(|s| s.len()),
               "key_len": m.key.as_ref().map(|s| s.len()), "topic": m.topic, "valid": valid,
               "invalid_reason": sum.invalid.first().map(|(_, e)| format!("{e:?}"))})
    };
    if valid {
        if let Err(f) = raw_fidelity(&sum.messages[0], &m) {
            return Outcome::fail(format!("C30:surfaced-{f}-differs-from-wire"), detail());
        }
    }

    let auth = authentic(&m);
    let from_ok = |strictly_present: bool| match m.from.as_ref() {
        None => !strictly_present,
        Some(b) if b.is_empty() => !strictly_present,
        Some(b) => PeerId::from_bytes(b).is_ok(),
    };
    let mut labels: Vec<&'static str> = vec![];
    match case.mode {
        0 => {
            labels.push("strict");
            if valid {
                ensure!(auth, "C30:strict-accepted-unauthentic", detail());
                ensure!(sum.messages[0].source.is_some() && sum.messages[0].signature.is_some(), "C30:strict-valid-without-source-or-signature", detail());
            }
            // second sentence of the statement: mutations of a signed message
            let sig_or_key_broke = changed.iter().any(|f| matches!(f, Field::Signature | Field::Key)) && !auth;
            let must_be_invalid = (signed_kind && (content_changed || sig_or_key_broke)) || matches!(case.kind, Kind::Forged | Kind::Unsigned { .. } | Kind::UnsignedRawFrom { .. });
            if must_be_invalid {
                ensure!(!valid, "C30:strict-accepted-mutated-or-unsigned", detail());
            }
            if signed_kind && changed.is_empty() {
                ensure!(valid, "C30:strict-rejected-authentic", detail());
            }
            if signed_kind && !changed.is_empty() && auth {
                labels.push("mutation-kept-authenticity");
            }
        }
        1 => {
            labels.push("permissive");
            let sig_ok = m.signature.is_none() || auth;
            let seq_ok = match m.seqno.as_ref() {
                None => true,
                Some(s) => s.is_empty() || s.len() == 8,
            };
            let src_ok = from_ok(false);
            if valid {
                ensure!(sig_ok, "C30:permissive-accepted-bad-signature", detail());
                ensure!(seq_ok, "C30:permissive-accepted-bad-seqno", detail());
                ensure!(src_ok, "C30:permissive-accepted-bad-source", detail());
            } else {
                let sig_clean = m.signature.is_none() || authentic_and_clean_key(&m);
                ensure!(!(sig_clean && seq_ok && src_ok), "C30:permissive-rejected-valid-fields", detail());
            }
        }
        2 => {
            labels.push("anonymous");
            let bare = m.from.is_none() && m.seqno.is_none() && m.signature.is_none();
            if valid {
                ensure!(bare, "C30:anonymous-accepted-identifying-field", detail());
            } else {
                ensure!(!bare, "C30:anonymous-rejected-bare-message", detail());
            }
        }
        _ => {
            labels.push("none");
            ensure!(valid, "C30:mode-none-rejected", detail());
        }
    }
    labels.push(if valid { "valid" } else { "invalid" });
    labels.push(match case.kind {
        Kind::Signed => "k:signed",
        Kind::RealPublish => "k:real-publish",
        Kind::Unsigned { .. } => "k:unsigned",
        Kind::Forged => "k:forged",
        Kind::UnsignedRawFrom { .. } => "k:unsigned-raw-from",
    });
    // classes of adversarial shapes (measured, not asserted): a foreign key shipped in the key field
    // with a signature that verifies under it; a source without a sequence number
    let key_is_foreign = match (m.key.as_ref().and_then(|k| PublicKey::try_decode_protobuf(k).ok()), m.from.as_ref().and_then(|f| PeerId::from_bytes(f).ok())) {
        (Some(pk), Some(src)) => pk.to_peer_id() != src && m.signature.as_ref().is_some_and(|sig| pk.verify(&wire::signing_bytes(m.from.as_deref(), m.data.as_deref(), m.seqno.as_deref(), &m.topic), sig)),
        _ => false,
    };
    if key_is_foreign {
        labels.push(match case.mode {
            0 => "strict:verifies-under-foreign-key-in-key-field",
            1 => "permissive:verifies-under-foreign-key-in-key-field",
            _ => "other-mode:verifies-under-foreign-key-in-key-field",
        });
    }
    if m.from.as_ref().is_some_and(|f| !f.is_empty()) && m.seqno.is_none() {
        labels.push("from-without-seqno");
        if case.mode == 1 && m.signature.is_none() && !from_ok(false) {
            labels.push("permissive:unsigned-malformed-from-without-seqno");
        }
    }
    labels.push(match ki {
        0..=3 => "key:ed25519",
        4..=6 => "key:secp256k1",
        7..=9 => "key:ecdsa",
        _ => "key:rsa",
    });
    for f in &changed {
        labels.push(match f {
            Field::From => "mut:from",
            Field::Data => "mut:data",
            Field::Seqno => "mut:seqno",
            Field::Topic => "mut:topic",
            Field::Signature => "mut:signature",
            Field::Key => "mut:key",
        });
    }
    Outcome::pass_l(changed.len() == 1, labels)
}

pub fn run(ctx: &mut Ctx) {
    ctx.assume("libp2p-identity sign/verify and PeerId derivation are trusted (they are the oracle's crypto); the reference signer's byte layout is cross-checked against the real publish path");
    ctx.assume("the codec is the one the real InboundUpgrade builds for a Config with the chosen ValidationMode (hook verif_pure::codec_for); one published message per RPC");
    ctx.assume("a mutation of signature/key that leaves the message authentic under the statement's own predicate (e.g. an undecodable key field next to an inlined key) is classified, not asserted");
    ctx.check::<Case>(
        "modes",
        "a message (reference-signed with ed25519/secp256k1/ecdsa/rsa, real-publish-signed, unsigned with/without from and seqno, unsigned with arbitrary from bytes, or re-signed by another key that is shipped in the key field) with 0..3 field mutations (flip/drop/empty/swap/truncate/append on from/data/seqno/topic/signature/key) decoded under Strict/Permissive/Anonymous/None; non-trivial = exactly one field effectively changed",
        ctx.n(60_000, 1_500_000),
        &|| strategy().boxed(),
        &check,
    );
}
