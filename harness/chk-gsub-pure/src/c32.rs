//! C32 — gossipsub backoff is never shortened.
//!
//! Sub-check `storage`: the real `BackoffStorage` (hook wrapper) under the virtual clock against a
//! model that keeps the maximum granted expiry per (topic, peer).
//! Sub-check `behaviour`: a real `Behaviour` whose mesh peer PRUNEs it with a backoff; until the
//! backoff has elapsed heartbeats must not re-graft the peer, its GRAFTs must be refused and
//! penalised; after expiry + slack and a full ring of heartbeats the peer is grafted again.
use libp2p_core::verif_clock;
use libp2p_gossipsub::{self as gs, verif_pure, TopicHash};
use libp2p_identity::PeerId;
use proptest::prelude::*;
use serde::{Deserialize, Serialize};
use serde_json::json;
use std::collections::BTreeMap;
use std::time::Duration;
use vcore::{ensure, Ctx, Outcome};

use crate::drv::{self, Fed, Node};
use crate::wire;

// ---------------------------------------------------------------------------------------------
// storage

#[derive(Clone, Debug, Serialize, Deserialize)]
pub enum Op {
    Update { topic: u8, peer: u8, ms: u32 },
    /// advance by one heartbeat interval, then heartbeat (the normal rhythm)
    Tick,
    /// heartbeat without time passing
    Heartbeat,
    Advance { ms: u32 },
}

#[derive(Clone, Debug, Serialize, Deserialize)]
pub struct Case {
    prune_backoff_s: u8,
    slack: u8,
    /// heartbeat interval in ms
    hb_ms: u16,
    ops: Vec<Op>,
}

fn op(prune_ms: u32) -> impl Strategy<Value = Op> {
    let dur = prop_oneof![
        3 => 1u32..=prune_ms,
        3 => prune_ms..=prune_ms * 5,
        1 => Just(prune_ms),
        1 => Just(0u32),
    ];
    prop_oneof![
        4 => (0u8..2, 0u8..3, dur).prop_map(|(topic, peer, ms)| Op::Update { topic, peer, ms }),
        8 => Just(Op::Tick),
        1 => Just(Op::Heartbeat),
        3 => prop_oneof![0u32..=3000, 0u32..=30_000].prop_map(|ms| Op::Advance { ms }),
        // a fraction of an interval passes (PRUNEs crossing on the wire, a GRAFT answered with a second
        // PRUNE): the next update of the same pair is later but usually lands in the same wheel slot
        2 => (1u32..=400).prop_map(|ms| Op::Advance { ms }),
        // the node's own prune_backoff again (what make_prune / handle_prune record by default)
        2 => (0u8..2, 0u8..3).prop_map(move |(topic, peer)| Op::Update { topic, peer, ms: prune_ms }),
    ]
}

fn strategy(max_ops: usize) -> impl Strategy<Value = Case> {
    (prop_oneof![3 => 1u8..=20, 1 => 1u8..=2], prop_oneof![4 => 0u8..=3, 1 => 3u8..=5], prop_oneof![4 => Just(1000u16), 1 => Just(700u16), 1 => Just(1500u16)]).prop_flat_map(move |(prune_backoff_s, slack, hb_ms)| {
        proptest::collection::vec(op(prune_backoff_s as u32 * 1000), 1..=max_ops).prop_map(move |ops| Case { prune_backoff_s, slack, hb_ms, ops })
    })
}

#[derive(Clone, Copy, Debug)]
struct Granted {
    /// maximum expiry granted so far (ms since start)
    expiry: u64,
    /// heartbeats executed at a time strictly after expiry + slack*interval
    late_heartbeats: usize,
}

fn check(case: &Case) -> Outcome {
    verif_clock::set(Duration::ZERO);
    let hb = Duration::from_millis(case.hb_ms as u64);
    let prune = Duration::from_secs(case.prune_backoff_s as u64);
    let mut sut = verif_pure::Backoff::new(prune, hb, case.slack as u32);
    // ring size as documented in `BackoffStorage::new`: ceil(prune_backoff / interval) + slack + 1
    let ring = (prune.as_millis() as u64).div_ceil(case.hb_ms as u64) as usize + case.slack as usize + 1;
    let slack_ms = case.hb_ms as u64 * case.slack as u64;
    let topics = [TopicHash::from_raw("t0"), TopicHash::from_raw("t1")];
    let peers: Vec<PeerId> = (0..3).map(vcore::gen::peer).collect();
    let mut model: BTreeMap<(u8, u8), Granted> = BTreeMap::new();
    let now_ms = || verif_clock::since_start().as_millis() as u64;
    let mut long_then_ring = false;
    let mut long_update_at_hb: Option<usize> = None;
    let mut heartbeats = 0usize;
    let mut forgotten = 0usize;
    let mut checked_active = 0usize;
    // label-only model of the wheel (never used by the oracle): slot the pair was last filed under
    let mut slot_of: BTreeMap<(u8, u8), usize> = BTreeMap::new();
    let hb_count = |ms: u32| (ms as u64).div_ceil(case.hb_ms as u64) as usize;
    let mut refiled_same_slot = false;
    let mut wrapped_update = false;
    let mut visited_before_expiry = false;
    let mut visited_inside_slack_window_before_expiry = false;

    for (step, op) in case.ops.iter().enumerate() {
        match op {
            Op::Update { topic, peer, ms } => {
                let pair = (*topic % 2, *peer % 3);
                let before = sut.get_backoff_time(&topics[pair.0 as usize], &peers[pair.1 as usize]).map(|i| i.verif_since_start().as_millis() as u64);
                let takes_effect = before.is_none_or(|b| b < now_ms() + *ms as u64);
                if takes_effect {
                    let slot = (heartbeats + hb_count(*ms) + case.slack as usize) % ring;
                    if before.is_some() && slot_of.get(&pair) == Some(&slot) {
                        refiled_same_slot = true;
                    }
                    if hb_count(*ms) + case.slack as usize >= ring {
                        wrapped_update = true;
                    }
                    slot_of.insert(pair, slot);
                }
                sut.update_backoff(&topics[*topic as usize % 2], &peers[*peer as usize % 3], Duration::from_millis(*ms as u64));
                let e = now_ms() + *ms as u64;
                let g = model.entry((*topic % 2, *peer % 3)).or_insert(Granted { expiry: e, late_heartbeats: 0 });
                if e >= g.expiry {
                    g.expiry = e;
                    g.late_heartbeats = 0;
                }
                if *ms as u64 > prune.as_millis() as u64 {
                    long_update_at_hb = Some(heartbeats);
                }
            }
            Op::Tick | Op::Heartbeat => {
                if matches!(op, Op::Tick) {
                    verif_clock::advance(hb);
                }
                {
                    let now = now_ms();
                    for (pair, slot) in &slot_of {
                        if *slot == heartbeats % ring {
                            if let Some(g) = model.get(pair) {
                                if now < g.expiry {
                                    visited_before_expiry = true;
                                    if g.expiry - now <= slack_ms {
                                        visited_inside_slack_window_before_expiry = true;
                                    }
                                }
                            }
                        }
                    }
                }
                sut.heartbeat();
                heartbeats += 1;
                let now = now_ms();
                for g in model.values_mut() {
                    if now > g.expiry + slack_ms {
                        g.late_heartbeats += 1;
                    }
                }
                if let Some(at) = long_update_at_hb {
                    if heartbeats - at >= ring {
                        long_then_ring = true;
                    }
                }
            }
            Op::Advance { ms } => verif_clock::advance(Duration::from_millis(*ms as u64)),
        }
        // oracle after every op, for every pair ever backed off
        let now = now_ms();
        for ((t, p), g) in &model {
            let th = &topics[*t as usize];
            let pid = &peers[*p as usize];
            let is = sut.is_backoff_with_slack(th, pid);
            let time = sut.get_backoff_time(th, pid).map(|i| i.verif_since_start().as_millis() as u64);
            let detail = || json!({"step": step, "op": format!("{op:?}"), "topic": t, "peer": p, "now_ms": now, "granted_expiry_ms": g.expiry, "is_backoff_with_slack": is, "get_backoff_time_ms": time, "ring": ring, "late_heartbeats": g.late_heartbeats});
            if now < g.expiry {
                checked_active += 1;
                ensure!(is, "C32:backoff-forgotten-before-expiry", detail());
                ensure!(time.is_some_and(|x| x >= g.expiry), "C32:backoff-time-shortened", detail());
            } else if g.late_heartbeats >= ring {
                ensure!(!is && time.is_none(), "C32:backoff-not-forgotten-after-expiry-slack-and-full-ring", detail());
                forgotten += 1;
            }
        }
    }
    let mut labels = vec![];
    if long_then_ring {
        labels.push("long-update-then-full-ring");
    }
    if forgotten > 0 {
        labels.push("forget-checked");
    }
    if checked_active > 0 {
        labels.push("active-checked");
    }
    if refiled_same_slot {
        labels.push("later-update-refiled-under-the-same-wheel-slot");
        if forgotten > 0 {
            labels.push("same-slot-refile-and-forget-checked");
        }
    }
    if wrapped_update {
        labels.push("update-wraps-around-the-wheel");
    }
    if visited_before_expiry {
        labels.push("slot-visited-by-heartbeat-before-expiry");
    }
    if visited_inside_slack_window_before_expiry {
        labels.push("slot-visited-within-slack-before-expiry");
    }
    Outcome::pass_l(long_then_ring && checked_active > 0, labels)
}

// ---------------------------------------------------------------------------------------------
// behaviour

#[derive(Clone, Debug, Serialize, Deserialize)]
pub enum BOp {
    /// peer sends PRUNE(topic, backoff seconds or none)
    Prune { secs: Option<u16> },
    /// peer sends GRAFT(topic)
    Graft,
    Tick,
    /// n ticks in a row (lets backoffs run out)
    Ticks { n: u8 },
    Advance { ms: u32 },
    /// peer re-announces its subscription (subscription path also consults the backoff)
    Resubscribe,
}

#[derive(Clone, Debug, Serialize, Deserialize)]
pub struct BCase {
    prune_backoff_s: u8,
    slack: u8,
    outbound: bool,
    scoring: bool,
    ops: Vec<BOp>,
}

fn bstrategy() -> impl Strategy<Value = BCase> {
    (2u8..=12, 0u8..=2, any::<bool>(), any::<bool>()).prop_flat_map(|(prune_backoff_s, slack, outbound, scoring)| {
        let p = prune_backoff_s as u16;
        let bop = prop_oneof![
            3 => prop_oneof![Just(None), (1u16..=p * 4).prop_map(Some)].prop_map(|secs| BOp::Prune { secs }),
            3 => Just(BOp::Graft),
            8 => Just(BOp::Tick),
            3 => (2u8..=40).prop_map(|n| BOp::Ticks { n }),
            2 => (0u32..=2500).prop_map(|ms| BOp::Advance { ms }),
            1 => Just(BOp::Resubscribe),
        ];
        proptest::collection::vec(bop, 1..=60).prop_map(move |ops| BCase { prune_backoff_s, slack, outbound, scoring, ops })
    })
}

fn bcheck(case: &BCase) -> Outcome {
    verif_clock::set(Duration::ZERO);
    const T: &str = "topic";
    let hb_ms = 1000u64;
    let cfg = match drv::quiet_builder()
        .prune_backoff(Duration::from_secs(case.prune_backoff_s as u64))
        .backoff_slack(case.slack as u32)
        .heartbeat_interval(Duration::from_millis(hb_ms))
        // one mesh slot that only our peer can fill
        .mesh_outbound_min(0)
        .mesh_n_low(1)
        .mesh_n(1)
        .mesh_n_high(2)
        .graft_flood_threshold(Duration::from_millis(500))
        .build()
    {
        Ok(c) => c,
        Err(e) => return Outcome::fail("C32:config-rejected", e.to_string()),
    };
    let mut node = match Node::new(cfg, gs::AllowAllSubscriptionFilter {}) {
        Ok(n) => n,
        Err(e) => return Outcome::fail("C32:behaviour-new", e),
    };
    if case.scoring {
        let params = gs::PeerScoreParams { behaviour_penalty_weight: -1.0, behaviour_penalty_threshold: 0.0, behaviour_penalty_decay: 0.999, decay_interval: Duration::from_secs(3600), ..Default::default() };
        // thresholds far below anything reachable: a graylisted peer's RPCs would be dropped unprocessed
        let thresholds = gs::PeerScoreThresholds { gossip_threshold: -1e9, publish_threshold: -2e9, graylist_threshold: -3e9, ..Default::default() };
        if let Err(e) = node.b.with_peer_score(params, thresholds) {
            return Outcome::fail("C32:peer-score-params", e);
        }
    }
    let topic = gs::IdentTopic::new(T);
    if let Err(e) = node.b.subscribe(&topic) {
        return Outcome::fail("C32:subscribe", format!("{e:?}"));
    }
    let peer = vcore::gen::peer(1);
    node.connect(peer, case.outbound, 3);
    let feed = |node: &mut Node<gs::AllowAllSubscriptionFilter>, rpc| -> Result<(), Outcome> {
        match node.feed(&peer, &rpc) {
            Fed::Delivered => Ok(()),
            Fed::CodecError(e) => Err(Outcome::fail("C32:codec-error", e)),
            Fed::Incomplete => Err(Outcome::fail("C32:codec-incomplete", "")),
        }
    };
    if let Err(o) = feed(&mut node, wire::subs_rpc(&[(true, T.to_string())])) {
        return o;
    }
    ensure!(node.mesh(T).contains(&peer), "C32:setup-peer-not-grafted-on-subscription", json!({}));

    let ring = (case.prune_backoff_s as u64 * 1000).div_ceil(hb_ms) as usize + case.slack as usize + 1;
    let slack_ms = hb_ms * case.slack as u64;
    let now_ms = || verif_clock::since_start().as_millis() as u64;
    // model: maximum expiry this node granted / was told for (T, peer); None = never backed off
    let mut expiry: Option<u64> = None;
    let mut late_heartbeats = 0usize;
    let mut refused_grafts = 0usize;
    let mut regrafted_after_forget = 0usize;
    let mut long_backoff = false;
    let mut regrafted_by_heartbeat_after_expiry = 0usize;
    let mut forget_bound_evaluated = 0usize;

    let steps: Vec<BOp> = case.ops.iter().flat_map(|op| match op {
        BOp::Ticks { n } => vec![BOp::Tick; *n as usize],
        other => vec![other.clone()],
    }).collect();
    for (step, op) in steps.iter().enumerate() {
        let in_mesh_before = node.mesh(T).contains(&peer);
        let score_before = node.b.peer_score(&peer);
        match op {
            BOp::Prune { secs } => {
                if let Err(o) = feed(&mut node, wire::prune_rpc(T, secs.map(|s| s as u64))) {
                    return o;
                }
                // handle_prune always records a backoff (the peer's value, else prune_backoff)
                let d = secs.map(|s| s as u64).unwrap_or(case.prune_backoff_s as u64) * 1000;
                if secs.is_some_and(|s| s as u64 > case.prune_backoff_s as u64) {
                    long_backoff = true;
                }
                let e = now_ms() + d;
                if expiry.is_none_or(|x| e >= x) {
                    expiry = Some(e);
                    late_heartbeats = 0;
                }
                ensure!(!node.mesh(T).contains(&peer), "C32:pruned-peer-still-in-mesh", json!({"step": step}));
            }
            BOp::Graft => {
                if let Err(o) = feed(&mut node, wire::graft_rpc(&[T.to_string()])) {
                    return o;
                }
            }
            BOp::Resubscribe => {
                if let Err(o) = feed(&mut node, wire::subs_rpc(&[(true, T.to_string())])) {
                    return o;
                }
            }
            BOp::Ticks { .. } => unreachable!("expanded above"),
            BOp::Tick => {
                verif_clock::advance(Duration::from_millis(hb_ms));
                node.heartbeat();
                if let Some(e) = expiry {
                    if now_ms() > e + slack_ms {
                        late_heartbeats += 1;
                    }
                }
            }
            BOp::Advance { ms } => verif_clock::advance(Duration::from_millis(*ms as u64)),
        }
        let _ = node.drain_events();
        let in_mesh = node.mesh(T).contains(&peer);
        let now = now_ms();
        let detail = || json!({"step": step, "op": format!("{op:?}"), "now_ms": now, "expiry_ms": expiry, "in_mesh_before": in_mesh_before, "in_mesh": in_mesh, "score_before": score_before, "score": node.b.peer_score(&peer), "ring": ring, "late_heartbeats": late_heartbeats});
        if let Some(e) = expiry {
            if now < e {
                // backed off: nothing may put the peer (back) into the mesh
                if !in_mesh_before {
                    ensure!(!in_mesh, match op {
                        BOp::Graft => "C32:graft-accepted-during-backoff",
                        BOp::Tick => "C32:heartbeat-grafted-backed-off-peer",
                        BOp::Resubscribe => "C32:subscription-grafted-backed-off-peer",
                        _ => "C32:backed-off-peer-entered-mesh",
                    }, detail());
                }
                if matches!(op, BOp::Graft) && !in_mesh_before {
                    refused_grafts += 1;
                    if case.scoring {
                        let (b, a) = (score_before.unwrap_or(0.0), node.b.peer_score(&peer).unwrap_or(0.0));
                        ensure!(a < b, "C32:graft-during-backoff-not-penalised", detail());
                    }
                }
            } else if matches!(op, BOp::Tick) && !in_mesh_before && in_mesh && late_heartbeats < ring {
                // the usual way back: the first heartbeat that finds the backoff forgotten grafts the peer
                regrafted_by_heartbeat_after_expiry += 1;
            } else if late_heartbeats >= ring && matches!(op, BOp::Tick) && !in_mesh_before {
                forget_bound_evaluated += 1;
                // forgotten: the mesh is below mesh_n_low and the peer is the only candidate
                // (only assert when scoring cannot veto the graft)
                if !case.scoring {
                    ensure!(in_mesh, "C32:peer-never-regrafted-after-backoff-expired", detail());
                }
                if in_mesh {
                    regrafted_after_forget += 1;
                }
            }
        }
        if matches!(op, BOp::Graft) && !in_mesh_before && !in_mesh {
            // a refused GRAFT is answered with PRUNE(backoff = prune_backoff): that is a new grant
            let e = now + case.prune_backoff_s as u64 * 1000;
            if expiry.is_none_or(|x| e >= x) {
                expiry = Some(e);
                late_heartbeats = 0;
            }
        }
    }
    let mut labels = vec![];
    if refused_grafts > 0 {
        labels.push("graft-refused-during-backoff");
    }
    if regrafted_after_forget > 0 {
        labels.push("regrafted-after-forget");
    }
    if regrafted_by_heartbeat_after_expiry > 0 {
        labels.push("regrafted-by-heartbeat-after-expiry-before-the-bound");
    }
    if forget_bound_evaluated > 0 {
        labels.push("forget-bound-evaluated");
    }
    if long_backoff {
        labels.push("backoff>prune_backoff");
    }
    if case.scoring {
        labels.push("scoring");
    }
    Outcome::pass_l(refused_grafts > 0 && expiry.is_some(), labels)
}

pub fn run(ctx: &mut Ctx) {
    ctx.assume("time is libp2p_core::verif_clock (thread-local virtual Instant switched in for gossipsub under cfg(libp2p_verif)); comparisons at exactly the expiry instant are don't-care");
    ctx.assume("'eventually forgets' is bounded as: once the clock is strictly past expiry + slack*heartbeat_interval, a full ring (ceil(prune_backoff/interval)+slack+1) of heartbeats removes the entry");
    ctx.check::<Case>(
        "storage",
        "<=60 ops (update(topic,peer,d) with d up to 5x prune_backoff or exactly prune_backoff, tick = advance one interval + heartbeat, bare heartbeat, advance incl. fractions of an interval) on the real BackoffStorage, 3 peers x 2 topics, prune_backoff 1..20 s (25% 1..2 s: small wheels), slack 0..5, interval 0.7/1/1.5 s; labels measure later updates re-filed under the same wheel slot, updates that wrap around the wheel and heartbeats that visit a pair's slot before (and within the slack before) its expiry; model = max granted expiry; non-trivial = an update longer than prune_backoff followed by >= ring-size heartbeats while some backoff was still active",
        ctx.n(80_000, 2_000_000),
        &|| strategy(60).boxed(),
        &check,
    );
    ctx.check::<BCase>(
        "behaviour",
        "one real Behaviour subscribed to a topic with one mesh slot and one gossipsub peer; <=60 ops (PRUNE with backoff up to 4x prune_backoff, GRAFT, tick, runs of 2..40 ticks, advance, re-subscribe); while now < max granted expiry the peer may not re-enter the mesh by heartbeat, GRAFT (refused and, with scoring on, penalised) or subscription; after expiry+slack and a full ring of heartbeats it is grafted again; non-trivial = at least one GRAFT refused during a backoff",
        ctx.n(20_000, 500_000),
        &|| bstrategy().boxed(),
        &bcheck,
    );
}
