//! Component-level gossipsub checks: C30 C31 C32 C33 C34 C36.
mod c30;
mod c31;
mod c32;
mod c33;
mod c34;
mod c36;
mod drv;
mod wire;

fn main() {
    vcore::runner::main(&[
        ("C30", c30::run),
        ("C31", c31::run),
        ("C32", c32::run),
        ("C33", c33::run),
        ("C34", c34::run),
        ("C36", c36::run),
    ])
}
