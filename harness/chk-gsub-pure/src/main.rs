use chk_gsub_pure::*;

fn main() {
    // `chk-gsub-pure --write-seeds <dir>`: (re)generate the golden seed corpus of the fuzz target gossipsub_rpc
    let args: Vec<String> = std::env::args().collect();
    if args.get(1).map(|s| s == "--write-seeds").unwrap_or(false) {
        let dir = std::path::PathBuf::from(args.get(2).cloned().unwrap_or_else(|| "/verif/fuzz/seeds".into()));
        match fuzzapi::write_seeds(&dir) {
            Ok(n) => {
                println!("{n} seed files written under {}", dir.display());
                return;
            }
            Err(e) => {
                eprintln!("cannot write seeds: {e}");
                std::process::exit(2);
            }
        }
    }
    vcore::runner::main(&[
        ("C30", c30::run),
        ("C31", c31::run),
        ("C32", c32::run),
        ("C33", c33::run),
        ("C34", c34::run),
        ("C36", c36::run),
    ])
}
