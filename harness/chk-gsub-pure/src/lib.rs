//! Component-level gossipsub checks: C30 C31 C32 C33 C34 C36.
//! The library part is shared with the libFuzzer targets in /verif/fuzz.
pub mod c30;
pub mod c31;
pub mod c32;
pub mod c33;
pub mod c34;
pub mod c36;
pub mod drv;
pub mod fuzzapi;
pub mod wire;
