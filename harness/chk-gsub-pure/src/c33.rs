//! C33 — gossipsub caches keep exactly their documented windows.
//!
//! `dupcache`: the real `DuplicateCache` (hook wrapper) under the virtual clock vs first-insertion
//! times. `mcache`: the real `MessageCache` vs a model of per-message ages in heartbeats.
use libp2p_core::verif_clock;
use libp2p_gossipsub::{verif_pure, MessageId, RawMessage, TopicHash};
use libp2p_identity::PeerId;
use proptest::prelude::*;
use serde::{Deserialize, Serialize};
use serde_json::json;
use std::collections::{BTreeMap, BTreeSet};
use std::time::Duration;
use vcore::{ensure, Ctx, Outcome};

// ---------------------------------------------------------------------------------------------
// DuplicateCache

#[derive(Clone, Debug, Serialize, Deserialize)]
pub enum DOp {
    Insert(u8),
    Contains(u8),
    Advance(u32),
}

#[derive(Clone, Debug, Serialize, Deserialize)]
pub struct DCase {
    ttl_ms: u32,
    ops: Vec<DOp>,
}

fn dstrategy() -> impl Strategy<Value = DCase> {
    prop_oneof![3 => (1u32..=10).prop_map(|s| s * 1000), 1 => 1000u32..=10_000].prop_flat_map(|ttl_ms| {
        let adv = prop_oneof![
            4 => 0u32..=ttl_ms / 2,
            2 => ttl_ms / 2..=ttl_ms + 10,
            1 => Just(ttl_ms),
            1 => Just(ttl_ms - 1),
            1 => Just(ttl_ms + 1),
            1 => 0u32..=3 * ttl_ms,
        ];
        let op = prop_oneof![
            5 => (0u8..6).prop_map(DOp::Insert),
            4 => (0u8..6).prop_map(DOp::Contains),
            4 => adv.prop_map(DOp::Advance),
        ];
        proptest::collection::vec(op, 1..=60).prop_map(move |ops| DCase { ttl_ms, ops })
    })
}

fn dcheck(case: &DCase) -> Outcome {
    verif_clock::set(Duration::ZERO);
    let mut sut = verif_pure::DupCache::new(Duration::from_millis(case.ttl_ms as u64));
    let ttl = case.ttl_ms as u64;
    // model: time (ms) of the insertion that counts as "first" for the current window
    let mut first: BTreeMap<u8, u64> = BTreeMap::new();
    let now_ms = || verif_clock::since_start().as_millis() as u64;
    let key = |k: u8| MessageId::new(&[b'k', k]);
    let mut reinserted_within = false;
    let mut expired_reinsert = false;
    let mut after_refresh_attempt = false;
    let mut refreshed_keys: BTreeSet<u8> = BTreeSet::new();
    let mut lookups_with_2plus_live_keys = 0usize;
    let mut expired_probe_while_younger_live = false;
    for (step, op) in case.ops.iter().enumerate() {
        let now = now_ms();
        // generator-distribution only: how many keys are live (inside their ttl) at this lookup
        if let DOp::Insert(k) | DOp::Contains(k) = op {
            let live_others = first.iter().filter(|(j, t0)| *j != k && now < **t0 + ttl).map(|(_, t0)| *t0).collect::<BTreeSet<u64>>();
            let own_live = first.get(k).is_some_and(|t0| now < *t0 + ttl);
            if live_others.len() + own_live as usize >= 2 {
                lookups_with_2plus_live_keys += 1;
            }
            if matches!(op, DOp::Insert(_)) && first.get(k).is_some_and(|t0| now > *t0 + ttl) && !live_others.is_empty() {
                expired_probe_while_younger_live = true;
            }
        }
        match op {
            DOp::Insert(k) => {
                let got = sut.insert(key(*k));
                let detail = || json!({"step": step, "key": k, "now_ms": now, "first_insert_ms": first.get(k), "ttl_ms": ttl, "insert_returned": got});
                match first.get(k).copied() {
                    None => {
                        ensure!(got, "C33:dup-first-insert-reported-as-seen", detail());
                        first.insert(*k, now);
                    }
                    Some(t0) if now < t0 + ttl => {
                        ensure!(!got, "C33:dup-forgotten-within-ttl", detail());
                        reinserted_within = true;
                        refreshed_keys.insert(*k);
                    }
                    Some(t0) if now > t0 + ttl => {
                        ensure!(got, "C33:dup-still-seen-after-ttl-of-first-insertion", detail());
                        if refreshed_keys.remove(k) {
                            after_refresh_attempt = true;
                        }
                        expired_reinsert = true;
                        first.insert(*k, now);
                    }
                    Some(_) => {
                        // exactly at the expiry instant: don't care, follow the implementation
                        if got {
                            first.insert(*k, now);
                            refreshed_keys.remove(k);
                        }
                    }
                }
            }
            DOp::Contains(k) => {
                let got = sut.contains(&key(*k));
                let detail = || json!({"step": step, "key": k, "now_ms": now, "first_insert_ms": first.get(k), "ttl_ms": ttl, "contains": got});
                match first.get(k).copied() {
                    None => ensure!(!got, "C33:dup-contains-never-inserted", detail()),
                    Some(t0) if now < t0 + ttl => ensure!(got, "C33:dup-not-seen-within-ttl", detail()),
                    Some(_) => {} // purge is lazy: after the ttl `contains` is don't-care
                }
            }
            DOp::Advance(ms) => verif_clock::advance(Duration::from_millis(*ms as u64)),
        }
    }
    let mut labels = vec![];
    if reinserted_within {
        labels.push("reinsert-within-ttl");
    }
    if expired_reinsert {
        labels.push("insert-after-ttl");
    }
    if after_refresh_attempt {
        labels.push("expired-despite-reinsertion");
    }
    if lookups_with_2plus_live_keys >= 3 {
        labels.push("3plus-lookups-with-2plus-live-keys");
    }
    if expired_probe_while_younger_live {
        labels.push("expired-key-reinserted-while-a-younger-key-is-live");
    }
    Outcome::pass_l(after_refresh_attempt, labels)
}

// ---------------------------------------------------------------------------------------------
// MessageCache

#[derive(Clone, Debug, Serialize, Deserialize)]
pub enum MOp {
    Put {
        id: u8,
        topic: u8,
        /// the message is already marked validated when it is cached (what the behaviour does when
        /// `validate_messages` is off)
        #[serde(default)]
        validated: bool,
    },
    Validate { id: u8 },
    ObserveDuplicate { id: u8, peer: u8 },
    Remove { id: u8 },
    Shift,
    Iwant { id: u8, peer: u8 },
    Gossip { topic: u8 },
}

#[derive(Clone, Debug, Serialize, Deserialize)]
pub struct MCase {
    gossip: u8,
    history: u8,
    ops: Vec<MOp>,
}

const IDS: u8 = 8;
const MTOPICS: u8 = 2;

fn mstrategy() -> impl Strategy<Value = MCase> {
    // history 0..6 (short histories twice as likely: ids age out and come back within one case);
    // the case uses 1, 2, 3 or all 8 ids and 1..3 peers, so that the same (id, peer) pair recurs
    (prop_oneof![1 => 0u8..=6, 1 => 1u8..=3], prop_oneof![Just(1u8), Just(2u8), Just(3u8), Just(IDS)], 1u8..=3)
        .prop_flat_map(|(history, nids, npeers)| (0u8..=history, Just(history), Just(nids), Just(npeers)))
        .prop_flat_map(|(gossip, history, nids, npeers)| {
        let op = prop_oneof![
            5 => (0u8..nids, 0u8..MTOPICS, any::<bool>()).prop_map(|(id, topic, validated)| MOp::Put { id, topic, validated }),
            4 => (0u8..nids).prop_map(|id| MOp::Validate { id }),
            1 => (0u8..nids, 0u8..npeers).prop_map(|(id, peer)| MOp::ObserveDuplicate { id, peer }),
            1 => (0u8..nids).prop_map(|id| MOp::Remove { id }),
            4 => Just(MOp::Shift),
            5 => (0u8..nids, 0u8..npeers).prop_map(|(id, peer)| MOp::Iwant { id, peer }),
            3 => (0u8..MTOPICS).prop_map(|topic| MOp::Gossip { topic }),
        ];
        proptest::collection::vec(op, 1..=70).prop_map(move |ops| MCase { gossip, history, ops })
    })
}

#[derive(Clone, Debug)]
struct Entry {
    /// shifts since the put
    age: usize,
    validated: bool,
    topic: u8,
    iwant: BTreeMap<u8, u32>,
}

fn mcheck(case: &MCase) -> Outcome {
    let g = case.gossip as usize;
    let h = case.history as usize;
    let mut sut = verif_pure::MCache::new(g, h);
    let mid = |i: u8| MessageId::new(&[b'm', i]);
    let topic = |t: u8| TopicHash::from_raw(format!("mt{t}"));
    let peers: Vec<PeerId> = (0..3).map(vcore::gen::peer).collect();
    let mut model: BTreeMap<u8, Entry> = BTreeMap::new();
    // ids that were removed and put again while their old history slot may still exist: the
    // documented windows are only asserted one-directionally for them
    let mut removed_once: BTreeSet<u8> = BTreeSet::new();
    let mut tainted: BTreeSet<u8> = BTreeSet::new();
    let mut shift_after_validated_put = false;
    let mut reput_after_remove = false;
    let mut gossip_nonempty = false;
    let mut iwant_hits = 0usize;
    let mut expired_iwant = false;
    let mut ever_put: BTreeSet<u8> = BTreeSet::new();
    // ids whose previous copy aged out of the history by shifts (not removed), with the peers that had
    // been served that copy; label-only
    let mut aged_out: BTreeMap<u8, BTreeSet<u8>> = BTreeMap::new();
    let mut reput_after_aging_out = false;
    let mut iwant_by_same_peer_for_both_copies = false;

    for (step, op) in case.ops.iter().enumerate() {
        match op {
            MOp::Put { id, topic: t, validated } => {
                let raw = RawMessage { source: Some(peers[0]), data: vec![*id], sequence_number: Some(*id as u64), topic: topic(*t), signature: None, key: None, validated: *validated };
                let got = sut.put(&mid(*id), raw);
                let present = model.contains_key(id);
                if !present && h > 0 && aged_out.contains_key(id) && !tainted.contains(id) && !removed_once.contains(id) {
                    reput_after_aging_out = true;
                }
                let fresh = Entry { age: 0, validated: *validated, topic: *t, iwant: BTreeMap::new() };
                if removed_once.contains(id) && !present {
                    tainted.insert(*id);
                    reput_after_remove = true;
                }
                if tainted.contains(id) {
                    // follow the implementation: a stale history slot may have evicted the copy
                    if got && h > 0 {
                        model.insert(*id, fresh);
                    }
                } else {
                    ensure!(got == !present || h == 0, "C33:mcache-put-return", json!({"step": step, "id": id, "present_in_model": present, "returned": got}));
                    if !present && h > 0 {
                        model.insert(*id, fresh);
                    }
                }
                if h > 0 {
                    ever_put.insert(*id);
                }
            }
            MOp::Validate { id } => {
                let got = sut.validate(&mid(*id)).is_some();
                if let Some(e) = model.get_mut(id) {
                    if got {
                        e.validated = true;
                    }
                }
                if !tainted.contains(id) {
                    ensure!(got == model.contains_key(id), "C33:mcache-validate-presence", json!({"step": step, "id": id, "present_in_model": model.contains_key(id), "returned_some": got}));
                } else if !got {
                    model.remove(id);
                }
            }
            MOp::ObserveDuplicate { id, peer } => sut.observe_duplicate(&mid(*id), &peers[*peer as usize % 3]),
            MOp::Remove { id } => {
                let got = sut.remove(&mid(*id)).is_some();
                if !tainted.contains(id) {
                    ensure!(got == model.contains_key(id), "C33:mcache-remove-presence", json!({"step": step, "id": id, "present_in_model": model.contains_key(id), "returned_some": got}));
                }
                if model.remove(id).is_some() || got {
                    removed_once.insert(*id);
                }
            }
            MOp::Shift => {
                sut.shift();
                if model.values().any(|e| e.validated) {
                    shift_after_validated_put = true;
                }
                for e in model.values_mut() {
                    e.age += 1;
                }
                for (id, e) in model.iter().filter(|(_, e)| e.age >= h) {
                    aged_out.entry(*id).or_default().extend(e.iwant.keys().copied());
                }
                model.retain(|_, e| e.age < h);
            }
            MOp::Iwant { id, peer } => {
                let got = sut.get_with_iwant_counts(&mid(*id), &peers[*peer as usize % 3]);
                let m = model.get(id).cloned();
                let is_tainted = tainted.contains(id);
                let detail = || json!({"step": step, "id": id, "peer": peer, "gossip": g, "history": h, "model": m.as_ref().map(|e| format!("{e:?}")), "got_count": got.as_ref().map(|(_, c)| *c), "tainted": is_tainted});
                match (&got, &m) {
                    (Some(_), None) => return Outcome::fail("C33:iwant-served-outside-history-window", detail()),
                    (Some(_), Some(e)) if !e.validated => return Outcome::fail("C33:iwant-served-unvalidated-message", detail()),
                    (Some(_), Some(e)) if e.age >= h => return Outcome::fail("C33:iwant-served-outside-history-window", detail()),
                    (None, Some(e)) if e.validated && !is_tainted => return Outcome::fail("C33:iwant-not-served-within-history-window", detail()),
                    (None, Some(e)) if e.validated && is_tainted => {
                        model.remove(id); // evicted early by the stale slot: follow the implementation
                    }
                    _ => {}
                }
                if got.is_none() && ever_put.contains(id) && m.is_none() {
                    expired_iwant = true;
                }
                if let (Some((raw, count)), Some(e)) = (got, model.get_mut(id)) {
                    ensure!(raw.data == vec![*id], "C33:iwant-returned-other-message", json!({"step": step, "id": id}));
                    if !is_tainted && aged_out.get(id).is_some_and(|ps| ps.contains(&(*peer % 3))) {
                        iwant_by_same_peer_for_both_copies = true;
                    }
                    let c = e.iwant.entry(*peer % 3).or_insert(0);
                    *c += 1;
                    if !is_tainted {
                        ensure!(count == *c, "C33:iwant-count-wrong", json!({"step": step, "id": id, "peer": peer, "returned": count, "requests_by_this_peer": *c}));
                    } else {
                        *c = count;
                    }
                    iwant_hits += 1;
                }
            }
            MOp::Gossip { topic: t } => {
                let got: Vec<MessageId> = sut.get_gossip_message_ids(&topic(*t));
                let got_set: BTreeSet<Vec<u8>> = got.iter().map(|m| m.0.clone()).collect();
                // upper bound for every id: validated and younger than `gossip` heartbeats
                for m in &got_set {
                    let id = m[1];
                    let ok = model.get(&id).is_some_and(|e| e.validated && e.age < g && (e.topic == *t || tainted.contains(&id)));
                    ensure!(ok, "C33:gossip-offers-message-outside-window-or-unvalidated", json!({"step": step, "id": id, "topic": t, "gossip": g, "history": h, "model": model.get(&id).map(|e| format!("{e:?}"))}));
                }
                // exactness for ids without remove/re-put history
                for (id, e) in &model {
                    if !tainted.contains(id) && e.validated && e.age < g && e.topic == *t {
                        ensure!(got_set.contains(&mid(*id).0), "C33:gossip-misses-validated-message-in-window", json!({"step": step, "id": id, "topic": t, "gossip": g, "history": h, "age": e.age}));
                    }
                }
                if !got_set.is_empty() {
                    gossip_nonempty = true;
                }
            }
        }
    }
    let mut labels = vec![];
    if shift_after_validated_put {
        labels.push("shift-after-put+validate");
    }
    if reput_after_remove {
        labels.push("reput-after-remove");
    }
    if gossip_nonempty {
        labels.push("gossip-nonempty");
    }
    if iwant_hits >= 2 {
        labels.push("iwant-served>=2");
    }
    if expired_iwant {
        labels.push("iwant-after-expiry");
    }
    if h == 0 {
        labels.push("history=0");
    }
    if reput_after_aging_out {
        labels.push("reput-of-id-that-aged-out-of-the-history");
    }
    if iwant_by_same_peer_for_both_copies {
        labels.push("iwant-by-same-peer-for-old-and-new-copy-of-an-id");
    }
    Outcome::pass_l(shift_after_validated_put && (gossip_nonempty || iwant_hits > 0), labels)
}

pub fn run(ctx: &mut Ctx) {
    ctx.assume("time is the virtual clock; DuplicateCache purges lazily, so `contains` after the ttl and everything at exactly the expiry instant are don't-care");
    ctx.assume("MessageCache ids that were removed and put again are only checked one-directionally (served/offered implies validated and inside the window), because the stale history slot of the removed copy may evict the new copy early");
    ctx.check::<DCase>(
        "dupcache",
        "<=60 ops insert/contains/advance over 6 keys, ttl 1..10 s, advances around ttl/2, ttl-1, ttl, ttl+1; model = first-insertion time; within ttl: contains true and insert false; after ttl: insert true; non-trivial = a key that was re-inserted within its ttl and later found expired relative to its first insertion",
        ctx.n(100_000, 2_500_000),
        &|| dstrategy().boxed(),
        &dcheck,
    );
    ctx.check::<MCase>(
        "mcache",
        "<=70 ops put (unvalidated or already validated)/validate/observe_duplicate/remove/shift/get_with_iwant_counts/get_gossip_message_ids over 1, 2, 3 or 8 ids, 2 topics, 1..3 peers, gossip <= history <= 6 (short histories favoured so that ids age out and are cached again); model = age in shifts; non-trivial = a shift after put+validate and a non-empty gossip or served IWANT",
        ctx.n(100_000, 2_500_000),
        &|| mstrategy().boxed(),
        &mcheck,
    );
}
