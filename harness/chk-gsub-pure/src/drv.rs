//! Direct driver for one real `gossipsub::Behaviour`: connections are announced through the public
//! `NetworkBehaviour` methods in the order the Swarm uses, inbound RPCs are wire bytes decoded by
//! the real codec (hook `verif_pure::codec_for`), heartbeats are explicit (hook), time is virtual.

use bytes::BytesMut;
use asynchronous_codec::Decoder;
use libp2p_core::{transport::PortUse, ConnectedPoint, Endpoint, Multiaddr};
use libp2p_gossipsub::{self as gs, verif_pure, Behaviour, Config, Event, IdentityTransform, MessageAuthenticity, TopicHash, TopicSubscriptionFilter};
use libp2p_identity::PeerId;
use libp2p_swarm::{
    behaviour::{ConnectionEstablished, FromSwarm},
    ConnectionId, NetworkBehaviour, ToSwarm,
};
use std::collections::BTreeSet;
use std::task::{Context, Poll};

use crate::wire::{self, pb};

pub struct Node<F: TopicSubscriptionFilter + Send + 'static> {
    pub b: Behaviour<IdentityTransform, F>,
    codec: verif_pure::GossipsubCodec,
    next_conn: usize,
    /// handlers returned by the behaviour, kept alive like the Swarm's connection tasks would
    handlers: Vec<gs_handler::H<F>>,
    pub conns: Vec<(PeerId, ConnectionId)>,
}

/// names the (otherwise unnameable) handler type through the trait
mod gs_handler {
    use super::*;
    pub type H<F> = <Behaviour<IdentityTransform, F> as NetworkBehaviour>::ConnectionHandler;
}

/// Outcome of feeding one RPC.
pub enum Fed {
    Delivered,
    /// the codec refused the bytes (never expected for harness-built subscription/control RPCs)
    CodecError(String),
    Incomplete,
}

impl<F: TopicSubscriptionFilter + Send + 'static> Node<F> {
    pub fn new(cfg: Config, filter: F) -> Result<Self, String> {
        let key = vcore::gen::keys().ed25519[0].clone();
        let b = Behaviour::new_with_subscription_filter(MessageAuthenticity::Signed(key), cfg.clone(), filter).map_err(|e| e.to_string())?;
        Ok(Node { b, codec: verif_pure::codec_for(&cfg), next_conn: 0, handlers: vec![], conns: vec![] })
    }

    /// Swarm call sequence for a new connection: handle_established_* → ConnectionEstablished →
    /// (handler negotiates) PeerKind event.
    pub fn connect(&mut self, peer: PeerId, outbound: bool, kind: u8) -> ConnectionId {
        let cid = ConnectionId::new_unchecked(self.next_conn);
        self.next_conn += 1;
        let addr: Multiaddr = format!("/ip4/10.0.{}.{}/tcp/4001", (self.next_conn / 250) % 250, self.next_conn % 250 + 1).parse().unwrap();
        let local: Multiaddr = "/ip4/10.9.9.9/tcp/4001".parse().unwrap();
        let others = self.conns.iter().filter(|(p, _)| *p == peer).count();
        let (handler, endpoint) = if outbound {
            let h = self.b.handle_established_outbound_connection(cid, peer, &addr, Endpoint::Dialer, PortUse::Reuse);
            (h, ConnectedPoint::Dialer { address: addr, role_override: Endpoint::Dialer, port_use: PortUse::Reuse })
        } else {
            let h = self.b.handle_established_inbound_connection(cid, peer, &local, &addr);
            (h, ConnectedPoint::Listener { local_addr: local, send_back_addr: addr })
        };
        if let Ok(h) = handler {
            self.handlers.push(h);
        }
        self.b.on_swarm_event(FromSwarm::ConnectionEstablished(ConnectionEstablished {
            peer_id: peer,
            connection_id: cid,
            endpoint: &endpoint,
            failed_addresses: &[],
            other_established: others,
        }));
        self.b.on_connection_handler_event(peer, cid, verif_pure::peer_kind_event(kind));
        self.conns.push((peer, cid));
        cid
    }

    fn conn_of(&self, peer: &PeerId) -> ConnectionId {
        self.conns.iter().find(|(p, _)| p == peer).map(|(_, c)| *c).expect("peer connected")
    }

    /// Feed one RPC from `peer`: wire bytes → real codec → `on_connection_handler_event`.
    pub fn feed(&mut self, peer: &PeerId, rpc: &pb::Rpc) -> Fed {
        let mut buf = BytesMut::from(&wire::frame(rpc)[..]);
        match self.codec.decode(&mut buf) {
            Ok(Some(ev)) => {
                let cid = self.conn_of(peer);
                self.b.on_connection_handler_event(*peer, cid, ev);
                Fed::Delivered
            }
            Ok(None) => Fed::Incomplete,
            Err(e) => Fed::CodecError(e.to_string()),
        }
    }

    pub fn heartbeat(&mut self) {
        verif_pure::heartbeat(&mut self.b)
    }

    /// Drain `poll` (never lets a timer fire: callers configure the heartbeat delay to hours).
    pub fn drain_events(&mut self) -> Vec<Event> {
        let waker = futures::task::noop_waker();
        let mut cx = Context::from_waker(&waker);
        let mut out = vec![];
        for _ in 0..100_000 {
            match self.b.poll(&mut cx) {
                Poll::Ready(ToSwarm::GenerateEvent(e)) => out.push(e),
                Poll::Ready(_) => {}
                Poll::Pending => break,
            }
        }
        out
    }

    pub fn tracked(&self, peer: &PeerId) -> BTreeSet<String> {
        self.b.all_peers().find(|(p, _)| *p == peer).map(|(_, ts)| ts.into_iter().map(|t| t.as_str().to_string()).collect()).unwrap_or_default()
    }

    pub fn mesh(&self, topic: &str) -> BTreeSet<PeerId> {
        self.b.mesh_peers(&TopicHash::from_raw(topic)).copied().collect()
    }

    pub fn mesh_snapshot(&self) -> Vec<(String, BTreeSet<PeerId>)> {
        let mut v: Vec<(String, BTreeSet<PeerId>)> = self.b.topics().map(|t| (t.as_str().to_string(), self.b.mesh_peers(t).copied().collect())).collect();
        v.sort();
        v
    }
}

/// Config builder with timers that can never fire during a case.
pub fn quiet_builder() -> gs::ConfigBuilder {
    let mut b = gs::ConfigBuilder::default();
    b.heartbeat_initial_delay(std::time::Duration::from_secs(3600));
    b
}
