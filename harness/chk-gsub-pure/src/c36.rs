//! C36 — subscription filters bound what peers can make us track.
//!
//! A real `Behaviour` with a generated filter (whitelist / max-count over allow-all or whitelist /
//! combined) receives generated subscription RPCs (real wire bytes through the real codec) from up
//! to three peers. After every RPC the peer's tracked topic set (`all_peers`) and the emitted
//! events are compared with the statement. Domain: subscription RPCs only (no GRAFT).
use libp2p_core::verif_clock;
use libp2p_gossipsub::{
    self as gs, AllowAllSubscriptionFilter, CombinedSubscriptionFilters, Event, MaxCountSubscriptionFilter, TopicHash, TopicSubscriptionFilter, WhitelistSubscriptionFilter,
};
use proptest::prelude::*;
use serde::{Deserialize, Serialize};
use serde_json::json;
use std::collections::{BTreeSet, HashSet};
use std::time::Duration;
use vcore::{ensure, Ctx, Outcome};

use crate::drv::{self, Fed, Node};
use crate::wire;

const NTOPICS: u8 = 8;

#[derive(Clone, Debug, Serialize, Deserialize)]
pub enum FilterSpec {
    Whitelist { mask: u8 },
    MaxCountAll { max_topics: u8, max_per_request: u8 },
    MaxCountWhitelist { mask: u8, max_topics: u8, max_per_request: u8 },
    /// Combined(whitelist A, whitelist B)
    CombinedWhitelists { mask1: u8, mask2: u8 },
    /// MaxCount(Combined(whitelist A, whitelist B))
    MaxCountCombined { mask1: u8, mask2: u8, max_topics: u8, max_per_request: u8 },
    /// Combined(MaxCount(AllowAll), whitelist): the max-count filter is the *inner* one
    CombinedMaxCountInner { mask: u8, max_topics: u8, max_per_request: u8 },
}

#[derive(Clone, Debug, Serialize, Deserialize)]
pub struct Rpc {
    peer: u8,
    /// (subscribe?, topic index)
    entries: Vec<(bool, u8)>,
}

#[derive(Clone, Debug, Serialize, Deserialize)]
pub struct Case {
    filter: FilterSpec,
    /// topics the local node subscribes to first (mask), so that subscriptions can also graft
    local: u8,
    rpcs: Vec<Rpc>,
}

fn filter_spec() -> impl Strategy<Value = FilterSpec> {
    let m = || 1u8..=255;
    prop_oneof![
        2 => m().prop_map(|mask| FilterSpec::Whitelist { mask }),
        4 => (1u8..=5, 1u8..=5).prop_map(|(max_topics, max_per_request)| FilterSpec::MaxCountAll { max_topics, max_per_request }),
        3 => (m(), 1u8..=5, 1u8..=5).prop_map(|(mask, max_topics, max_per_request)| FilterSpec::MaxCountWhitelist { mask, max_topics, max_per_request }),
        1 => (m(), m()).prop_map(|(mask1, mask2)| FilterSpec::CombinedWhitelists { mask1, mask2 }),
        2 => (m(), m(), 1u8..=5, 1u8..=5).prop_map(|(mask1, mask2, max_topics, max_per_request)| FilterSpec::MaxCountCombined { mask1, mask2, max_topics, max_per_request }),
        2 => (m(), 1u8..=5, 1u8..=5).prop_map(|(mask, max_topics, max_per_request)| FilterSpec::CombinedMaxCountInner { mask, max_topics, max_per_request }),
    ]
}

fn strategy() -> impl Strategy<Value = Case> {
    let entry = (prop_oneof![3 => Just(true), 1 => Just(false)], 0u8..NTOPICS);
    let rpc = (0u8..3, proptest::collection::vec(entry, 0..=8)).prop_map(|(peer, entries)| Rpc { peer, entries });
    (filter_spec(), any::<u8>(), proptest::collection::vec(rpc, 1..=25)).prop_map(|(filter, local, rpcs)| Case { filter, local, rpcs })
}

fn tname(t: u8) -> String {
    format!("topic{}", t % NTOPICS)
}

fn whitelist(mask: u8) -> WhitelistSubscriptionFilter {
    WhitelistSubscriptionFilter((0..NTOPICS).filter(|t| mask & (1 << t) != 0).map(|t| TopicHash::from_raw(tname(t))).collect::<HashSet<_>>())
}

/// What the statement lets the harness expect of a filter.
struct Expect {
    /// topics the filter allows (bit mask); 0xff = all
    allowed: u8,
    max_topics: Option<usize>,
    max_per_request: Option<usize>,
}

fn run_with<F: TopicSubscriptionFilter + Send + 'static>(case: &Case, filter: F, exp: Expect, inner_maxcount: bool) -> Outcome {
    verif_clock::set(Duration::ZERO);
    let cfg = match drv::quiet_builder().build() {
        Ok(c) => c,
        Err(e) => return Outcome::fail("C36:config", e.to_string()),
    };
    let mut node = match Node::new(cfg, filter) {
        Ok(n) => n,
        Err(e) => return Outcome::fail("C36:behaviour-new", e),
    };
    for t in 0..NTOPICS {
        if case.local & (1 << t) != 0 {
            let _ = node.b.subscribe(&gs::IdentTopic::new(tname(t)));
        }
    }
    let peers: Vec<_> = (0..3).map(|i| vcore::gen::peer(i + 1)).collect();
    for (i, p) in peers.iter().enumerate() {
        node.connect(*p, i % 2 == 0, 3);
    }
    let _ = node.drain_events();
    let allowed_set: BTreeSet<String> = (0..NTOPICS).filter(|t| exp.allowed & (1 << t) != 0).map(tname).collect();
    let (mut rejected, mut applied, mut oversize, mut overflow) = (0usize, 0usize, 0usize, 0usize);

    for (step, rpc) in case.rpcs.iter().enumerate() {
        let peer = peers[rpc.peer as usize % 3];
        let before = node.tracked(&peer);
        let mesh_before = node.mesh_snapshot();
        let others_before: Vec<BTreeSet<String>> = peers.iter().filter(|p| **p != peer).map(|p| node.tracked(p)).collect();
        let entries: Vec<(bool, String)> = rpc.entries.iter().map(|(s, t)| (*s, tname(*t))).collect();
        if entries.is_empty() {
            continue; // an RPC without subscriptions is not a subscription request
        }
        match node.feed(&peer, &wire::subs_rpc(&entries)) {
            Fed::Delivered => {}
            Fed::CodecError(e) => return Outcome::fail("C36:codec-error", e),
            Fed::Incomplete => return Outcome::fail("C36:codec-incomplete", ""),
        }
        let events = node.drain_events();
        let sub_events: Vec<String> = events
            .iter()
            .filter_map(|e| match e {
                Event::Subscribed { peer_id, topic } => Some(format!("+{}:{}", peer_id, topic.as_str())),
                Event::Unsubscribed { peer_id, topic } => Some(format!("-{}:{}", peer_id, topic.as_str())),
                _ => None,
            })
            .collect();
        let after = node.tracked(&peer);
        let mesh_after = node.mesh_snapshot();
        let others_after: Vec<BTreeSet<String>> = peers.iter().filter(|p| **p != peer).map(|p| node.tracked(p)).collect();
        let detail = |what: &str| {
            json!({"step": step, "what": what, "filter": format!("{:?}", case.filter), "request": entries, "tracked_before": before, "tracked_after": after,
                   "events": sub_events, "allowed": allowed_set, "max_topics": exp.max_topics, "max_per_request": exp.max_per_request})
        };
        let sig = |s: &str| if inner_maxcount { format!("C36:{s}-with-maxcount-nested-in-combined") } else { format!("C36:{s}") };

        // (1) only allowed topics are ever tracked
        ensure!(after.is_subset(&allowed_set), sig("tracked-topic-not-allowed-by-filter"), detail("tracked set contains a topic the filter does not allow"));
        // (2) the count bound
        if let Some(max) = exp.max_topics {
            ensure!(after.len() <= max, sig("tracked-topics-exceed-max-subscribed-topics"), detail("more tracked topics than max_subscribed_topics"));
        }
        ensure!(others_after == others_before, sig("other-peer-tracked-set-changed"), detail("a request changed another peer's tracked set"));

        // (3) requests that must be rejected change nothing
        let unchanged = after == before && sub_events.is_empty() && mesh_after == mesh_before;
        let too_many_entries = exp.max_per_request.is_some_and(|m| entries.len() > m);
        // a request is unambiguous if no topic appears with both actions
        let subs: BTreeSet<String> = entries.iter().filter(|(s, _)| *s).map(|(_, t)| t.clone()).collect();
        let unsubs: BTreeSet<String> = entries.iter().filter(|(s, _)| !*s).map(|(_, t)| t.clone()).collect();
        let unambiguous = subs.is_disjoint(&unsubs);
        let mut would_be: BTreeSet<String> = before.clone();
        for t in subs.intersection(&allowed_set) {
            would_be.insert(t.clone());
        }
        for t in &unsubs {
            would_be.remove(t);
        }
        let overflows = unambiguous && exp.max_topics.is_some_and(|m| would_be.len() > m);
        if too_many_entries {
            oversize += 1;
            ensure!(unchanged, sig("request-above-max-subscriptions-per-request-had-effect"), detail("request with more entries than max_subscriptions_per_request changed state or emitted events"));
        } else if overflows {
            overflow += 1;
            ensure!(unchanged, sig("overflowing-request-had-effect"), detail("request that would exceed max_subscribed_topics changed state or emitted events"));
        }
        if too_many_entries || overflows {
            rejected += 1;
        } else if after != before {
            applied += 1;
        }
    }
    let mut labels = vec![match case.filter {
        FilterSpec::Whitelist { .. } => "f:whitelist",
        FilterSpec::MaxCountAll { .. } => "f:maxcount(all)",
        FilterSpec::MaxCountWhitelist { .. } => "f:maxcount(whitelist)",
        FilterSpec::CombinedWhitelists { .. } => "f:combined(w,w)",
        FilterSpec::MaxCountCombined { .. } => "f:maxcount(combined)",
        FilterSpec::CombinedMaxCountInner { .. } => "f:combined(maxcount,w)",
    }];
    if oversize > 0 {
        labels.push("rejected:too-many-entries");
    }
    if overflow > 0 {
        labels.push("rejected:overflow");
    }
    if applied > 0 {
        labels.push("applied");
    }
    Outcome::pass_l(rejected > 0 && applied > 0, labels)
}

fn check(case: &Case) -> Outcome {
    match case.filter {
        FilterSpec::Whitelist { mask } => run_with(case, whitelist(mask), Expect { allowed: mask, max_topics: None, max_per_request: None }, false),
        FilterSpec::MaxCountAll { max_topics, max_per_request } => run_with(
            case,
            MaxCountSubscriptionFilter { filter: AllowAllSubscriptionFilter {}, max_subscribed_topics: max_topics as usize, max_subscriptions_per_request: max_per_request as usize },
            Expect { allowed: 0xff, max_topics: Some(max_topics as usize), max_per_request: Some(max_per_request as usize) },
            false,
        ),
        FilterSpec::MaxCountWhitelist { mask, max_topics, max_per_request } => run_with(
            case,
            MaxCountSubscriptionFilter { filter: whitelist(mask), max_subscribed_topics: max_topics as usize, max_subscriptions_per_request: max_per_request as usize },
            Expect { allowed: mask, max_topics: Some(max_topics as usize), max_per_request: Some(max_per_request as usize) },
            false,
        ),
        FilterSpec::CombinedWhitelists { mask1, mask2 } => {
            run_with(case, CombinedSubscriptionFilters { filter1: whitelist(mask1), filter2: whitelist(mask2) }, Expect { allowed: mask1 & mask2, max_topics: None, max_per_request: None }, false)
        }
        FilterSpec::MaxCountCombined { mask1, mask2, max_topics, max_per_request } => run_with(
            case,
            MaxCountSubscriptionFilter {
                filter: CombinedSubscriptionFilters { filter1: whitelist(mask1), filter2: whitelist(mask2) },
                max_subscribed_topics: max_topics as usize,
                max_subscriptions_per_request: max_per_request as usize,
            },
            Expect { allowed: mask1 & mask2, max_topics: Some(max_topics as usize), max_per_request: Some(max_per_request as usize) },
            false,
        ),
        FilterSpec::CombinedMaxCountInner { mask, max_topics, max_per_request } => run_with(
            case,
            CombinedSubscriptionFilters {
                filter1: MaxCountSubscriptionFilter { filter: AllowAllSubscriptionFilter {}, max_subscribed_topics: max_topics as usize, max_subscriptions_per_request: max_per_request as usize },
                filter2: whitelist(mask),
            },
            Expect { allowed: mask, max_topics: Some(max_topics as usize), max_per_request: Some(max_per_request as usize) },
            true,
        ),
    }
}

pub fn run(ctx: &mut Ctx) {
    ctx.assume("domain = subscription RPCs only (GRAFT also inserts into the tracked set without consulting the filter; outside the stated domain, not exercised)");
    ctx.assume("'rejected request' is operationalised as: more entries than max_subscriptions_per_request, or (for requests in which no topic appears with both actions) applying the allowed subscribes and the unsubscribes would leave more than max_subscribed_topics topics");
    ctx.check::<Case>(
        "filters",
        "filter in {Whitelist, MaxCount(AllowAll), MaxCount(Whitelist), Combined(W,W), MaxCount(Combined(W,W)), Combined(MaxCount(AllowAll),W)} with max_topics/max_per_request 1..5 over 8 topics; 1..25 subscription RPCs (0..8 subscribe/unsubscribe entries with duplicates) from 3 peers as real wire bytes; after each RPC: tracked subset of allowed, |tracked| <= max, must-reject requests leave tracked set / mesh / events unchanged; non-trivial = >=1 rejected and >=1 applied request",
        ctx.n(40_000, 1_000_000),
        &|| strategy().boxed(),
        &check,
    );
}
