//! Entry point of the libFuzzer target `gossipsub_rpc` (C31) and its seed corpus writer.
//! Oracles: `c31::chunking_oracle` (the one of sub-check `chunking-independence`) + `c31::limit_oracle`.

use crate::c31::{self, RpcSpec};
pub use vcore::fuzz::fuzz_main;
use vcore::simio::{Script, Step};
use vcore::{FuzzTarget, FuzzVerdict};

pub const FUZZ_JOBS: u32 = 16;
/// measured (ASan build, one core): ~370 exec/s (every input is decoded twice, once one byte per read)
pub const GOSSIPSUB_RPC_RUNS_PER_JOB: u64 = 240_000;

pub const GOSSIPSUB_RPC: FuzzTarget = FuzzTarget {
    name: "gossipsub_rpc",
    entry: gossipsub_rpc,
    about: "input = [limit index: L in {100,1000}][4 read-script bytes][inbound byte stream, then EOF]; oracle = the stream read through the real Framed<_, GossipsubCodec> one byte per read and with the scripted chunking yields the same RPC sequence and the same error/no-error end (C31 chunking independence), never more RPCs than there are complete frames of <= L declared bytes (independent uvarint walk), no within-limit frame silently dropped, a prefix declaring > L bytes ends the stream with an error; no panic; non-trivial = at least one RPC yielded and (>= 2 yielded or the stream ended with an error)",
};

/// control bytes -> read script (default chunk + up to 3 scripted steps)
fn script(ctl: &[u8]) -> Script {
    let default_chunk = [0u16, 1, 2, 3, 7, 64, 997, 8192][ctl.first().copied().unwrap_or(0) as usize % 8];
    let steps = ctl.iter().skip(1).map(|&b| if b % 8 == 0 { Step::Pending } else { Step::Chunk(((b as u16) << 2) | 1) }).collect();
    Script { steps, default_chunk }
}

/// layout: [limit index][script: 4 bytes][stream...]
pub fn gossipsub_rpc(data: &[u8]) -> FuzzVerdict {
    if data.len() < 5 {
        return Ok(false);
    }
    let (l, cfg) = c31::byte_level_cfg(data[0]).map_err(|e| ("C31:config-rejected".to_string(), serde_json::json!(e)))?;
    let stream = &data[5..];
    let (yielded, err) = c31::chunking_oracle(&cfg, l, stream, &script(&data[1..5]))?;
    c31::limit_oracle(l, stream, yielded.len(), err)?;
    Ok(!yielded.is_empty() && (err || yielded.len() >= 2))
}

/// Golden seeds: frame streams around the limits (the RpcSpec builder of the proptest check).
pub fn write_seeds(dir: &std::path::Path) -> std::io::Result<usize> {
    let d = dir.join("gossipsub_rpc");
    std::fs::create_dir_all(&d)?;
    let small = RpcSpec::Small { subs: 2, msgs: 1, data_len: 20, grafts: 1, ihave_ids: 2 };
    let small2 = RpcSpec::Small { subs: 0, msgs: 2, data_len: 5, grafts: 2, ihave_ids: 0 };
    let seeds: Vec<(&str, u8, [u8; 4], Vec<RpcSpec>, &[u8])> = vec![
        ("small-1", 0, [0, 0, 0, 0], vec![small.clone()], b""),
        ("small-3", 0, [1, 0, 0, 0], vec![small.clone(), small2.clone(), small.clone()], b""),
        ("small-3-l1000", 1, [5, 9, 17, 8], vec![small.clone(), small2.clone(), small.clone()], b""),
        ("exact-limit", 0, [0, 3, 0, 0], vec![RpcSpec::Sized { delta: 0 }, small.clone()], b""),
        ("limit-plus-1", 0, [4, 0, 0, 0], vec![small.clone(), RpcSpec::Sized { delta: 1 }, small.clone()], b""),
        ("limit-minus-1-l1000", 1, [6, 200, 0, 0], vec![RpcSpec::Sized { delta: -1 }, RpcSpec::Sized { delta: 0 }], b""),
        ("limit-plus-2-l1000", 1, [7, 0, 0, 0], vec![RpcSpec::Sized { delta: 2 }], b""),
        ("publish-at-max", 0, [2, 0, 0, 0], vec![RpcSpec::ManyPublish { delta: 0 }], b""),
        ("publish-over-max", 1, [3, 0, 0, 0], vec![RpcSpec::ManyPublish { delta: 1 }, small.clone()], b""),
        ("control-at-max", 1, [0, 0, 0, 0], vec![RpcSpec::Control { delta: 0, with_sub: true }], b""),
        ("control-over-max", 1, [1, 0, 0, 0], vec![RpcSpec::Control { delta: 1, with_sub: false }, small2.clone()], b""),
        ("garbage-tail", 0, [0, 0, 0, 0], vec![small2.clone()], b"\x05\xff\xff"),
        ("oversized-prefix-only", 0, [1, 0, 0, 0], vec![small.clone()], b"\x65"),
        ("empty-frames", 0, [0, 0, 0, 0], vec![], b"\x00\x00\x00"),
    ];
    let mut n = 0;
    for (name, limit, ctl, specs, tail) in &seeds {
        let mut v = vec![*limit];
        v.extend(ctl);
        v.extend(c31::seed_stream(*limit, specs));
        v.extend_from_slice(tail);
        std::fs::write(d.join(name), v)?;
        n += 1;
    }
    Ok(n)
}
