//! C50 (part ii) — behaviour-level half: the real AutoNAT v1 `Behaviour` as a server inside a real
//! `Swarm` (simswarm world, one node). What is real: the autonat behaviour, its inner
//! request-response behaviour + connection handlers + codec, multistream-select on the server side,
//! the Swarm / connection pool / concurrent dial machinery. What is simulated: the transport, the
//! muxer, and the AutoNAT clients (the harness writes multistream-select + one length-prefixed
//! protobuf `Message{type: DIAL}` on a raw stream, with its own encoder, and parses the response).
//!
//! Observation points:
//!  * `Tap` — a transparent `NetworkBehaviour` wrapper around `autonat::Behaviour`: it sees every
//!    `ToSwarm::Dial` (peer, connection id) the server emits, the exact address list of that command
//!    (the Swarm hands it to `handle_pending_outbound_connection`), the same `FromSwarm` events the
//!    server sees (so "the addresses observed for the requester" are known at the very moment a
//!    dial-back is started) and the completion of each dial (`DialFailure` / `ConnectionEstablished`
//!    by connection id).
//!  * the `SimTransport` dial records — every address the server's transport was asked to dial.
//!
//! "At most one dial-back per peer": a dial-back runs from the behaviour's `ToSwarm::Dial` until the Swarm
//! reports the end of that connection id's dial. A second one for the same peer in that span is
//! `C50:concurrent-dial-backs-for-one-peer` unless it is one of two known findings, which are only granted on
//! the strength of what the harness did itself (see `Ended`): it closed the very connection the earlier
//! probe's accepted request arrived on (`Tap` records that connection per probe), or a dial of the server to
//! the peer that was *not* a dial-back (`Op::ServerDial`) failed — and the server ended the earlier probe with
//! the matching event. A probe the server ended for any other reason (e.g. the failure of *another* request of
//! the peer), or dropped silently, does not excuse the second dial-back.
use super::demanded_addr;
use futures::{AsyncReadExt, AsyncWriteExt, FutureExt};
use libp2p_autonat::v1 as autonat;
use libp2p_core::transport::PortUse;
use libp2p_core::Endpoint;
use libp2p_identity::PeerId;
use libp2p_swarm::behaviour::FromSwarm;
use libp2p_swarm::{ConnectionDenied, ConnectionId, NetworkBehaviour, THandler, THandlerInEvent, THandlerOutEvent, ToSwarm};
use multiaddr::{Multiaddr, Protocol};
use proptest::prelude::*;
use serde::{Deserialize, Serialize};
use serde_json::{json, Value};
use simswarm::net::MuxCtl;
use simswarm::probe::cid;
use simswarm::world::{release_phantoms, World};
use std::collections::{BTreeMap, BTreeSet};
use std::sync::{Arc, Mutex};
use std::task::{Context, Poll};
use std::time::{Duration, Instant};
use vcore::gen::{build_addr, Comp};
use vcore::refcodec::{lp, pb_bytes, pb_parse, pb_varint, read_uvarint};
use vcore::simio::Duplex;
use vcore::{Ctx, Outcome};

const N_CLIENTS: u8 = 4;
const MAX_CONNS: usize = 8;
const SHORT_PERIOD_MS: u64 = 40;

fn client(i: u8) -> PeerId {
    vcore::gen::peer(i as usize)
}
fn server_peer() -> PeerId {
    vcore::gen::peer(5)
}
fn is_ip(p: &Protocol) -> bool {
    matches!(p, Protocol::Ip4(_) | Protocol::Ip6(_))
}
fn first_ip(a: &Multiaddr) -> Option<Protocol<'_>> {
    a.iter().find(is_ip)
}
fn strs(v: &[Multiaddr]) -> Vec<String> {
    v.iter().map(|a| a.to_string()).collect()
}

// ---------------------------------------------------------------------------------------------
// generated case

#[derive(Clone, Debug, Serialize, Deserialize)]
pub struct Cfg {
    global_max: u8,
    peer_max: u8,
    max_addrs: u8,
    only_global: bool,
    /// false: throttle period 1 h (never expires within a case); true: SHORT_PERIOD_MS of real time
    short_period: bool,
}

#[derive(Clone, Debug, Serialize, Deserialize)]
pub enum ReqAddr {
    /// IP of the connection the request is sent on + transport suffix (+ /p2p/<client k>)
    Honest { suffix: Vec<Comp>, p2p: Option<u8> },
    /// anything from the alphabet of the pure sub-check
    Free(Vec<Comp>),
}

#[derive(Clone, Debug, Serialize, Deserialize)]
pub enum Op {
    /// a client connects: inbound connection with this send-back ("observed") address
    Connect { peer: u8, observed: Vec<Comp> },
    /// a DialRequest on connection `conn` (pick among live ones); `claim` = peer id in the message
    /// (None = the sender's); `hold` = do not let the server run before the next op; `abandon` =
    /// the client drops its stream right after writing
    /// `stall` = the client's receive window on that stream only has room for the multistream-select
    /// answer: the server's response write blocks until the stream is reset (`Reset`) - "the client resets
    /// the stream before reading the response"
    Request {
        conn: u16,
        claim: Option<u8>,
        addrs: Vec<ReqAddr>,
        hold: bool,
        abandon: bool,
        #[serde(default)]
        stall: bool,
    },
    /// the client resets (drops) one of its request streams whose response it has not read yet
    /// (pick among them; a stalled one or the stream of an accepted request whose dial-back is pending)
    Reset { pick: u16 },
    /// the server's own Swarm (the application / another behaviour - NOT the autonat behaviour) dials client
    /// `peer` at an address that is in no dial-back list: how 0 = PeerCondition::Always, transport resolves ok
    /// at once; 1 = Always, transport error at once; 2 = Always, left open (later `Resolve` ops decide);
    /// 3 = default PeerCondition (DisconnectedAndNotDialing: refused synchronously by the Swarm while the
    /// peer is connected or being dialed)
    ServerDial { peer: u8, how: u8 },
    /// decide one open transport dial of the server: 0 = connected (as the expected peer),
    /// 1 = transport error, 2 = connected but authenticated as another peer
    Resolve { pick: u16, how: u8 },
    /// the remote closes a connection
    Close { pick: u16 },
    /// the observed address of a connection changes
    AddrChange { pick: u16, observed: Vec<Comp> },
    /// real sleep (only acted on in short-period cases)
    Sleep { ms: u8 },
}

#[derive(Clone, Debug, Serialize, Deserialize)]
pub struct WCase {
    cfg: Cfg,
    ops: Vec<Op>,
}

// ---------------------------------------------------------------------------------------------
// tap behaviour

struct LiveConn {
    peer: PeerId,
    addr: Multiaddr,
    relayed: bool,
}

struct DialRec {
    conn: u64,
    peer: Option<PeerId>,
    probe: Option<autonat::ProbeId>,
    /// server-side connection id of the connection the accepted request arrived on (the connection whose
    /// handler reported the last event before the server emitted InboundProbeEvent::Request)
    req_conn: Option<u64>,
    /// observed addresses of the requester's non-relayed connections when the command was emitted
    allowed: Vec<Multiaddr>,
    addrs: Option<Vec<Multiaddr>>,
    finished: Option<&'static str>,
    /// the server reported the end of the probe (response sent / error) before the dial finished, and why
    /// (as far as the harness can tell from what it did itself)
    ended: Option<Ended>,
    /// text of the server's terminal event for the probe (diagnostics)
    ended_event: Option<String>,
    /// while this dial-back was running and its probe not ended, a dial of the server to the same peer that
    /// was NOT started by the autonat behaviour (harness `ServerDial`) failed
    foreign_failure_seen: bool,
    at: Instant,
}

/// Why a probe was ended by the server before its own Swarm dial finished.
#[derive(Clone, Copy, Debug, PartialEq, Eq)]
enum Ended {
    /// the harness had closed the very connection the accepted request arrived on (request-response
    /// reports InboundFailure::ConnectionClosed for that request): known finding
    OwnConnClosedByHarness,
    /// a dial to the peer that was not a dial-back (harness `ServerDial`) failed and the server answered the
    /// probe with DialError
    ForeignDialFailure,
    /// anything else: the probe's own request stream and connection were intact as far as the harness knows
    Other,
}

const SIG_CONCURRENT: &str = "C50:concurrent-dial-backs-for-one-peer";
const SIG_KNOWN_CLOSED: &str = "C50:new-dial-back-while-dial-of-ended-probe-still-pending";
const SIG_FOREIGN: &str = "C50:new-dial-back-after-unrelated-dial-failure-ended-probe";

#[derive(Default)]
struct TapState {
    live: BTreeMap<u64, LiveConn>,
    dials: Vec<DialRec>,
    last_request: Option<(autonat::ProbeId, PeerId, Option<u64>)>,
    /// connection whose handler reported the most recent event to the behaviour
    last_handler_conn: Option<u64>,
    /// server-side ids of connections the harness (playing the remote) has closed
    harness_closed: BTreeSet<u64>,
    /// peers for which a soft (known) concurrent dial-back has happened and which have had an unfinished
    /// dial-back ever since: the server's per-peer bookkeeping is then known to be off (dial outcomes are
    /// attributed to the wrong probe), so further concurrent dial-backs are attributed to the same finding
    taint: BTreeMap<PeerId, &'static str>,
    /// (connection id, peer, address, dialer) for every establishment
    established: Vec<(u64, PeerId, Multiaddr, bool)>,
    viol: Vec<(String, Value)>,
    /// first violation of the kind listed in known_findings.json (second dial-back while the dial of an
    /// already ended probe is still pending): the case keeps running so that the other oracles still
    /// see the rest of the history; reported at the end of the case if nothing else failed
    soft: Option<(String, Value)>,
    refusals: Vec<String>,
}

struct Tap {
    inner: autonat::Behaviour,
    st: Arc<Mutex<TapState>>,
}

impl TapState {
    fn check_addresses(&mut self, k: usize, addresses: &[Multiaddr]) {
        let rec = &self.dials[k];
        let Some(peer) = rec.peer else {
            self.viol.push(("C50:dial-back-without-peer-id".into(), json!({"addresses": strs(addresses)})));
            return;
        };
        let allowed_ips: Vec<Protocol> = rec.allowed.iter().filter_map(first_ip).collect();
        let detail = |what: &str, a: &Multiaddr| {
            json!({"level": "ToSwarm::Dial emitted by the behaviour", "what": what, "address": a.to_string(), "requester": peer.to_string(),
                "observed_addresses_of_requester": strs(&rec.allowed), "dial_addresses": strs(addresses)})
        };
        let mut v = vec![];
        for a in addresses {
            let ips: Vec<Protocol> = a.iter().filter(is_ip).collect();
            if let Some(bad) = ips.iter().find(|ip| !allowed_ips.contains(ip)) {
                v.push(("C50:ip-component-differs-from-observed".to_string(), detail(&format!("IP component {bad} is not an IP observed for the requester"), a)));
            } else if ips.windows(2).any(|w| w[0] != w[1]) {
                v.push(("C50:ip-component-differs-from-observed".to_string(), detail("IP components of one dial-back address differ from each other", a)));
            }
            if a.iter().any(|p| matches!(p, Protocol::P2pCircuit)) {
                v.push(("C50:relay-hop-in-output".to_string(), detail("dial-back address contains /p2p-circuit", a)));
            }
            if a.iter().last() != Some(Protocol::P2p(peer)) {
                v.push(("C50:not-ending-with-requester-peer-id".to_string(), detail("dial-back address does not end with /p2p/<requester>", a)));
            }
        }
        self.viol.extend(v);
    }
}

impl NetworkBehaviour for Tap {
    type ConnectionHandler = <autonat::Behaviour as NetworkBehaviour>::ConnectionHandler;
    type ToSwarm = autonat::Event;

    fn handle_pending_inbound_connection(&mut self, c: ConnectionId, l: &Multiaddr, r: &Multiaddr) -> Result<(), ConnectionDenied> {
        self.inner.handle_pending_inbound_connection(c, l, r)
    }
    fn handle_established_inbound_connection(&mut self, c: ConnectionId, p: PeerId, l: &Multiaddr, r: &Multiaddr) -> Result<THandler<Self>, ConnectionDenied> {
        self.inner.handle_established_inbound_connection(c, p, l, r)
    }
    fn handle_pending_outbound_connection(&mut self, c: ConnectionId, p: Option<PeerId>, addresses: &[Multiaddr], role: Endpoint) -> Result<Vec<Multiaddr>, ConnectionDenied> {
        {
            let mut st = self.st.lock().unwrap();
            if let Some(k) = st.dials.iter().position(|d| d.conn == cid(c)) {
                st.dials[k].addrs = Some(addresses.to_vec());
                st.check_addresses(k, addresses);
            }
        }
        self.inner.handle_pending_outbound_connection(c, p, addresses, role)
    }
    fn handle_established_outbound_connection(&mut self, c: ConnectionId, p: PeerId, a: &Multiaddr, role: Endpoint, pu: PortUse) -> Result<THandler<Self>, ConnectionDenied> {
        self.inner.handle_established_outbound_connection(c, p, a, role, pu)
    }
    fn on_swarm_event(&mut self, event: FromSwarm) {
        {
            let mut st = self.st.lock().unwrap();
            match &event {
                FromSwarm::ConnectionEstablished(e) => {
                    let addr = e.endpoint.get_remote_address().clone();
                    st.live.insert(cid(e.connection_id), LiveConn { peer: e.peer_id, addr: addr.clone(), relayed: e.endpoint.is_relayed() });
                    st.established.push((cid(e.connection_id), e.peer_id, addr, e.endpoint.is_dialer()));
                    if let Some(d) = st.dials.iter_mut().find(|d| d.conn == cid(e.connection_id)) {
                        d.finished.get_or_insert("established");
                    }
                }
                FromSwarm::ConnectionClosed(e) => {
                    st.live.remove(&cid(e.connection_id));
                }
                FromSwarm::AddressChange(e) => {
                    let addr = e.new.get_remote_address().clone();
                    st.live.insert(cid(e.connection_id), LiveConn { peer: e.peer_id, addr, relayed: e.new.is_relayed() });
                }
                FromSwarm::DialFailure(e) => {
                    if let Some(d) = st.dials.iter_mut().find(|d| d.conn == cid(e.connection_id)) {
                        d.finished.get_or_insert("failed");
                    } else if let Some(p) = e.peer_id {
                        // not a dial-back: a dial started through Swarm::dial by the harness
                        for d in st.dials.iter_mut().filter(|d| d.peer == Some(p) && d.finished.is_none() && d.ended.is_none()) {
                            d.foreign_failure_seen = true;
                        }
                    }
                }
                _ => {}
            }
        }
        self.inner.on_swarm_event(event)
    }
    fn on_connection_handler_event(&mut self, p: PeerId, c: ConnectionId, e: THandlerOutEvent<Self>) {
        self.st.lock().unwrap().last_handler_conn = Some(cid(c));
        self.inner.on_connection_handler_event(p, c, e)
    }
    fn poll(&mut self, cx: &mut Context<'_>) -> Poll<ToSwarm<Self::ToSwarm, THandlerInEvent<Self>>> {
        let r = self.inner.poll(cx);
        if let Poll::Ready(action) = &r {
            let mut st = self.st.lock().unwrap();
            match action {
                ToSwarm::Dial { opts } => {
                    let peer = opts.get_peer_id();
                    let allowed: Vec<Multiaddr> = st.live.values().filter(|c| Some(c.peer) == peer && !c.relayed).map(|c| c.addr.clone()).collect();
                    if let Some(p) = peer {
                        let prev = st.dials.iter().filter(|d| d.peer == Some(p) && d.finished.is_none()).map(|d| (d.conn, d.addrs.clone(), d.ended, d.ended_event.clone(), d.req_conn)).last();
                        match prev {
                            None => {
                                st.taint.remove(&p);
                            }
                            Some((pconn, paddrs, ended, ended_event, req_conn)) => {
                                let tainted = st.taint.get(&p).copied();
                                let (sig, what): (&'static str, &str) = match (tainted, ended) {
                                    (Some(sig), _) => (sig, "a dial-back was started for a peer while an earlier dial-back for it was still in progress, after the known finding of this signature had already happened for this peer and dial-backs for it have been pending ever since (follow-up of that finding: dial outcomes are attributed to the wrong probe)"),
                                    (None, Some(Ended::OwnConnClosedByHarness)) => (SIG_KNOWN_CLOSED, "a dial-back was started for a peer while the dial of an earlier dial-back for the same peer was still in progress; the server had ended that earlier probe because the client closed the connection its accepted request had arrived on"),
                                    (None, Some(Ended::ForeignDialFailure)) => (SIG_FOREIGN, "a dial-back was started for a peer while the dial of an earlier dial-back for the same peer was still in progress; the server had ended that earlier probe (DialError) because a dial to the peer that was not a dial-back failed"),
                                    (None, Some(Ended::Other)) => (SIG_CONCURRENT, "a dial-back was started for a peer while the dial of an earlier dial-back for the same peer was still in progress; the server had reported the end of the earlier probe although the connection its accepted request arrived on was intact and no unrelated dial had failed"),
                                    (None, None) => (SIG_CONCURRENT, "a dial-back was started for a peer while another dial-back for the same peer was still in progress (its probe not ended)"),
                                };
                                let d = json!({"what": what, "peer": p.to_string(), "pending_dial_connection": pconn, "pending_dial_addresses": paddrs.as_ref().map(|a| strs(a)),
                                    "pending_probe_ended_by_server_with": ended_event, "harness_classification_of_that_end": ended.map(|e| format!("{e:?}")),
                                    "connection_the_pending_probes_request_arrived_on": req_conn, "connections_closed_by_the_harness": st.harness_closed.iter().collect::<Vec<_>>(),
                                    "new_dial_connection": cid(opts.connection_id())});
                                if sig == SIG_CONCURRENT {
                                    st.viol.push((sig.to_string(), d));
                                } else {
                                    st.taint.insert(p, sig);
                                    st.soft.get_or_insert((sig.to_string(), d));
                                }
                            }
                        }
                    }
                    let (probe, req_conn) = match st.last_request.take() {
                        Some((id, p, c)) if Some(p) == peer => (Some(id), c),
                        _ => (None, None),
                    };
                    st.dials.push(DialRec { conn: cid(opts.connection_id()), peer, probe, req_conn, allowed, addrs: None, finished: None, ended: None, ended_event: None, foreign_failure_seen: false, at: Instant::now() });
                }
                ToSwarm::GenerateEvent(autonat::Event::InboundProbe(ev)) => match ev {
                    autonat::InboundProbeEvent::Request { probe_id, peer, .. } => st.last_request = Some((*probe_id, *peer, st.last_handler_conn)),
                    autonat::InboundProbeEvent::Response { probe_id, .. } | autonat::InboundProbeEvent::Error { probe_id, .. } => {
                        if let autonat::InboundProbeEvent::Error { error, .. } = ev {
                            st.refusals.push(format!("{error:?}"));
                        }
                        let dial_error = matches!(ev, autonat::InboundProbeEvent::Error { error: autonat::InboundProbeError::Response(autonat::ResponseError::DialError), .. });
                        let inbound_failure = matches!(ev, autonat::InboundProbeEvent::Error { error: autonat::InboundProbeError::InboundRequest(_), .. });
                        let text: String = format!("{ev:?}").chars().take(160).collect();
                        let closed = st.harness_closed.clone();
                        for d in st.dials.iter_mut().filter(|d| d.probe == Some(*probe_id) && d.finished.is_none() && d.ended.is_none()) {
                            d.ended = Some(if dial_error && d.foreign_failure_seen {
                                Ended::ForeignDialFailure
                            } else if inbound_failure && d.req_conn.map(|c| closed.contains(&c)).unwrap_or(false) {
                                Ended::OwnConnClosedByHarness
                            } else {
                                Ended::Other
                            });
                            d.ended_event = Some(text.clone());
                        }
                    }
                },
                _ => {}
            }
        }
        r
    }
}

// ---------------------------------------------------------------------------------------------
// hand-played AutoNAT client (independent encoder / decoder)

fn encode_request(claimed: PeerId, addrs: &[Multiaddr]) -> Vec<u8> {
    // Message{ type(1)=DIAL(0), dial(2)=Dial{ peer(1)=PeerInfo{ id(1), addrs(2)* } } }
    let mut info = pb_bytes(1, &claimed.to_bytes());
    for a in addrs {
        info.extend(pb_bytes(2, &a.to_vec()));
    }
    let dial = pb_bytes(1, &info);
    let mut msg = pb_varint(1, 0);
    msg.extend(pb_bytes(2, &dial));
    let mut out = lp(b"/multistream/1.0.0\n");
    out.extend(lp(b"/libp2p/autonat/1.0.0\n"));
    out.extend(lp(&msg));
    out
}

#[derive(Clone, Debug, PartialEq)]
enum Resp {
    /// status, status text, addr
    Msg(u64, Option<String>, Option<Multiaddr>),
    Garbage(&'static str),
}

/// Parses what the server wrote so far; None = not complete yet.
fn parse_response(buf: &[u8]) -> Option<Resp> {
    let mut b = buf;
    let mut frames = vec![];
    while frames.len() < 3 {
        let (len, n) = read_uvarint(b)?;
        if b.len() < n + len as usize {
            return None;
        }
        frames.push(b[n..n + len as usize].to_vec());
        b = &b[n + len as usize..];
    }
    if frames[0] != b"/multistream/1.0.0\n" || frames[1] != b"/libp2p/autonat/1.0.0\n" {
        return Some(Resp::Garbage("negotiation"));
    }
    let Some(fields) = pb_parse(&frames[2]) else { return Some(Resp::Garbage("protobuf")) };
    let ty = fields.iter().find(|f| f.0 == 1 && f.1 == 0).map(|f| u64::from_le_bytes(f.2.clone().try_into().unwrap_or([0; 8])));
    if ty != Some(1) {
        return Some(Resp::Garbage("type"));
    }
    let Some(dr) = fields.iter().find(|f| f.0 == 3 && f.1 == 2) else { return Some(Resp::Garbage("no dialResponse")) };
    let Some(dr) = pb_parse(&dr.2) else { return Some(Resp::Garbage("dialResponse")) };
    let status = dr.iter().find(|f| f.0 == 1 && f.1 == 0).map(|f| u64::from_le_bytes(f.2.clone().try_into().unwrap_or([0; 8])));
    let text = dr.iter().find(|f| f.0 == 2 && f.1 == 2).map(|f| String::from_utf8_lossy(&f.2).to_string());
    let addr = dr.iter().find(|f| f.0 == 3 && f.1 == 2).and_then(|f| Multiaddr::try_from(f.2.clone()).ok());
    match status {
        Some(s) => Some(Resp::Msg(s, text, addr)),
        None => Some(Resp::Garbage("no status")),
    }
}

fn read_available(d: &mut Duplex, into: &mut Vec<u8>) {
    let mut buf = [0u8; 512];
    while let Some(Ok(n)) = d.read(&mut buf).now_or_never() {
        if n == 0 {
            break;
        }
        into.extend_from_slice(&buf[..n]);
    }
}

// ---------------------------------------------------------------------------------------------
// interpreter

struct Conn {
    peer: u8,
    observed: Multiaddr,
    /// control handle of the server's side of the muxer
    ctl: MuxCtl,
    alive: bool,
    dial_back: bool,
    /// the server's ConnectionId of this connection (None if the establishment was not observed)
    sid: Option<u64>,
}

struct Req {
    sender: u8,
    honest_claim: bool,
    stream: Option<Duplex>,
    rx: Vec<u8>,
    resp: Option<Resp>,
    /// has >= 1 address that can never be valid and >= 1 single-IP address without relay / foreign p2p
    mixed: bool,
    attributed: bool,
    /// the client's receive window is too small for the response and the harness never reads from it
    stalled: bool,
    /// at the time it was sent the harness saw an unfinished dial-back for the sender
    sent_while_dialing: bool,
    /// at the time it was sent the sender / the server was at its throttle limit (long period only)
    sent_at_peer_limit: bool,
    sent_at_global_limit: bool,
    conn_ip: Option<Multiaddr>,
}

struct Accepted {
    peer: PeerId,
    lo: Instant,
    hi: Instant,
}

struct Run {
    w: World<Tap>,
    st: Arc<Mutex<TapState>>,
    cfg: Cfg,
    conns: Vec<Conn>,
    reqs: Vec<Req>,
    /// index of the first request of the current (not yet settled) batch
    batch_from: usize,
    batch_start: Option<Instant>,
    seen_dials: usize,
    seen_tdials: usize,
    seen_est: usize,
    accepted: Vec<Accepted>,
    /// links resolved ok and not yet matched to an establishment: (link, address, peer)
    ok_links: Vec<(usize, Multiaddr, u8)>,
    /// addresses (with /p2p) the harness made the server's Swarm dial itself (`ServerDial`)
    harness_dials: Vec<Multiaddr>,
    /// peers for which, during a still running dial-back, (1) the stalled stream of a refused request was
    /// reset / (2) an unrelated outbound connection of the server was established / (3) an unrelated dial of
    /// the server failed
    armed: [BTreeSet<u8>; 3],
    labels: BTreeSet<&'static str>,
    fail: Option<(String, Value)>,
    unsettled: bool,
    n_refused_busy: u32,
    n_refused_throttle: u32,
    n_mixed_accept: u32,
    n_accept: u32,
}

fn period(cfg: &Cfg) -> Duration {
    if cfg.short_period {
        Duration::from_millis(SHORT_PERIOD_MS)
    } else {
        Duration::from_secs(3600)
    }
}

impl Run {
    fn new(cfg: &Cfg) -> Run {
        let st: Arc<Mutex<TapState>> = Default::default();
        let st2 = st.clone();
        let acfg = autonat::Config {
            timeout: Duration::from_secs(3600),
            boot_delay: Duration::from_secs(3600),
            refresh_interval: Duration::from_secs(3600),
            retry_interval: Duration::from_secs(3600),
            throttle_server_period: Duration::from_secs(3600),
            use_connected: false,
            confidence_max: 3,
            max_peer_addresses: cfg.max_addrs as usize,
            throttle_clients_global_max: cfg.global_max as usize,
            throttle_clients_peer_max: cfg.peer_max as usize,
            throttle_clients_period: period(cfg),
            only_global_ips: cfg.only_global,
        };
        let mut w: World<Tap> = World::new(
            &[server_peer()],
            move |_, _| Tap { inner: autonat::Behaviour::new(server_peer(), acfg.clone()), st: st2.clone() },
            |c| c.with_idle_connection_timeout(Duration::from_secs(3600)),
        );
        w.listen(0, Multiaddr::empty().with(Protocol::Memory(1)));
        Run {
            w,
            st,
            cfg: cfg.clone(),
            conns: vec![],
            reqs: vec![],
            batch_from: 0,
            batch_start: None,
            seen_dials: 0,
            seen_tdials: 0,
            seen_est: 0,
            accepted: vec![],
            ok_links: vec![],
            harness_dials: vec![],
            armed: Default::default(),
            labels: BTreeSet::new(),
            fail: None,
            unsettled: false,
            n_refused_busy: 0,
            n_refused_throttle: 0,
            n_mixed_accept: 0,
            n_accept: 0,
        }
    }

    fn live_conns(&self) -> Vec<usize> {
        self.conns.iter().enumerate().filter(|(_, c)| c.alive).map(|(i, _)| i).collect()
    }

    fn set_fail(&mut self, sig: &str, detail: Value) {
        if self.fail.is_none() {
            self.fail = Some((sig.to_string(), detail));
        }
    }

    /// Let the server run to quiescence, then evaluate everything that happened.
    fn settle(&mut self) {
        if !self.w.settle(400, &mut |_, _, _| {}) {
            self.unsettled = true;
            return;
        }
        let now = Instant::now();
        let st_arc = self.st.clone();
        let mut st = st_arc.lock().unwrap();
        if let Some((sig, d)) = st.viol.first().cloned() {
            drop(st);
            self.set_fail(&sig, d);
            return;
        }

        // new connections of the server: dial-back connections become client connections too
        for (sid, peer, addr, dialer) in st.established[self.seen_est..].iter() {
            if !*dialer {
                // inbound: the connection the running `Connect` op has just pushed
                if let Some(c) = self.conns.iter_mut().rev().find(|c| !c.dial_back && c.sid.is_none() && client(c.peer) == *peer && c.observed == *addr) {
                    c.sid = Some(*sid);
                }
                continue;
            }
            if let Some(pos) = self.ok_links.iter().position(|(_, a, p)| a == addr && client(*p) == *peer) {
                let (l, a, p) = self.ok_links.remove(pos);
                if self.conns.len() < MAX_CONNS + 4 {
                    self.conns.push(Conn { peer: p, observed: a, ctl: self.w.links[l].a.clone(), alive: true, dial_back: true, sid: Some(*sid) });
                }
            }
        }
        self.seen_est = st.established.len();

        // new dial commands
        let batch_senders: Vec<PeerId> = self.reqs[self.batch_from..].iter().map(|r| client(r.sender)).collect();
        let lo = self.batch_start.unwrap_or(now);
        let new_dials: Vec<(usize, Option<PeerId>, Instant, usize, usize)> =
            st.dials.iter().enumerate().skip(self.seen_dials).map(|(k, d)| (k, d.peer, d.at, d.addrs.as_ref().map(|a| a.len()).unwrap_or(0), d.allowed.len())).collect();
        let mut fails = vec![];
        for (k, peer, at, n_addrs, _) in &new_dials {
            let Some(peer) = *peer else { continue };
            if !batch_senders.contains(&peer) {
                fails.push((
                    "C50:dial-back-to-non-requester",
                    json!({"what": "the server started a dial-back for a peer that did not send a dial request", "dialed_peer": peer.to_string(), "requesters": batch_senders.iter().map(|p| p.to_string()).collect::<Vec<_>>(), "addresses": st.dials[*k].addrs.as_ref().map(|a| strs(a))}),
                ));
            }
            // throttling: entries that are certainly still inside the period when this one was admitted
            let p = period(&self.cfg);
            let inside: Vec<&Accepted> = self.accepted.iter().filter(|a| a.lo + p > *at).collect();
            let same_peer = inside.iter().filter(|a| a.peer == peer).count();
            if inside.len() + 1 > self.cfg.global_max as usize {
                fails.push((
                    "C50:global-throttle-exceeded",
                    json!({"what": "more dial-backs started within one throttle period than throttle_clients_global_max", "global_max": self.cfg.global_max, "dial_backs_in_period_including_this": inside.len() + 1, "period_ms": p.as_millis() as u64, "peer": peer.to_string()}),
                ));
            }
            if same_peer + 1 > self.cfg.peer_max as usize {
                fails.push((
                    "C50:peer-throttle-exceeded",
                    json!({"what": "more dial-backs started for one peer within one throttle period than throttle_clients_peer_max", "peer_max": self.cfg.peer_max, "dial_backs_for_peer_in_period_including_this": same_peer + 1, "period_ms": p.as_millis() as u64, "peer": peer.to_string()}),
                ));
            }
            self.accepted.push(Accepted { peer, lo, hi: *at });
            self.n_accept += 1;
            self.labels.insert("dial_back_started");
            if *n_addrs >= 2 {
                self.labels.insert("dial_back_with>=2_addresses");
            }
            if *n_addrs == self.cfg.max_addrs as usize {
                self.labels.insert("dial_back_at_address_cap");
            }
            // attribute to the first not yet attributed request of that peer in the batch (labels only)
            if let Some(r) = self.reqs[self.batch_from..].iter_mut().find(|r| client(r.sender) == peer && !r.attributed && r.honest_claim) {
                r.attributed = true;
                if r.mixed {
                    self.n_mixed_accept += 1;
                    self.labels.insert("accepted_request_with_valid_and_invalid_addresses");
                }
                if let (Some(ci), Some(addrs)) = (&r.conn_ip, &st.dials[*k].addrs) {
                    if addrs.iter().any(|a| first_ip(a) != first_ip(ci)) {
                        self.labels.insert("dial_back_ip_of_another_connection_of_the_peer");
                    }
                }
            }
        }
        let _ = self.accepted.last().map(|a| a.hi);
        self.seen_dials = st.dials.len();
        for r in &st.refusals {
            if r.contains("BadRequest") {
                self.labels.insert("server_event:bad_request");
            } else if r.contains("DialRefused") {
                self.labels.insert("server_event:dial_refused");
            } else if r.contains("DialError") {
                self.labels.insert("server_event:dial_error");
            } else if r.contains("InboundRequest") {
                self.labels.insert("server_event:inbound_request_failed");
            }
        }
        st.refusals.clear();

        // transport-level: every address the transport was asked to dial belongs to a dial command
        let n = self.w.n_dials(0);
        for d in self.seen_tdials..n {
            let a = self.w.dial_addr(0, d);
            if self.harness_dials.contains(&a) {
                // not a dial-back: Swarm::dial by the harness (never an address of a dial-back command)
                continue;
            }
            let known = st.dials.iter().any(|r| match (&r.addrs, r.peer) {
                (Some(list), Some(p)) => list.iter().any(|x| x == &a || x.clone().with_p2p(p).ok().as_ref() == Some(&a)),
                _ => false,
            });
            if !known {
                fails.push(("C50:transport-dial-outside-dial-commands", json!({"what": "the server's transport was asked to dial an address that is in no ToSwarm::Dial command of the behaviour", "address": a.to_string()})));
            }
            if a.iter().any(|p| matches!(p, Protocol::P2pCircuit)) {
                fails.push(("C50:relay-hop-in-output", json!({"level": "transport dial", "address": a.to_string()})));
            }
            if !matches!(a.iter().last(), Some(Protocol::P2p(p)) if (0..N_CLIENTS).any(|i| client(i) == p)) {
                fails.push(("C50:not-ending-with-requester-peer-id", json!({"level": "transport dial", "address": a.to_string()})));
            }
        }
        self.seen_tdials = n;
        drop(st);
        if let Some((sig, d)) = fails.into_iter().next() {
            self.set_fail(sig, d);
            return;
        }

        // responses
        let from = self.batch_from;
        for (i, r) in self.reqs.iter_mut().enumerate() {
            if r.resp.is_some() {
                continue;
            }
            if r.stalled {
                continue;
            }
            let Some(s) = r.stream.as_mut() else { continue };
            read_available(s, &mut r.rx);
            if let Some(resp) = parse_response(&r.rx) {
                match &resp {
                    Resp::Msg(0, _, _) => {
                        self.labels.insert("response:ok");
                    }
                    Resp::Msg(100, _, _) => {
                        self.labels.insert("response:dial_error");
                    }
                    Resp::Msg(101, text, _) => {
                        self.labels.insert("response:dial_refused");
                        // a refusal read in the very batch the request was sent in
                        if i >= from && r.honest_claim && !r.attributed {
                            let t = text.clone().unwrap_or_default();
                            if r.sent_while_dialing {
                                self.n_refused_busy += 1;
                                self.labels.insert("refused_while_dial_back_ongoing");
                            } else if r.sent_at_peer_limit || r.sent_at_global_limit {
                                self.n_refused_throttle += 1;
                                self.labels.insert(if r.sent_at_peer_limit { "refused_at_peer_throttle_limit" } else { "refused_at_global_throttle_limit" });
                            } else if t.contains("no dialable") {
                                self.labels.insert("refused_no_dialable_address");
                            } else if t.contains("blocked observed") {
                                self.labels.insert("refused_no_observed_address");
                            } else if t.contains("too many") {
                                // short period: the harness cannot know the limit state exactly
                                self.labels.insert("refused_throttled_short_period");
                            }
                        }
                    }
                    Resp::Msg(200, _, _) => {
                        self.labels.insert("response:bad_request");
                    }
                    Resp::Msg(_, _, _) => {
                        self.labels.insert("response:other_status");
                    }
                    Resp::Garbage(_) => {
                        self.labels.insert("response:unparsable");
                    }
                }
                r.resp = Some(resp);
                r.stream = None;
            }
        }
        self.batch_from = self.reqs.len();
        self.batch_start = None;
    }

    fn exec(&mut self, op: &Op) {
        match op {
            Op::Connect { peer, observed } => {
                if self.conns.len() >= MAX_CONNS {
                    return;
                }
                let observed = build_addr(observed);
                let Some(k) = self.w.incoming_phantom(0, 0, observed.clone()) else { return };
                self.settle();
                self.w.resolve_incoming(k, Some(client(*peer)));
                let ctl = self.w.incoming[k].ctl.clone();
                self.conns.push(Conn { peer: *peer, observed: observed.clone(), ctl, alive: true, dial_back: false, sid: None });
                self.settle();
                if matches!(first_ip(&observed), Some(Protocol::Ip6(_))) {
                    self.labels.insert("conn_observed_ip6");
                }
                if observed.iter().any(|p| matches!(p, Protocol::P2pCircuit)) {
                    self.labels.insert("conn_relayed");
                }
                let same: BTreeSet<String> = self.conns.iter().filter(|c| c.alive && c.peer == *peer).filter_map(|c| first_ip(&c.observed).map(|p| p.to_string())).collect();
                if same.len() >= 2 {
                    self.labels.insert("peer_with_connections_from_different_ips");
                }
            }
            Op::Request { conn, claim, addrs, hold, abandon, stall } => {
                let live = self.live_conns();
                if live.is_empty() {
                    return;
                }
                let c = live[vcore::pick(*conn, live.len())];
                let sender = self.conns[c].peer;
                let claimed = claim.map(client).unwrap_or(client(sender));
                let ip: Protocol<'static> = first_ip(&self.conns[c].observed).map(|p| p.acquire()).unwrap_or(Protocol::Ip4([1, 2, 3, 4].into()));
                let list: Vec<Multiaddr> = addrs
                    .iter()
                    .map(|a| match a {
                        ReqAddr::Honest { suffix, p2p } => {
                            let mut m = Multiaddr::empty().with(ip.clone());
                            for s in suffix {
                                m.push(s.to_protocol());
                            }
                            if let Some(k) = p2p {
                                m.push(Protocol::P2p(client(*k)));
                            }
                            m
                        }
                        ReqAddr::Free(c) => build_addr(c),
                    })
                    .collect();
                let me = client(sender);
                let never_valid = |a: &Multiaddr| a.iter().any(|p| matches!(p, Protocol::P2pCircuit)) || a.iter().any(|p| matches!(p, Protocol::P2p(x) if x != me)) || !a.iter().any(|p| is_ip(&p));
                let plausible = |a: &Multiaddr| !never_valid(a) && a.iter().filter(is_ip).count() == 1;
                let mixed = list.iter().any(never_valid) && list.iter().any(plausible);
                let bytes = encode_request(claimed, &list);
                if bytes.len() > 1024 + 45 {
                    self.labels.insert("request_over_codec_limit");
                }
                if list.len() > self.cfg.max_addrs as usize {
                    self.labels.insert("request_with_more_addresses_than_cap");
                }
                if self.conns[c].dial_back {
                    self.labels.insert("request_on_dial_back_connection");
                }
                if claimed != me {
                    self.labels.insert("request_claiming_other_peer_id");
                }
                let dial_pending = self.st.lock().unwrap().dials.iter().any(|d| d.peer == Some(me) && d.finished.is_none());
                let (busy, at_peer, at_global) = {
                    let st = self.st.lock().unwrap();
                    let busy = st.dials.iter().any(|d| d.peer == Some(me) && d.finished.is_none() && d.ended.is_none());
                    let long = !self.cfg.short_period;
                    let at_peer = long && self.accepted.iter().filter(|a| a.peer == me).count() >= self.cfg.peer_max as usize;
                    let at_global = long && self.accepted.len() >= self.cfg.global_max as usize;
                    (busy, at_peer, at_global)
                };
                if self.batch_start.is_none() {
                    self.batch_start = Some(Instant::now());
                }
                let mut stream = self.conns[c].ctl.remote_open();
                let stalled = *stall && !*abandon;
                if stalled {
                    // room for the multistream-select answer (20 + 23 bytes) and one more byte
                    stream.set_capacity_incoming(Some(44));
                    self.labels.insert("request_stream_stalled");
                }
                for (k, l) in ["request_after_reset_of_refused_request_during_dial_back", "request_after_unrelated_outbound_connection_during_dial_back", "request_after_unrelated_dial_failure_during_dial_back"].into_iter().enumerate() {
                    if self.armed[k].contains(&sender) {
                        // (after an unrelated dial failure the unchanged server has ended the probe: its dial is what is pending)
                        let pending = if k == 2 { dial_pending } else { busy };
                        if pending && claimed == me && !stalled && !*abandon {
                            self.labels.insert(l);
                        } else if !pending {
                            self.armed[k].remove(&sender);
                        }
                    }
                }
                let _ = stream.write_all(&bytes).now_or_never();
                self.reqs.push(Req {
                    sender,
                    honest_claim: claimed == me,
                    stream: if *abandon { None } else { Some(stream) },
                    rx: vec![],
                    resp: None,
                    mixed,
                    attributed: false,
                    stalled,
                    sent_while_dialing: busy,
                    sent_at_peer_limit: at_peer,
                    sent_at_global_limit: at_global,
                    conn_ip: Some(self.conns[c].observed.clone()),
                });
                if *abandon {
                    self.labels.insert("request_stream_abandoned");
                }
                if *hold {
                    self.labels.insert("requests_batched");
                } else {
                    self.settle();
                }
            }
            Op::Resolve { pick, how } => {
                let open = self.w.open_dials(0);
                if open.is_empty() {
                    return;
                }
                let d = open[vcore::pick(*pick, open.len())];
                let addr = self.w.dial_addr(0, d);
                let expected = match addr.iter().last() {
                    Some(Protocol::P2p(p)) => (0..N_CLIENTS).find(|i| client(*i) == p),
                    _ => None,
                };
                match (how, expected) {
                    (0, Some(e)) => {
                        if let Some(l) = self.w.resolve_ok(0, d, client(e), None) {
                            self.ok_links.push((l, addr, e));
                            self.labels.insert("dial_resolved_ok");
                        }
                    }
                    (2, Some(e)) => {
                        self.w.resolve_ok(0, d, client((e + 1) % N_CLIENTS), None);
                        self.labels.insert("dial_resolved_wrong_peer");
                    }
                    _ => {
                        self.w.resolve_err(0, d);
                        self.labels.insert("dial_resolved_err");
                    }
                }
                self.settle();
            }
            Op::Close { pick } => {
                let live = self.live_conns();
                if live.is_empty() {
                    return;
                }
                let c = live[vcore::pick(*pick, live.len())];
                let peer = client(self.conns[c].peer);
                if self.st.lock().unwrap().dials.iter().any(|d| d.peer == Some(peer) && d.finished.is_none()) {
                    self.labels.insert("connection_closed_during_dial_back");
                }
                if let Some(sid) = self.conns[c].sid {
                    self.st.lock().unwrap().harness_closed.insert(sid);
                }
                self.conns[c].ctl.remote_close();
                self.conns[c].alive = false;
                self.settle();
            }
            Op::AddrChange { pick, observed } => {
                let live = self.live_conns();
                if live.is_empty() {
                    return;
                }
                let c = live[vcore::pick(*pick, live.len())];
                let a = build_addr(observed);
                self.conns[c].ctl.address_change(a.clone());
                self.conns[c].observed = a;
                self.labels.insert("address_change");
                self.settle();
            }
            Op::Reset { pick } => {
                let cand: Vec<usize> = self.reqs.iter().enumerate().filter(|(_, r)| r.stream.is_some() && r.resp.is_none()).map(|(i, _)| i).collect();
                if cand.is_empty() {
                    return;
                }
                let i = cand[vcore::pick(*pick, cand.len())];
                let sender = self.reqs[i].sender;
                let me = client(sender);
                let busy = self.st.lock().unwrap().dials.iter().any(|d| d.peer == Some(me) && d.finished.is_none() && d.ended.is_none());
                if self.reqs[i].stalled {
                    self.labels.insert("stalled_request_stream_reset");
                    if busy && self.reqs[i].sent_while_dialing && self.reqs[i].honest_claim {
                        self.labels.insert("stalled_stream_of_request_sent_during_dial_back_reset");
                        self.armed[0].insert(sender);
                    }
                } else {
                    self.labels.insert("unanswered_request_stream_reset");
                }
                self.reqs[i].stream = None;
                self.settle();
            }
            Op::ServerDial { peer, how } => {
                let me = client(*peer);
                let ip: Protocol<'static> = self
                    .conns
                    .iter()
                    .filter(|c| c.alive && c.peer == *peer && !c.observed.iter().any(|p| matches!(p, Protocol::P2pCircuit)))
                    .find_map(|c| first_ip(&c.observed).map(|p| p.acquire()))
                    .unwrap_or(Protocol::Ip4([203, 0, 113, 9].into()));
                let addr = Multiaddr::empty().with(ip).with(Protocol::Tcp(7000 + self.harness_dials.len() as u16)).with(Protocol::P2p(me));
                let (busy, clash) = {
                    let st = self.st.lock().unwrap();
                    (st.dials.iter().any(|d| d.peer == Some(me) && d.finished.is_none() && d.ended.is_none()), st.dials.iter().any(|d| d.addrs.as_ref().map(|l| l.contains(&addr)).unwrap_or(false)))
                };
                if clash || self.harness_dials.len() >= 6 {
                    return;
                }
                let opts = libp2p_swarm::dial_opts::DialOpts::peer_id(me).addresses(vec![addr.clone()]);
                let opts = if *how == 3 { opts.build() } else { opts.condition(libp2p_swarm::dial_opts::PeerCondition::Always).build() };
                self.harness_dials.push(addr.clone());
                let before = self.w.n_dials(0);
                match self.w.dial(0, opts) {
                    Err(_) => {
                        self.labels.insert("server_dial_refused_synchronously");
                        if busy {
                            self.labels.insert("unrelated_dial_failed_during_dial_back");
                            self.armed[2].insert(*peer);
                        }
                    }
                    Ok(_) => {
                        let d = (before..self.w.n_dials(0)).find(|d| self.w.dial_addr(0, *d) == addr);
                        match (how, d) {
                            (0, Some(d)) => {
                                if let Some(l) = self.w.resolve_ok(0, d, me, None) {
                                    self.ok_links.push((l, addr.clone(), *peer));
                                    self.labels.insert("server_dial_connected");
                                    if busy {
                                        self.labels.insert("unrelated_outbound_connection_during_dial_back");
                                        self.armed[1].insert(*peer);
                                    }
                                }
                            }
                            (1, Some(d)) => {
                                self.w.resolve_err(0, d);
                                self.labels.insert("server_dial_failed");
                                if busy {
                                    self.labels.insert("unrelated_dial_failed_during_dial_back");
                                    self.armed[2].insert(*peer);
                                }
                            }
                            _ => {
                                self.labels.insert("server_dial_left_open");
                            }
                        }
                    }
                }
                self.settle();
            }
            Op::Sleep { ms } => {
                if self.cfg.short_period {
                    std::thread::sleep(Duration::from_millis(*ms as u64));
                    self.labels.insert("slept");
                }
            }
        }
    }
}

fn check(case: &WCase) -> Outcome {
    let mut run = Run::new(&case.cfg);
    run.settle();
    for op in &case.ops {
        run.exec(op);
        if run.fail.is_some() || run.unsettled {
            break;
        }
    }
    if run.fail.is_none() && !run.unsettled {
        run.settle();
    }
    if run.cfg.short_period {
        run.labels.insert("cfg:short_period");
        if run.accepted.len() >= 3 {
            run.labels.insert("short_period_with>=3_dial_backs");
        }
    }
    if run.cfg.only_global {
        run.labels.insert("cfg:only_global_ips");
    }
    if run.cfg.global_max == 0 || run.cfg.peer_max == 0 {
        run.labels.insert("cfg:a_limit_is_zero");
    }
    if run.st.lock().unwrap().dials.iter().any(|d| d.finished.is_none()) {
        run.labels.insert("dial_never_resolved");
    }
    let soft = run.st.lock().unwrap().soft.take();
    let Run { w, fail, unsettled, labels, n_refused_busy, n_refused_throttle, n_mixed_accept, n_accept, .. } = run;
    w.exec.clear();
    drop(w);
    release_phantoms();
    if let Some((sig, d)) = fail {
        return Outcome::fail(sig, d);
    }
    if unsettled {
        return Outcome::Inconclusive("world did not settle within the round bound".into());
    }
    if let Some((sig, d)) = soft {
        return Outcome::fail(sig, d);
    }
    let nontrivial = (n_refused_busy + n_refused_throttle) > 0 && n_mixed_accept > 0 && n_accept > 0;
    Outcome::pass_l(nontrivial, labels.into_iter().collect())
}

// ---------------------------------------------------------------------------------------------
// strategies

fn observed_addr() -> impl Strategy<Value = Vec<Comp>> {
    prop_oneof![
        12 => (vcore::gen::ip_comp(), vcore::gen::transport_suffix()).prop_map(|(h, t)| {
            let mut v = vec![h];
            v.extend(t);
            v
        }),
        // a relayed connection: the IP is the relay's
        2 => (vcore::gen::ip_comp(), 0u8..N_CLIENTS).prop_map(|(h, r)| vec![h, Comp::Tcp(4001), Comp::P2p(r), Comp::P2pCircuit]),
        1 => Just(vec![Comp::Memory(7)]),
    ]
}

fn req_addr() -> impl Strategy<Value = ReqAddr> {
    prop_oneof![
        3 => (vcore::gen::transport_suffix(), proptest::option::weighted(0.4, 0u8..N_CLIENTS)).prop_map(|(suffix, p2p)| ReqAddr::Honest { suffix, p2p }),
        5 => demanded_addr().prop_map(ReqAddr::Free),
    ]
}

fn client_idx() -> impl Strategy<Value = u8> {
    prop_oneof![4 => Just(0u8), 3 => Just(1u8), 2 => Just(2u8), 1 => Just(3u8)]
}

fn op() -> impl Strategy<Value = Op> {
    prop_oneof![
        4 => (client_idx(), observed_addr()).prop_map(|(peer, observed)| Op::Connect { peer, observed }),
        12 => (any::<u16>(), proptest::option::weighted(0.08, 0u8..N_CLIENTS), proptest::collection::vec(req_addr(), 0..7), proptest::bool::weighted(0.15), proptest::bool::weighted(0.08), proptest::bool::weighted(0.08))
            .prop_map(|(conn, claim, mut addrs, hold, abandon, stall)| {
                if addrs.len() >= 4 {
                    let d = addrs[0].clone();
                    addrs.push(d);
                }
                Op::Request { conn, claim, addrs, hold, abandon, stall }
            }),
        1 => prop_oneof![Just(u16::MAX), any::<u16>()].prop_map(|pick| Op::Reset { pick }),
        1 => (client_idx(), prop_oneof![3 => Just(0u8), 2 => Just(1u8), 2 => Just(2u8), 1 => Just(3u8)]).prop_map(|(peer, how)| Op::ServerDial { peer, how }),
        6 => (any::<u16>(), prop_oneof![3 => Just(0u8), 3 => Just(1u8), 1 => Just(2u8)]).prop_map(|(pick, how)| Op::Resolve { pick, how }),
        2 => any::<u16>().prop_map(|pick| Op::Close { pick }),
        1 => (any::<u16>(), observed_addr()).prop_map(|(pick, observed)| Op::AddrChange { pick, observed }),
        2 => prop_oneof![Just(5u8), Just(25u8), Just(45u8)].prop_map(|ms| Op::Sleep { ms }),
    ]
}

fn cfg() -> impl Strategy<Value = Cfg> {
    (prop_oneof![1 => Just(0u8), 3 => Just(1u8), 4 => Just(2u8), 4 => Just(3u8)], prop_oneof![1 => Just(0u8), 5 => Just(1u8), 5 => Just(2u8)], prop_oneof![3 => 1u8..=3, 1 => Just(16u8)], proptest::bool::weighted(0.25), proptest::bool::weighted(0.12)).prop_map(|(global_max, peer_max, max_addrs, only_global, short_period)| Cfg {
        global_max,
        peer_max,
        max_addrs,
        only_global,
        short_period,
    })
}

/// Structured sliding-window histories for the short (real-time) throttle period: four peers with one
/// connection each; steps of (real sleep, honest request on some connection, usually fail the resulting
/// dial at once so that the peer is free again).
fn window_case() -> impl Strategy<Value = WCase> {
    let step = (prop_oneof![3 => Just(0u8), 1 => Just(5u8), 2 => Just(15u8), 2 => Just(30u8), 1 => Just(50u8)], any::<u16>(), proptest::bool::weighted(0.85));
    (1u8..=3, 1u8..=2, proptest::collection::vec(step, 5..11)).prop_map(|(global_max, peer_max, steps)| {
        let mut ops = vec![];
        for i in 0..N_CLIENTS {
            ops.push(Op::Connect { peer: i, observed: vec![Comp::Ip4(vcore::gen::PUBLIC_V4[i as usize]), Comp::Tcp(4001)] });
        }
        for (ms, conn, resolve) in steps {
            if ms > 0 {
                ops.push(Op::Sleep { ms });
            }
            ops.push(Op::Request { conn, claim: None, addrs: vec![ReqAddr::Honest { suffix: vec![Comp::Tcp(1)], p2p: None }], hold: false, abandon: false, stall: false });
            if resolve {
                ops.push(Op::Resolve { pick: 0, how: 1 });
            }
        }
        WCase { cfg: Cfg { global_max, peer_max, max_addrs: 2, only_global: false, short_period: true }, ops }
    })
}

/// Structured histories around one running dial-back: peer 0 (one or two connections) gets a request
/// accepted whose dial-back is left unresolved; then, while it is pending,
///  0: a further request of the peer on a stalled stream (refused; the response cannot be delivered) which the
///     client then resets, 1: the server's Swarm connects to the peer at an unrelated address, 2: an unrelated
///     dial of the server to the peer fails (transport error / refused by the default PeerCondition);
/// then a further request of the peer; generic noise ops in between and after.
fn probe_case() -> impl Strategy<Value = WCase> {
    let honest = || Op::Request { conn: 0, claim: None, addrs: vec![ReqAddr::Honest { suffix: vec![Comp::Tcp(1)], p2p: None }], hold: false, abandon: false, stall: false };
    (
        (2u8..=3, 1u8..=2, proptest::bool::weighted(0.3)),
        (0u8..3, proptest::bool::ANY, prop_oneof![Just(0u16), Just(30000u16)], prop_oneof![Just(0u16), Just(30000u16)], prop_oneof![Just(1u8), Just(3u8)]),
        proptest::collection::vec(op(), 0..3),
        proptest::collection::vec(op(), 0..2),
        proptest::collection::vec(op(), 0..6),
    )
        .prop_map(move |((global_max, peer_max, only_global), (variant, two_conns, c2, c3, fail_how), noise1, noise2, tail)| {
            let mut ops = vec![Op::Connect { peer: 0, observed: vec![Comp::Ip4(vcore::gen::PUBLIC_V4[0]), Comp::Tcp(4001)] }];
            if two_conns {
                ops.push(Op::Connect { peer: 0, observed: vec![Comp::Ip4(vcore::gen::PUBLIC_V4[1]), Comp::Udp(443), Comp::QuicV1] });
            }
            ops.push(Op::Connect { peer: 1, observed: vec![Comp::Ip4(vcore::gen::PUBLIC_V4[2]), Comp::Tcp(4001)] });
            ops.push(honest());
            ops.extend(noise1);
            match variant {
                0 => {
                    ops.push(Op::Request { conn: c2, claim: None, addrs: vec![ReqAddr::Honest { suffix: vec![Comp::Tcp(443)], p2p: None }], hold: false, abandon: false, stall: true });
                    ops.extend(noise2);
                    ops.push(Op::Reset { pick: u16::MAX });
                }
                1 => {
                    ops.push(Op::ServerDial { peer: 0, how: 0 });
                    ops.extend(noise2);
                }
                _ => {
                    ops.push(Op::ServerDial { peer: 0, how: fail_how });
                    ops.extend(noise2);
                }
            }
            ops.push(Op::Request { conn: c3, claim: None, addrs: vec![ReqAddr::Honest { suffix: vec![Comp::Tcp(1)], p2p: None }, ReqAddr::Honest { suffix: vec![Comp::Udp(1), Comp::QuicV1], p2p: Some(0) }], hold: false, abandon: false, stall: false });
            ops.extend(tail);
            WCase { cfg: Cfg { global_max, peer_max, max_addrs: 2, only_global, short_period: false }, ops }
        })
}

fn wcase() -> impl Strategy<Value = WCase> {
    prop_oneof![8 => generic_case(), 1 => window_case(), 2 => probe_case()]
}

fn generic_case() -> impl Strategy<Value = WCase> {
    (cfg(), (client_idx(), observed_addr()), (client_idx(), observed_addr()), proptest::collection::vec(op(), 3..22)).prop_map(|(cfg, c1, c2, ops)| {
        let mut all = vec![Op::Connect { peer: c1.0, observed: c1.1 }, Op::Connect { peer: c2.0, observed: c2.1 }];
        all.extend(ops);
        WCase { cfg, ops: all }
    })
}

pub fn run_world_part(ctx: &mut Ctx) {
    ctx.assume("behaviour-level half: transport, muxer and AutoNAT clients are simulated (simswarm world with one real Swarm<autonat::v1::Behaviour>; clients are hand-played on raw streams with an independent protobuf encoder); the Swarm, the connection pool / concurrent dial and request-response are trusted");
    ctx.assume("'the IP it observed for the requester' = the first IP component of the remote address of any currently established non-relayed connection of the requester as reported to the behaviour (the server does not distinguish the connection a request arrived on)");
    ctx.assume("a dial-back 'runs' from the ToSwarm::Dial command until the Swarm reports DialFailure or ConnectionEstablished for that connection id");
    ctx.assume("the connection an accepted request arrived on = the connection whose handler reported the last event to the behaviour before it emitted InboundProbeEvent::Request (the Swarm polls the behaviour dry after every handler event); the known finding new-dial-back-while-dial-of-ended-probe-still-pending is only granted when the harness itself had closed that connection before the server ended the probe with an InboundRequest error");
    ctx.assume("throttling uses real time (web_time::Instant): most cases use a 1 h period (exact oracle), about 20% a 40 ms period with real sleeps (half of them structured sliding-window histories) and a one-sided oracle (only dial-backs that are certainly inside one period are counted)");
    ctx.check(
        "server-world",
        "config (global max 0..3, per-peer max 0..2, address cap 1..3|16, only_global_ips 25%, period 1h | 40ms real) + 5..24 ops: 2..4 client peers connect from ip4/ip6/relayed/memory addresses (several connections each), send DialRequests (0..8 addresses: honest ones on the connection's IP, the alphabet of the pure sub-check incl. multi-IP / DNS / relay / foreign p2p, duplicates; 8% claim another peer id, 15% batched with the next op, 8% abandon the stream, 8% on a stalled stream whose response cannot be delivered), resets unanswered request streams, lets the server's own Swarm dial a client peer at an unrelated address (connects / fails / refused by PeerCondition / left open), the harness resolves the server's transport dials ok / error / wrong peer / never, closes connections, changes observed addresses, sleeps; 2 of 11 cases are structured: accepted request with unresolved dial-back, then (refused request on a stalled stream + reset | unrelated server dial connects | unrelated server dial fails), then a further request of the peer, with noise ops in between; oracle on every ToSwarm::Dial and transport dial (harness-initiated dials exempt); non-trivial = >=1 request refused while a dial-back was ongoing or at a throttle limit, and >=1 accepted dial-back whose request mixed valid and invalid addresses",
        ctx.n(4_000, 150_000),
        &|| wcase().boxed(),
        &check,
    );
}
