//! C55 — mDNS responses encode exactly the advertised addresses.
//!
//! `build_query_response` and the packet parser (`MdnsPacket::new_from_bytes` → `MdnsResponse` →
//! `MdnsPeer`) are reached through the cfg'd `libp2p_mdns::verif` shims.
use libp2p_identity::PeerId;
use libp2p_mdns::verif::{build_query_response, parse_packet, VerifPacket};
use multiaddr::{Multiaddr, Protocol};
use proptest::prelude::*;
use serde::{Deserialize, Serialize};
use serde_json::json;
use std::collections::BTreeMap;
use std::net::SocketAddr;
use std::time::Duration;
use vcore::gen::{Comp, Mutation};
use vcore::{ensure, Ctx, Outcome};

#[derive(Clone, Debug, Serialize, Deserialize)]
pub enum Addr {
    /// components from the shared alphabet
    Comps(Vec<Comp>),
    /// `/dns|dns4|dns6|dnsaddr/<name>/tcp/<port>` with an unusual (ASCII) name
    Named { kind: u8, name: String, port: u16 },
    /// `/dns/<pad × 'a'…>/tcp/<port>` sized so that the TXT text is `target` bytes long
    Sized { target: u16, port: u16, with_space: bool },
    /// shared-alphabet address followed by `/p2p/<some pool peer>`
    WithP2p(Vec<Comp>, u8),
}

#[derive(Clone, Debug, Serialize, Deserialize)]
pub struct Case {
    peer: u8,
    query_id: u16,
    ttl_ms: u32,
    addrs: Vec<Addr>,
}

fn pool_peer(i: u8) -> PeerId {
    // ed25519 / secp256k1 / ecdsa identities plus a sha2-256 style id (as RSA keys have)
    match i % 10 {
        8 => vcore::gen::synthetic_peer(1),
        9 => vcore::gen::synthetic_peer(2),
        k => vcore::gen::peer(k as usize),
    }
}

fn build(a: &Addr, id: &PeerId) -> Multiaddr {
    match a {
        Addr::Comps(c) => vcore::gen::build_addr(c),
        Addr::WithP2p(c, p) => vcore::gen::build_addr(c).with(Protocol::P2p(pool_peer(*p))),
        Addr::Named { kind, name, port } => {
            let host = match kind % 4 {
                0 => Protocol::Dns(name.clone().into()),
                1 => Protocol::Dns4(name.clone().into()),
                2 => Protocol::Dns6(name.clone().into()),
                _ => Protocol::Dnsaddr(name.clone().into()),
            };
            Multiaddr::empty().with(host).with(Protocol::Tcp(*port))
        }
        Addr::Sized { target, port, with_space } => {
            // "dnsaddr=" + "/dns/" + name + "/tcp/" + port + "/p2p/" + id
            let fixed = 8 + 5 + 5 + port.to_string().len() + 5 + id.to_base58().len();
            let n = (*target as usize).saturating_sub(fixed).max(1);
            let mut name: String = "a".repeat(n);
            if *with_space && n >= 3 {
                name.replace_range(1..2, " ");
            }
            Multiaddr::empty().with(Protocol::Dns(name.into())).with(Protocol::Tcp(*port))
        }
    }
}

/// how an advertised address relates to the statement's domain
#[derive(PartialEq, Debug)]
enum Class {
    /// must be decoded back
    Must,
    /// must not appear (does not fit one TXT string)
    TooLong,
    /// outside the domain (text form not ASCII / not re-parsable; quoted form at the size boundary)
    DontCare,
}

fn classify(a: &Multiaddr, id: &PeerId) -> Class {
    let txt = format!("dnsaddr={}/p2p/{}", a, id.to_base58());
    if !txt.is_ascii() {
        return Class::DontCare;
    }
    // the text form must denote the same address (names containing '/' etc. cannot be carried as text)
    match txt[8..].parse::<Multiaddr>() {
        Ok(mut back) => {
            if back.pop() != Some(Protocol::P2p(*id)) || &back != a {
                return Class::DontCare;
            }
        }
        Err(_) => return Class::DontCare,
    }
    if txt.len() > 255 {
        return Class::TooLong;
    }
    if txt.contains(' ') {
        // a character-string holding a space is sent in quoted form, which is longer
        let quoted = txt.len() + 2 + txt.bytes().filter(|b| *b == b'"' || *b == b'\\').count();
        if quoted > 255 {
            return Class::DontCare;
        }
    }
    Class::Must
}

fn from() -> SocketAddr {
    "192.168.1.7:5353".parse().unwrap()
}

fn check(case: &Case) -> Outcome {
    let id = pool_peer(case.peer);
    let addrs: Vec<Multiaddr> = case.addrs.iter().map(|a| build(a, &id)).collect();
    let ttl = Duration::from_millis(case.ttl_ms as u64);
    let packets = match vcore::runner::catch(|| build_query_response(case.query_id, id, &addrs, ttl)) {
        Ok(p) => p,
        Err(p) => return Outcome::fail("C55:build-panicked", json!({"panic": p})),
    };
    ensure!(!packets.is_empty(), "C55:no-packet", json!({}));

    let mut must: BTreeMap<String, i64> = BTreeMap::new();
    let mut may: BTreeMap<String, i64> = BTreeMap::new();
    let mut n_must = 0;
    let mut n_toolong = 0;
    let mut n_dontcare = 0;
    let mut space_must = false;
    let mut esc_must = false;
    for a in &addrs {
        match classify(a, &id) {
            Class::Must => {
                *must.entry(a.to_string()).or_default() += 1;
                *may.entry(a.to_string()).or_default() += 1;
                n_must += 1;
                let s = a.to_string();
                if s.contains(' ') {
                    space_must = true;
                    if s.contains('"') || s.contains('\\') {
                        esc_must = true;
                    }
                }
            }
            Class::DontCare => {
                *may.entry(a.to_string()).or_default() += 1;
                n_dontcare += 1;
            }
            Class::TooLong => n_toolong += 1,
        }
    }

    let mut decoded: BTreeMap<String, i64> = BTreeMap::new();
    let mut total_decoded = 0;
    for (k, p) in packets.iter().enumerate() {
        ensure!(p.len() <= 9000, "C55:packet-exceeds-9000-bytes", json!({"packet": k, "len": p.len(), "addresses": addrs.len()}));
        let parsed = match vcore::runner::catch(|| parse_packet(p, from())) {
            Ok(r) => r,
            Err(pn) => return Outcome::fail("C55:parser-panicked-on-built-packet", json!({"panic": pn, "packet": k})),
        };
        let culprit = || -> Vec<String> { addrs.iter().map(|a| a.to_string()).filter(|s| s.contains(' ')).take(3).collect() };
        match parsed {
            Err(e) => {
                let sig = if space_must { "C55:built-packet-unparsable-name-with-space" } else { "C55:built-packet-unparsable" };
                return Outcome::fail(sig, json!({"packet": k, "error": e, "addresses_with_space": culprit(), "n_addresses": addrs.len()}));
            }
            Ok(Some(VerifPacket::Response(peers))) => {
                for (pid, list, _ttl) in peers {
                    ensure!(pid == id, "C55:address-attributed-to-other-peer", json!({"packet": k, "got_peer": pid.to_string(), "advertising_peer": id.to_string()}));
                    for a in list {
                        *decoded.entry(a.to_string()).or_default() += 1;
                        total_decoded += 1;
                    }
                }
            }
            Ok(other) => {
                return Outcome::fail("C55:built-response-not-parsed-as-response", json!({"packet": k, "parsed": format!("{other:?}")}));
            }
        }
    }
    // must ⊆ decoded ⊆ may (as multisets)
    for (a, n) in &must {
        let got = decoded.get(a).cloned().unwrap_or(0);
        if got < *n {
            let sig = if a.contains(' ') { "C55:address-with-space-lost-or-altered" } else { "C55:advertised-address-missing" };
            return Outcome::fail(sig, json!({"address": a, "advertised_times": n, "decoded_times": got, "decoded": decoded.keys().take(6).collect::<Vec<_>>()}));
        }
    }
    for (a, n) in &decoded {
        let allowed = may.get(a).cloned().unwrap_or(0);
        if *n > allowed {
            let sig = if addrs.iter().any(|x| x.to_string().contains(' ')) && !may.contains_key(a) { "C55:decoded-address-never-advertised-name-with-space" } else { "C55:decoded-address-not-advertised" };
            return Outcome::fail(sig, json!({"address": a, "decoded_times": n, "advertised_times": allowed}));
        }
    }

    let mut labels = vec![];
    if packets.len() > 1 {
        labels.push("multi_packet");
    }
    if n_toolong > 0 {
        labels.push("has_too_long");
    }
    if n_dontcare > 0 {
        labels.push("has_dont_care");
    }
    if space_must {
        labels.push("name_with_space");
    }
    if esc_must {
        labels.push("name_with_space_and_escape");
    }
    if addrs.is_empty() {
        labels.push("empty");
    }
    let near = addrs.iter().any(|a| {
        let l = format!("dnsaddr={}/p2p/{}", a, id.to_base58()).len();
        (250..=260).contains(&l)
    });
    if near {
        labels.push("near_255");
    }
    let _ = total_decoded;
    Outcome::pass_l(n_must >= 1 && (near || packets.len() > 1 || space_must), labels)
}

// ---------------------------------------------------------------------------------------------
// arbitrary packets never panic the parser

#[derive(Clone, Debug, Serialize, Deserialize)]
pub enum Raw {
    Bytes(Vec<u8>),
    /// a well-formed response for (peer, addresses), then mutated
    Mutated { case: Case, pick: u8, muts: Vec<Mutation> },
    /// header with generated counts followed by bytes
    Header { id: u16, flags: u16, counts: [u8; 4], body: Vec<u8> },
}

fn check_raw(raw: &Raw) -> Outcome {
    let bytes: Vec<u8> = match raw {
        Raw::Bytes(b) => b.clone(),
        Raw::Mutated { case, pick, muts } => {
            let id = pool_peer(case.peer);
            let addrs: Vec<Multiaddr> = case.addrs.iter().map(|a| build(a, &id)).collect();
            let packets = match vcore::runner::catch(|| build_query_response(case.query_id, id, &addrs, Duration::from_millis(case.ttl_ms as u64))) {
                Ok(p) => p,
                Err(_) => return Outcome::Discard,
            };
            let p = &packets[*pick as usize % packets.len()];
            vcore::gen::apply_mutations(p, muts)
        }
        Raw::Header { id, flags, counts, body } => {
            let mut b = vec![];
            b.extend_from_slice(&id.to_be_bytes());
            b.extend_from_slice(&flags.to_be_bytes());
            for c in counts {
                b.extend_from_slice(&(*c as u16).to_be_bytes());
            }
            b.extend_from_slice(body);
            b
        }
    };
    match vcore::runner::catch(|| parse_packet(&bytes, from())) {
        Err(p) => {
            // overflow-check panic inside the DNS parser dependency (error-message arithmetic of the TSIG rdata reader):
            // a known finding with its own signature, so that any other parser panic is still reported
            let sig = if p.contains("hickory-proto") && p.contains("rdata/tsig.rs") && p.contains("attempt to subtract with overflow") {
                "C55:parser-panicked-in-hickory-proto-tsig-rdata-overflow-check"
            } else {
                "C55:parser-panicked"
            };
            Outcome::fail(sig, json!({"panic": p, "len": bytes.len()}))
        }
        Ok(r) => {
            let mut labels = vec![];
            let nt = match &r {
                Err(_) => {
                    labels.push("parse_error");
                    false
                }
                Ok(None) => {
                    labels.push("ignored");
                    true
                }
                Ok(Some(VerifPacket::Response(p))) => {
                    labels.push("response");
                    if !p.is_empty() {
                        labels.push("response_with_peers");
                    }
                    true
                }
                Ok(Some(_)) => {
                    labels.push("query");
                    true
                }
            };
            Outcome::pass_l(nt, labels)
        }
    }
}

fn unusual_name() -> impl Strategy<Value = String> {
    prop_oneof![
        3 => "[a-z0-9.-]{1,20}",
        3 => "[a-z]{1,6} [a-z]{1,6}",
        2 => "[a-z \"\\\\]{1,12}",
        1 => "[ -~&&[^/]]{1,16}",
        1 => Just(" ".to_string()),
        1 => Just("\"quoted\"".to_string()),
        1 => Just("back\\slash and space".to_string()),
    ]
}

fn addr() -> impl Strategy<Value = Addr> {
    prop_oneof![
        5 => vcore::gen::dial_addr().prop_map(Addr::Comps),
        1 => vcore::gen::comp_seq(5).prop_map(Addr::Comps),
        2 => (vcore::gen::dial_addr(), 0u8..10).prop_map(|(c, p)| Addr::WithP2p(c, p)),
        3 => (0u8..4, unusual_name(), vcore::gen::port()).prop_map(|(kind, name, port)| Addr::Named { kind, name, port }),
        2 => (245u16..=262, vcore::gen::port(), prop::bool::weighted(0.3)).prop_map(|(target, port, with_space)| Addr::Sized { target, port, with_space }),
    ]
}

fn case(max_addrs: usize) -> impl Strategy<Value = Case> {
    let big = if max_addrs >= 25 { 25..=max_addrs } else { 0..=max_addrs };
    let n = prop_oneof![6 => 0..=8usize.min(max_addrs), 3 => big, 1 => 0..=max_addrs];
    (0u8..10, any::<u16>(), prop_oneof![Just(0u32), Just(1u32), Just(360_000u32), any::<u32>()], n.prop_flat_map(|n| proptest::collection::vec(addr(), n)))
        .prop_map(|(peer, query_id, ttl_ms, addrs)| Case { peer, query_id, ttl_ms, addrs })
}

fn raw() -> impl Strategy<Value = Raw> {
    prop_oneof![
        2 => proptest::collection::vec(any::<u8>(), 0..300).prop_map(Raw::Bytes),
        6 => (case(6), any::<u8>(), proptest::collection::vec(vcore::gen::mutation(), 1..5)).prop_map(|(case, pick, muts)| Raw::Mutated { case, pick, muts }),
        3 => (any::<u16>(), prop_oneof![Just(0u16), Just(0x8400u16), any::<u16>()], [0u8..4, 0u8..4, 0u8..4, 0u8..4], proptest::collection::vec(any::<u8>(), 0..200)).prop_map(|(id, flags, counts, body)| Raw::Header { id, flags, counts, body }),
    ]
}

pub fn run(ctx: &mut Ctx) {
    ctx.assume("domain: addresses whose text form is ASCII and re-parses to the same address (a DNS name containing '/' cannot be carried as text); such addresses and quoted strings whose quoted form exceeds 255 bytes are don't-care (may or may not be decoded, but nothing else may appear)");
    ctx.assume("'fits a single TXT string' = |\"dnsaddr=<addr>/p2p/<id>\"| <= 255 bytes; the record TTL is not asserted");
    let max_addrs = ctx.tier.sel(40, 100);
    ctx.check(
        "roundtrip",
        "peer from 10 ids (ed25519/secp256k1/ecdsa/sha256-style), 0..40 addresses: dial-shaped, free-form, with own /p2p, DNS names with spaces/quotes/backslashes/any printable ASCII, and names sized so the TXT text is 245..262 bytes; all packets parsed by the real parser: every packet <= 9000 bytes, every decoded peer is the advertiser, decoded multiset == advertised addresses that fit; non-trivial = >= 1 in-domain address and (a size-boundary address, > 1 packet, or a name with a space)",
        ctx.n(4_000, 200_000),
        &|| case(max_addrs).boxed(),
        &check,
    );
    ctx.check(
        "parse-never-panics",
        "random bytes, DNS headers with generated section counts + random body, and well-formed responses hit by 1..4 structure-unaware byte mutations; non-trivial = the parser accepted the packet",
        ctx.n(30_000, 1_500_000),
        &|| raw().boxed(),
        &check_raw,
    );
}
