//! C50 — AutoNAT v1 server.
//!
//! (i) pure: `filter_valid_addrs(peer, demanded, observed)` only yields addresses on the requester's
//! observed IP, without relay hops, ending with the requester's peer id.
//!
//! (ii) behaviour level (`server-world`, second half of this file): the real
//! `libp2p_autonat::v1::Behaviour` inside a real `Swarm` over the simulated transport; AutoNAT
//! clients are played by hand on raw streams. Observed: every `ToSwarm::Dial` the behaviour emits
//! (through a transparent tap behaviour) and every address the server's transport is asked to dial.
use libp2p_autonat::v1::verif::filter_valid_addrs;
use multiaddr::{Multiaddr, Protocol};
use proptest::prelude::*;
use serde::{Deserialize, Serialize};
use serde_json::json;
use std::collections::HashSet;
use vcore::gen::{build_addr, Comp};
use vcore::{ensure, Ctx, Outcome};

#[derive(Clone, Debug, Serialize, Deserialize)]
pub struct Case {
    peer: u8,
    observed: Vec<Comp>,
    demanded: Vec<Vec<Comp>>,
}

fn is_ip(p: &Protocol) -> bool {
    matches!(p, Protocol::Ip4(_) | Protocol::Ip6(_))
}

fn check(case: &Case) -> Outcome {
    let peer = vcore::gen::peer(case.peer as usize);
    let observed = build_addr(&case.observed);
    let demanded: Vec<Multiaddr> = case.demanded.iter().map(|c| build_addr(c)).collect();
    let out = filter_valid_addrs(peer, demanded.clone(), &observed);

    let observed_ip = observed.iter().find(is_ip);
    let detail = |what: &str, a: &Multiaddr| json!({"what": what, "output_address": a.to_string(), "peer": peer.to_string(), "observed": observed.to_string(), "demanded": demanded.iter().map(|d| d.to_string()).collect::<Vec<_>>(), "output": out.iter().map(|d| d.to_string()).collect::<Vec<_>>()});
    let Some(observed_ip) = observed_ip else {
        ensure!(out.is_empty(), "C50:output-without-observed-ip", json!({"observed": observed.to_string(), "output": out.iter().map(|d| d.to_string()).collect::<Vec<_>>()}));
        return Outcome::pass_l(false, vec!["no_observed_ip"]);
    };
    let mut seen = HashSet::new();
    for a in &out {
        for p in a.iter() {
            if is_ip(&p) {
                ensure!(p == observed_ip, "C50:ip-component-differs-from-observed", detail("an IP component of a dial-back address is not the observed IP", a));
            }
            ensure!(!matches!(p, Protocol::P2pCircuit), "C50:relay-hop-in-output", detail("dial-back address contains /p2p-circuit", a));
        }
        ensure!(a.iter().last() == Some(Protocol::P2p(peer)), "C50:not-ending-with-requester-peer-id", detail("dial-back address does not end with /p2p/<requester>", a));
        ensure!(seen.insert(a.clone()), "C50:duplicate-output-address", detail("dial-back address listed twice", a));
    }

    // generator statistics / non-triviality
    let mut labels = vec![];
    let multi_ip = case.demanded.iter().any(|c| c.iter().filter(|x| x.is_ip()).count() >= 2);
    let mid_p2p = case.demanded.iter().any(|c| c.iter().rev().skip(1).any(|x| matches!(x, Comp::P2p(_))));
    let relay = case.demanded.iter().any(|c| c.contains(&Comp::P2pCircuit));
    let foreign_ip = demanded.iter().any(|d| d.iter().any(|p| is_ip(&p) && p != observed_ip));
    if multi_ip {
        labels.push("demanded_multi_ip");
    }
    if mid_p2p {
        labels.push("demanded_p2p_in_middle");
    }
    if relay {
        labels.push("demanded_relay");
    }
    if foreign_ip {
        labels.push("demanded_foreign_ip");
    }
    if !out.is_empty() {
        labels.push("output_nonempty");
    }
    if out.len() >= 2 {
        labels.push("output>=2");
    }
    if out.len() < demanded.len() {
        labels.push("some_filtered");
    }
    Outcome::pass_l(!out.is_empty() && foreign_ip, labels)
}

fn tail_comp() -> impl Strategy<Value = Comp> {
    prop_oneof![
        4 => vcore::gen::port().prop_map(Comp::Tcp),
        3 => vcore::gen::port().prop_map(Comp::Udp),
        2 => Just(Comp::QuicV1),
        1 => Just(Comp::Ws),
        1 => Just(Comp::Tls),
        1 => Just(Comp::WebRTCDirect),
        3 => vcore::gen::ip_comp(),
        1 => vcore::gen::dns_comp(),
        3 => (0u8..3).prop_map(Comp::P2p),
        1 => Just(Comp::P2pCircuit),
    ]
}

/// demanded address: mostly "<host> <tail…>" shapes (so that many survive the filter), some free-form
fn demanded_addr() -> impl Strategy<Value = Vec<Comp>> {
    prop_oneof![
        3 => vcore::gen::dial_addr(),
        5 => (prop_oneof![5 => vcore::gen::ip_comp(), 1 => vcore::gen::dns_comp()], proptest::collection::vec(tail_comp(), 0..5)).prop_map(|(h, t)| {
            let mut v = vec![h];
            v.extend(t);
            v
        }),
        2 => vcore::gen::comp_seq(6),
    ]
}

fn observed_addr() -> impl Strategy<Value = Vec<Comp>> {
    prop_oneof![
        8 => (vcore::gen::ip_comp(), vcore::gen::transport_suffix()).prop_map(|(h, t)| {
            let mut v = vec![h];
            v.extend(t);
            v
        }),
        1 => (vcore::gen::dns_comp(), vcore::gen::transport_suffix()).prop_map(|(h, t)| {
            let mut v = vec![h];
            v.extend(t);
            v
        }),
        1 => Just(vec![Comp::Memory(3)]),
    ]
}

fn case() -> impl Strategy<Value = Case> {
    (0u8..3, observed_addr(), proptest::collection::vec(demanded_addr(), 0..6)).prop_map(|(peer, observed, demanded)| {
        // duplicates are interesting for the "distinct" clause
        let mut demanded = demanded;
        if demanded.len() >= 3 {
            let d = demanded[0].clone();
            demanded.push(d);
        }
        Case { peer, observed, demanded }
    })
}

/// The pure half of C50 (kept separately callable so that a world-level half can be added next to it).
pub fn run_pure_part(ctx: &mut Ctx) {
    ctx.assume("'the IP it observed for the requester' is the first IP component of the observed address (observed addresses of direct connections have exactly one)");
    ctx.check(
        "filter-valid-addrs",
        "requester from 3 peers, observed = ip|dns|memory host + transport suffix, 0..6 demanded addresses (dial-shaped, host + 0..4 tail components incl. further IPs / p2p of 3 peers / p2p-circuit / dns, or free-form sequences; first address duplicated when >= 3); every output address: all IP components == observed IP, no /p2p-circuit, last component /p2p/<requester>, pairwise distinct; non-trivial = output non-empty and some demanded IP differs from the observed one",
        ctx.n(50_000, 1_500_000),
        &|| case().boxed(),
        &check,
    );
}

pub fn run(ctx: &mut Ctx) {
    run_pure_part(ctx);
    world::run_world_part(ctx);
}

#[path = "c50_world.rs"]
mod world;
