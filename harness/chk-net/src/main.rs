mod c23;
mod c48;
mod c50;
mod c51;
mod c54;
mod c55;

fn main() {
    vcore::runner::main(&[
        ("C23", c23::run),
        ("C48", c48::run),
        ("C50", c50::run),
        ("C51", c51::run),
        ("C54", c54::run),
        ("C55", c55::run),
    ])
}
