//! C23 — DNS dialing is bounded and never leaks unresolved or foreign addresses.
//!
//! A `dns::Transport` is built with the cfg'd `verif_with_resolver` constructor around a recording
//! inner transport and a mock `Resolver` that answers from a generated record graph (cycles,
//! self-loops, fan-out, errors, empty and partial answers). The dial future runs on
//! `futures::executor::block_on`; lookups may yield a few times before completing.
use futures::future::BoxFuture;
use futures::FutureExt;
use hickory_resolver::lookup::Lookup;
use hickory_resolver::lookup_ip::LookupIp;
use hickory_resolver::proto::op::Query;
use hickory_resolver::proto::rr::rdata::{A, AAAA, CNAME, TXT};
use hickory_resolver::proto::rr::{Name, RData, Record, RecordType};
use libp2p_core::transport::{DialOpts, ListenerId, PortUse, TransportError, TransportEvent};
use libp2p_core::{Endpoint, Transport};
use libp2p_dns::{ResolveError, Resolver};
use multiaddr::{Multiaddr, Protocol};
use proptest::prelude::*;
use serde::{Deserialize, Serialize};
use serde_json::json;
use std::collections::{BTreeSet, VecDeque};
use std::future::Future;
use std::net::{Ipv4Addr, Ipv6Addr};
use std::pin::Pin;
use std::sync::{Arc, Mutex};
use std::task::{Context, Poll};
use vcore::{ensure, Ctx, Outcome};

const MAX_LOOKUPS: usize = 32;
const MAX_DIALS: usize = 16;

// ---------------------------------------------------------------------------------------------
// case description

#[derive(Clone, Debug, Serialize, Deserialize, PartialEq)]
pub enum IpRec {
    A(u8),
    Aaaa(u8),
    Cname(u8),
}

#[derive(Clone, Debug, Serialize, Deserialize, PartialEq)]
pub enum Head {
    Ip4(u8),
    Ip6(u8),
    Dnsaddr(u8),
    Dns(u8),
    Dns4(u8),
    Dns6(u8),
}

#[derive(Clone, Debug, Serialize, Deserialize, PartialEq)]
pub struct TxtAddr {
    /// components in front of the host (rare): `/ip4/198.51.100.9/tcp/9`
    lead: bool,
    head: Head,
    port: Option<u16>,
    p2p: Option<u8>,
}

#[derive(Clone, Debug, Serialize, Deserialize, PartialEq)]
pub enum TxtRec {
    /// `dnsaddr=<addr>`
    Addr(TxtAddr),
    /// `<addr>` without the prefix
    NoPrefix(TxtAddr),
    /// `dnsaddr=/not/a/multiaddr`
    BadMultiaddr,
    /// `dnsaddr=` followed by invalid UTF-8
    NonUtf8,
    /// TXT record with zero character-strings
    NoStrings,
    /// TXT record with one empty character-string
    EmptyString,
    /// TXT record whose first string is junk and whose second is `dnsaddr=<addr>`
    Second(TxtAddr),
    /// a CNAME record inside the TXT answer
    Cname(u8),
}

#[derive(Clone, Debug, Serialize, Deserialize)]
pub enum Ans<T> {
    Err,
    Ok(Vec<T>),
}

#[derive(Clone, Debug, Serialize, Deserialize)]
pub struct NameRec {
    a: Ans<IpRec>,
    aaaa: Ans<IpRec>,
    ip: Ans<IpRec>,
    txt: Ans<TxtRec>,
}

#[derive(Clone, Debug, Serialize, Deserialize)]
pub struct Dial {
    /// `/ip4/203.0.113.1/tcp/7/p2p/<R>/p2p-circuit` in front of the DNS component
    prefix: bool,
    /// 0 dnsaddr, 1 dns, 2 dns4, 3 dns6
    kind: u8,
    name: u8,
    port: Option<u16>,
    p2p: Option<u8>,
    /// a second DNS component at the end: (kind, name)
    second: Option<(u8, u8)>,
}

#[derive(Clone, Debug, Serialize, Deserialize)]
pub struct Case {
    zone: Vec<NameRec>,
    dial: Dial,
    /// per inner `dial` call: 0 accept→Ok, 1 accept→Err, 2 MultiaddrNotSupported, 3 Other error
    inner: Vec<u8>,
    inner_default: u8,
    /// each lookup returns Pending this many times first
    yields: u8,
}

fn name_str(i: u8, n: usize) -> String {
    format!("n{}.example", i as usize % n)
}
fn ip4(i: u8) -> Ipv4Addr {
    Ipv4Addr::new(192, 0, 2, 1 + i % 24)
}
fn ip6(i: u8) -> Ipv6Addr {
    Ipv6Addr::new(0x2001, 0xdb8, 0, 0, 0, 0, 0, 1 + (i % 24) as u16)
}

fn host(kind: u8, name: String) -> Protocol<'static> {
    match kind % 4 {
        0 => Protocol::Dnsaddr(name.into()),
        1 => Protocol::Dns(name.into()),
        2 => Protocol::Dns4(name.into()),
        _ => Protocol::Dns6(name.into()),
    }
}

fn txt_addr(t: &TxtAddr, n: usize) -> Multiaddr {
    let mut m = Multiaddr::empty();
    if t.lead {
        m.push(Protocol::Ip4(Ipv4Addr::new(198, 51, 100, 9)));
        m.push(Protocol::Tcp(9));
    }
    m.push(match &t.head {
        Head::Ip4(i) => Protocol::Ip4(ip4(*i)),
        Head::Ip6(i) => Protocol::Ip6(ip6(*i)),
        Head::Dnsaddr(i) => host(0, name_str(*i, n)),
        Head::Dns(i) => host(1, name_str(*i, n)),
        Head::Dns4(i) => host(2, name_str(*i, n)),
        Head::Dns6(i) => host(3, name_str(*i, n)),
    });
    if let Some(p) = t.port {
        m.push(Protocol::Tcp(p));
    }
    if let Some(p) = t.p2p {
        m.push(Protocol::P2p(vcore::gen::peer(p as usize)));
    }
    m
}

fn dial_addr(d: &Dial, n: usize) -> Multiaddr {
    let mut m = Multiaddr::empty();
    if d.prefix {
        m.push(Protocol::Ip4(Ipv4Addr::new(203, 0, 113, 1)));
        m.push(Protocol::Tcp(7));
        m.push(Protocol::P2p(vcore::gen::peer(7)));
        m.push(Protocol::P2pCircuit);
    }
    m.push(host(d.kind, name_str(d.name, n)));
    if let Some(p) = d.port {
        m.push(Protocol::Tcp(p));
    }
    if let Some(p) = d.p2p {
        m.push(Protocol::P2p(vcore::gen::peer(p as usize)));
    }
    if let Some((k, nm)) = d.second {
        m.push(host(k, name_str(nm, n)));
    }
    m
}

fn is_dns(p: &Protocol) -> bool {
    matches!(p, Protocol::Dns(_) | Protocol::Dns4(_) | Protocol::Dns6(_) | Protocol::Dnsaddr(_))
}

// ---------------------------------------------------------------------------------------------
// mock resolver

#[derive(Default)]
struct ResLog {
    lookups: Vec<(char, String)>,
    empty_or_partial: usize,
    errors: usize,
}

#[derive(Clone)]
struct MockResolver {
    zone: Arc<Vec<NameRec>>,
    log: Arc<Mutex<ResLog>>,
    yields: u8,
}

struct YieldN(u8);
impl Future for YieldN {
    type Output = ();
    fn poll(mut self: Pin<&mut Self>, cx: &mut Context<'_>) -> Poll<()> {
        if self.0 == 0 {
            Poll::Ready(())
        } else {
            self.0 -= 1;
            cx.waker().wake_by_ref();
            Poll::Pending
        }
    }
}

fn dns_name(s: &str) -> Name {
    Name::from_ascii(format!("{s}.")).expect("generated names are valid")
}

impl MockResolver {
    fn index(&self, name: &str) -> Option<usize> {
        let n = self.zone.len();
        (0..n).find(|i| name_str(*i as u8, n) == name)
    }

    fn ip_records(&self, owner: &str, recs: &[IpRec]) -> Vec<Record> {
        let n = self.zone.len();
        recs.iter()
            .map(|r| match r {
                IpRec::A(i) => Record::from_rdata(dns_name(owner), 60, RData::A(A(ip4(*i)))),
                IpRec::Aaaa(i) => Record::from_rdata(dns_name(owner), 60, RData::AAAA(AAAA(ip6(*i)))),
                IpRec::Cname(i) => Record::from_rdata(dns_name(owner), 60, RData::CNAME(CNAME(dns_name(&name_str(*i, n))))),
            })
            .collect()
    }

    fn answer_ip(&self, kind: char, name: String, rt: RecordType) -> Result<Lookup, ResolveError> {
        let mut log = self.log.lock().unwrap();
        log.lookups.push((kind, name.clone()));
        let Some(i) = self.index(&name) else {
            log.errors += 1;
            return Err(ResolveError::from("mock: unknown name"));
        };
        let ans = match kind {
            '4' => &self.zone[i].a,
            '6' => &self.zone[i].aaaa,
            _ => &self.zone[i].ip,
        };
        match ans {
            Ans::Err => {
                log.errors += 1;
                Err(ResolveError::from("mock: lookup failed"))
            }
            Ans::Ok(recs) => {
                let usable = recs.iter().filter(|r| usable_ip(kind, r)).count();
                if usable == 0 {
                    log.empty_or_partial += 1;
                }
                Ok(Lookup::new_with_max_ttl(Query::query(dns_name(&name), rt), self.ip_records(&name, recs)))
            }
        }
    }

    fn answer_txt(&self, name: String) -> Result<Lookup, ResolveError> {
        let mut log = self.log.lock().unwrap();
        log.lookups.push(('t', name.clone()));
        let n = self.zone.len();
        let Some(i) = name.strip_prefix("_dnsaddr.").and_then(|s| self.index(s)) else {
            log.errors += 1;
            return Err(ResolveError::from("mock: unknown name"));
        };
        match &self.zone[i].txt {
            Ans::Err => {
                log.errors += 1;
                Err(ResolveError::from("mock: lookup failed"))
            }
            Ans::Ok(recs) => {
                if !recs.iter().any(|r| matches!(r, TxtRec::Addr(_))) {
                    log.empty_or_partial += 1;
                }
                let owner = dns_name(&name);
                let records: Vec<Record> = recs
                    .iter()
                    .map(|r| {
                        let data = match r {
                            TxtRec::Addr(t) => RData::TXT(TXT::new(vec![format!("dnsaddr={}", txt_addr(t, n))])),
                            TxtRec::NoPrefix(t) => RData::TXT(TXT::new(vec![txt_addr(t, n).to_string()])),
                            TxtRec::BadMultiaddr => RData::TXT(TXT::new(vec!["dnsaddr=/not/a/multiaddr".to_string()])),
                            TxtRec::NonUtf8 => RData::TXT(TXT::from_bytes(vec![&b"dnsaddr=\xff\xfe/ip4"[..]])),
                            TxtRec::NoStrings => RData::TXT(TXT::from_bytes(vec![])),
                            TxtRec::EmptyString => RData::TXT(TXT::new(vec![String::new()])),
                            TxtRec::Second(t) => RData::TXT(TXT::new(vec!["v=junk".to_string(), format!("dnsaddr={}", txt_addr(t, n))])),
                            TxtRec::Cname(c) => RData::CNAME(CNAME(dns_name(&name_str(*c, n)))),
                        };
                        Record::from_rdata(owner.clone(), 60, data)
                    })
                    .collect();
                Ok(Lookup::new_with_max_ttl(Query::query(owner, RecordType::TXT), records))
            }
        }
    }
}

fn usable_ip(kind: char, r: &IpRec) -> bool {
    match (kind, r) {
        ('4', IpRec::A(_)) => true,
        ('6', IpRec::Aaaa(_)) => true,
        ('i', IpRec::A(_)) | ('i', IpRec::Aaaa(_)) => true,
        _ => false,
    }
}

impl Resolver for MockResolver {
    async fn lookup_ip(&self, name: String) -> Result<LookupIp, ResolveError> {
        YieldN(self.yields).await;
        self.answer_ip('i', name, RecordType::A).map(LookupIp::from)
    }
    async fn ipv4_lookup(&self, name: String) -> Result<Lookup, ResolveError> {
        YieldN(self.yields).await;
        self.answer_ip('4', name, RecordType::A)
    }
    async fn ipv6_lookup(&self, name: String) -> Result<Lookup, ResolveError> {
        YieldN(self.yields).await;
        self.answer_ip('6', name, RecordType::AAAA)
    }
    async fn txt_lookup(&self, name: String) -> Result<Lookup, ResolveError> {
        YieldN(self.yields).await;
        self.answer_txt(name)
    }
}

// ---------------------------------------------------------------------------------------------
// recording inner transport

#[derive(Default)]
struct DialLog {
    calls: Vec<(Multiaddr, u8)>,
}

struct Inner {
    script: VecDeque<u8>,
    default: u8,
    log: Arc<Mutex<DialLog>>,
}

impl Transport for Inner {
    type Output = ();
    type Error = std::io::Error;
    type ListenerUpgrade = BoxFuture<'static, Result<(), std::io::Error>>;
    type Dial = BoxFuture<'static, Result<(), std::io::Error>>;

    fn listen_on(&mut self, _: ListenerId, a: Multiaddr) -> Result<(), TransportError<Self::Error>> {
        Err(TransportError::MultiaddrNotSupported(a))
    }
    fn remove_listener(&mut self, _: ListenerId) -> bool {
        false
    }
    fn dial(&mut self, addr: Multiaddr, _: DialOpts) -> Result<Self::Dial, TransportError<Self::Error>> {
        let how = self.script.pop_front().unwrap_or(self.default) % 4;
        self.log.lock().unwrap().calls.push((addr.clone(), how));
        match how {
            0 => Ok(futures::future::ready(Ok(())).boxed()),
            1 => Ok(async {
                YieldN(1).await;
                Err(std::io::Error::other("connection refused"))
            }
            .boxed()),
            2 => Err(TransportError::MultiaddrNotSupported(addr)),
            _ => Err(TransportError::Other(std::io::Error::other("inner transport error"))),
        }
    }
    fn poll(self: Pin<&mut Self>, _: &mut Context<'_>) -> Poll<TransportEvent<Self::ListenerUpgrade, Self::Error>> {
        Poll::Pending
    }
}

// ---------------------------------------------------------------------------------------------
// reference closure: every fully resolved address derivable under the suffix rule (no bounds)

fn ref_step(zone: &[NameRec], addr: &Multiaddr) -> Option<Vec<Multiaddr>> {
    let n = zone.len();
    let (i, proto) = addr.iter().enumerate().find(|(_, p)| is_dns(p))?;
    let idx = |name: &str| (0..n).find(|k| name_str(*k as u8, n) == name);
    let mut out = vec![];
    let ips = |ans: &Ans<IpRec>, kind: char| -> Vec<Protocol<'static>> {
        match ans {
            Ans::Err => vec![],
            Ans::Ok(r) => r
                .iter()
                .filter(|x| usable_ip(kind, x))
                .map(|x| match x {
                    IpRec::A(k) => Protocol::Ip4(ip4(*k)),
                    IpRec::Aaaa(k) => Protocol::Ip6(ip6(*k)),
                    IpRec::Cname(_) => unreachable!(),
                })
                .collect(),
        }
    };
    match &proto {
        Protocol::Dns(name) | Protocol::Dns4(name) | Protocol::Dns6(name) => {
            if let Some(k) = idx(name) {
                let list = match &proto {
                    Protocol::Dns(_) => ips(&zone[k].ip, 'i'),
                    Protocol::Dns4(_) => ips(&zone[k].a, '4'),
                    _ => ips(&zone[k].aaaa, '6'),
                };
                for ip in list {
                    out.push(addr.replace(i, |_| Some(ip.clone())).expect("valid index"));
                }
            }
        }
        Protocol::Dnsaddr(name) => {
            if let Some(k) = idx(name) {
                if let Ans::Ok(recs) = &zone[k].txt {
                    let suffix: Vec<Protocol> = addr.iter().skip(i + 1).collect();
                    let prefix: Vec<Protocol> = addr.iter().take(i).collect();
                    for r in recs {
                        if let TxtRec::Addr(t) = r {
                            let a = txt_addr(t, n);
                            let comps: Vec<Protocol> = a.iter().collect();
                            if comps.len() >= suffix.len() && comps[comps.len() - suffix.len()..] == suffix[..] {
                                let mut m = Multiaddr::empty();
                                for p in prefix.iter().chain(comps.iter()) {
                                    m.push(p.clone());
                                }
                                out.push(m);
                            }
                        }
                    }
                }
            }
        }
        _ => unreachable!(),
    }
    Some(out)
}

/// Returns the set of fully resolved addresses, or None when the closure is too large.
fn closure(zone: &[NameRec], start: &Multiaddr) -> Option<BTreeSet<String>> {
    let mut seen: BTreeSet<String> = BTreeSet::new();
    let mut resolved: BTreeSet<String> = BTreeSet::new();
    let mut work = vec![start.clone()];
    seen.insert(start.to_string());
    while let Some(a) = work.pop() {
        if seen.len() > 1_500 {
            return None;
        }
        match ref_step(zone, &a) {
            None => {
                resolved.insert(a.to_string());
            }
            Some(next) => {
                for x in next {
                    if seen.insert(x.to_string()) {
                        work.push(x);
                    }
                }
            }
        }
    }
    Some(resolved)
}

// ---------------------------------------------------------------------------------------------

fn check(case: &Case) -> Outcome {
    let n = case.zone.len();
    if n == 0 {
        return Outcome::Discard;
    }
    let addr = dial_addr(&case.dial, n);
    let rlog = Arc::new(Mutex::new(ResLog::default()));
    let dlog = Arc::new(Mutex::new(DialLog::default()));
    let resolver = MockResolver { zone: Arc::new(case.zone.clone()), log: rlog.clone(), yields: case.yields % 4 };
    let inner = Inner { script: case.inner.iter().cloned().collect(), default: case.inner_default, log: dlog.clone() };
    let mut transport = libp2p_dns::Transport::verif_with_resolver(inner, resolver);

    let opts = DialOpts { role: Endpoint::Dialer, port_use: PortUse::Reuse };
    let a2 = addr.clone();
    let result = vcore::runner::catch(move || match transport.dial(a2, opts) {
        Ok(fut) => Some(futures::executor::block_on(fut).map_err(|e| format!("{e:?}"))),
        Err(_) => None,
    });

    let rl = rlog.lock().unwrap();
    let dl = dlog.lock().unwrap();
    let lookups = rl.lookups.len();
    let accepted = dl.calls.iter().filter(|(_, how)| *how < 2).count();
    let detail = |extra: serde_json::Value| {
        json!({"dial": addr.to_string(), "extra": extra, "lookups": rl.lookups.iter().map(|(k, n)| format!("{k}:{n}")).collect::<Vec<_>>(),
               "inner_dials": dl.calls.iter().map(|(a, h)| format!("{h}:{a}")).collect::<Vec<_>>()})
    };

    let outcome = match result {
        Err(p) => {
            let sig = if p.contains("If there are no results") { "C23:panic-on-empty-or-partial-answer" } else { "C23:panic" };
            return Outcome::fail(sig, detail(json!({"panic": p})));
        }
        Ok(None) => return Outcome::fail("C23:dial-refused-synchronously", detail(json!(null))),
        Ok(Some(r)) => r,
    };

    ensure!(lookups <= MAX_LOOKUPS, "C23:more-than-32-lookups", detail(json!({"count": lookups})));
    ensure!(accepted <= MAX_DIALS, "C23:more-than-16-inner-dial-attempts", detail(json!({"count": accepted})));
    for (a, _) in &dl.calls {
        ensure!(!a.iter().any(|p| is_dns(&p)), "C23:inner-dial-with-dns-component", detail(json!({"address": a.to_string()})));
    }
    // the dial's Ok must come from an inner success, and an inner success ends the dial
    if let Some(pos) = dl.calls.iter().position(|(_, h)| *h == 0) {
        ensure!(pos == dl.calls.len() - 1 && outcome.is_ok(), "C23:dialing-continued-after-success", detail(json!({"result": format!("{outcome:?}")})));
    } else {
        ensure!(outcome.is_err(), "C23:ok-without-inner-success", detail(json!(null)));
    }

    // suffix rule, direct form: a /dnsaddr dial whose remaining suffix has no DNS component
    let comps: Vec<Protocol> = addr.iter().collect();
    let first_dns = comps.iter().position(is_dns).expect("dial address has a DNS component");
    let suffix = &comps[first_dns + 1..];
    let pure_suffix = matches!(comps[first_dns], Protocol::Dnsaddr(_)) && !suffix.iter().any(is_dns);
    if pure_suffix {
        for (a, _) in &dl.calls {
            let c: Vec<Protocol> = a.iter().collect();
            let ok = c.len() >= suffix.len() && c[c.len() - suffix.len()..] == *suffix;
            ensure!(ok, "C23:dnsaddr-dialed-without-original-suffix", detail(json!({"address": a.to_string(), "suffix": suffix.iter().map(|p| p.to_string()).collect::<String>()})));
        }
    }
    // reference closure (covers prefix handling, record-type filtering, nested names)
    let cl = closure(&case.zone, &addr);
    match &cl {
        Some(set) => {
            for (a, _) in &dl.calls {
                ensure!(set.contains(&a.to_string()), "C23:dialed-address-not-derivable-from-records", detail(json!({"address": a.to_string(), "derivable": set.iter().take(20).collect::<Vec<_>>()})));
            }
        }
        None => {}
    }

    let mut labels = vec![];
    let hit_lookup_bound = lookups == MAX_LOOKUPS;
    let hit_dial_bound = accepted == MAX_DIALS;
    let mut repeated = false;
    {
        let mut s = BTreeSet::new();
        for l in &rl.lookups {
            if !s.insert(l.clone()) {
                repeated = true;
            }
        }
    }
    if hit_lookup_bound {
        labels.push("lookups==32");
    }
    if hit_dial_bound {
        labels.push("accepted_dials==16");
    }
    if repeated {
        labels.push("name_looked_up_again(cycle)");
    }
    if rl.empty_or_partial > 0 {
        labels.push("empty_or_partial_answer");
    }
    if rl.errors > 0 {
        labels.push("lookup_error");
    }
    if outcome.is_ok() {
        labels.push("dial_ok");
    }
    if dl.calls.is_empty() {
        labels.push("no_inner_dial");
    }
    if dl.calls.len() > 16 {
        labels.push("inner_calls>16(incl. refused)");
    }
    if pure_suffix && !suffix.is_empty() && !dl.calls.is_empty() {
        labels.push("dnsaddr_suffix_exercised");
    }
    if cl.is_none() {
        labels.push("closure_too_large");
    }
    if let Some(e) = outcome.as_ref().err() {
        if e.contains("TooManyLookups") {
            labels.push("too_many_lookups_error");
        }
    }
    Outcome::pass_l(hit_lookup_bound || hit_dial_bound || repeated || rl.empty_or_partial > 0, labels)
}

// ---------------------------------------------------------------------------------------------
// generators

fn ip_rec(n: u8, kind: char) -> impl Strategy<Value = IpRec> {
    let (wa, w6) = match kind {
        '4' => (8, 1),
        '6' => (1, 8),
        _ => (5, 4),
    };
    prop_oneof![
        wa => (0u8..24).prop_map(IpRec::A),
        w6 => (0u8..24).prop_map(IpRec::Aaaa),
        1 => (0..n).prop_map(IpRec::Cname),
    ]
}

fn ip_ans(n: u8, kind: char) -> impl Strategy<Value = Ans<IpRec>> {
    prop_oneof![
        2 => Just(Ans::Err),
        1 => Just(Ans::Ok(vec![])),
        1 => (0..n).prop_map(|c| Ans::Ok(vec![IpRec::Cname(c)])),
        8 => proptest::collection::vec(ip_rec(n, kind), 1..4).prop_map(Ans::Ok),
        2 => proptest::collection::vec(ip_rec(n, kind), 15..=20).prop_map(Ans::Ok),
    ]
}

fn txt_a(n: u8) -> impl Strategy<Value = TxtAddr> {
    let head = prop_oneof![
        4 => (0u8..24).prop_map(Head::Ip4),
        2 => (0u8..24).prop_map(Head::Ip6),
        5 => (0..n).prop_map(Head::Dnsaddr),
        1 => (0..n).prop_map(Head::Dns),
        2 => (0..n).prop_map(Head::Dns4),
        1 => (0..n).prop_map(Head::Dns6),
    ];
    (prop::bool::weighted(0.04), head, proptest::option::weighted(0.7, prop_oneof![Just(4001u16), Just(443u16)]), proptest::option::weighted(0.6, 0u8..3)).prop_map(|(lead, head, port, p2p)| TxtAddr { lead, head, port, p2p })
}

fn txt_rec(n: u8) -> impl Strategy<Value = TxtRec> {
    prop_oneof![
        14 => txt_a(n).prop_map(TxtRec::Addr),
        1 => txt_a(n).prop_map(TxtRec::NoPrefix),
        1 => Just(TxtRec::BadMultiaddr),
        1 => Just(TxtRec::NonUtf8),
        1 => Just(TxtRec::NoStrings),
        1 => Just(TxtRec::EmptyString),
        1 => txt_a(n).prop_map(TxtRec::Second),
        1 => (0..n).prop_map(TxtRec::Cname),
    ]
}

fn txt_ans(n: u8) -> impl Strategy<Value = Ans<TxtRec>> {
    prop_oneof![
        1 => Just(Ans::Err),
        1 => Just(Ans::Ok(vec![])),
        1 => Just(Ans::Ok(vec![TxtRec::NoStrings])),
        8 => proptest::collection::vec(txt_rec(n), 1..5).prop_map(Ans::Ok),
        2 => proptest::collection::vec(txt_rec(n), 15..=20).prop_map(Ans::Ok),
    ]
}

fn case() -> impl Strategy<Value = Case> {
    (1u8..=8).prop_flat_map(|n| {
        let rec = (ip_ans(n, '4'), ip_ans(n, '6'), ip_ans(n, 'i'), txt_ans(n)).prop_map(|(a, aaaa, ip, txt)| NameRec { a, aaaa, ip, txt });
        let dial = (
            prop::bool::weighted(0.1),
            prop_oneof![5 => Just(0u8), 1 => Just(1u8), 2 => Just(2u8), 1 => Just(3u8)],
            0..n,
            proptest::option::weighted(0.6, prop_oneof![Just(4001u16), Just(443u16)]),
            proptest::option::weighted(0.6, 0u8..3),
            proptest::option::weighted(0.05, (0u8..4, 0..n)),
        )
            .prop_map(|(prefix, kind, name, port, p2p, second)| Dial { prefix, kind, name, port, p2p, second });
        let inner = proptest::collection::vec(prop_oneof![2 => Just(0u8), 8 => Just(1u8), 1 => Just(2u8), 1 => Just(3u8)], 0..24);
        (proptest::collection::vec(rec, n as usize), dial, inner, prop_oneof![1 => Just(0u8), 6 => Just(1u8), 1 => Just(2u8), 1 => Just(3u8)], 0u8..3)
            .prop_map(|(zone, dial, inner, inner_default, yields)| Case { zone, dial, inner, inner_default, yields })
    })
}

pub fn run(ctx: &mut Ctx) {
    ctx.assume("the resolver is any implementation of the public (doc-hidden) `libp2p_dns::Resolver` trait; it may return Ok lookups with zero records or with records of another type (hickory's own LookupIpFuture documents returning 'an empty lookup')");
    ctx.assume("'inner dial attempts' counts the attempts the inner transport accepted (returned a dial future), as the implementation documents; synchronous refusals are not counted");
    ctx.assume("TXT records name DNS hosts mostly in leading position so that the unbounded reference closure stays finite (cases whose closure exceeds 1 500 addresses skip the closure oracle only)");
    ctx.check(
        "record-graphs",
        "1..8 names each with A / AAAA / any-IP answers (error, empty, CNAME-only, 1..3 or 15..20 records incl. wrong-type and CNAME) and TXT answers (error, empty, no strings, 1..4 or 15..20 records: dnsaddr= to IPs / nested dnsaddr / dns4 / dns6 names incl. self-loops and cycles, with or without /tcp and /p2p of 3 peers; malformed variants); dial = [relay prefix] /dnsaddr|dns|dns4|dns6/<name>[/tcp/p][/p2p/X][/second dns]; inner transport script per call (ok / err / unsupported / other); lookups yield 0..2 times; non-trivial = a bound was reached, a name was looked up twice (cycle), or an empty/partial answer was served",
        ctx.n(6_000, 200_000),
        &|| case().boxed(),
        &check,
    );
}
