//! C51 — rendezvous registrations obey TTL, limits and refresh semantics.
//!
//! The real (private) `Registrations` state machine is driven through the cfg'd
//! `server::VerifRegistrations` shim. Expiry is driven by `fire_expiry(id)`, which pushes a ready
//! future into the real expiry queue; the real `futures_timer` delays never fire during a case
//! because all TTLs are >= 1000 s. Cookies travel through their wire encoding, as they do between a
//! real client and server.
use libp2p_core::PeerRecord;
use libp2p_identity::PeerId;
use libp2p_rendezvous::server::{Config, VerifRegistrations};
use libp2p_rendezvous::{Cookie, Namespace, Registration};
use multiaddr::{Multiaddr, Protocol};
use proptest::prelude::*;
use serde::{Deserialize, Serialize};
use serde_json::json;
use std::collections::{BTreeMap, BTreeSet};
use vcore::{ensure, Ctx, Outcome};

const PEERS: usize = 4;
const NAMESPACES: [&str; 4] = ["foo", "bar", "a-rather-long-namespace", ""];
/// TTL unit: all configured/generated TTLs are multiples of this, so no real timer fires in a case.
const UNIT: u64 = 1000;

#[derive(Clone, Debug, Serialize, Deserialize)]
pub enum TtlSel {
    Default,
    BelowMin,
    Min,
    Mid,
    Max,
    AboveMax,
}

#[derive(Clone, Debug, Serialize, Deserialize)]
pub enum Op {
    Register { peer: u8, ns: u8, ttl: TtlSel },
    Unregister { peer: u8, ns: u8 },
    Discover { ns: Option<u8>, cookie: Option<u16>, limit: Option<u8> },
    FireExpiry { inst: u16 },
}

#[derive(Clone, Debug, Serialize, Deserialize)]
pub struct Case {
    min_ttl: u8,
    max_ttl: u8,
    per_peer: u8,
    total: u8,
    ops: Vec<Op>,
}

#[derive(Clone, Copy, Debug, PartialEq)]
enum St {
    Live,
    Superseded,
    Unregistered,
    Expired,
}

#[derive(Clone, Debug)]
struct Inst {
    peer: u8,
    ns: u8,
    sut_id: u64,
    st: St,
}

fn ns_of(i: u8) -> Namespace {
    Namespace::from_static(NAMESPACES[i as usize % NAMESPACES.len()])
}

fn keypair(i: u8) -> &'static libp2p_identity::Keypair {
    &vcore::gen::keys().ed25519[i as usize % PEERS]
}

fn peer_id(i: u8) -> PeerId {
    keypair(i).public().to_peer_id()
}

/// the record of registration instance `n` carries `/ip4/127.0.0.1/tcp/<n>`, which identifies the instance
fn record(peer: u8, inst: usize) -> PeerRecord {
    let a = Multiaddr::empty().with(Protocol::Ip4([127, 0, 0, 1].into())).with(Protocol::Tcp(inst as u16));
    PeerRecord::new(keypair(peer), vec![a]).expect("ed25519 signing cannot fail")
}

fn inst_of(r: &Registration) -> Option<usize> {
    match r.record.addresses().first()?.iter().nth(1)? {
        Protocol::Tcp(p) => Some(p as usize),
        _ => None,
    }
}

fn check(case: &Case) -> Outcome {
    let min = case.min_ttl as u64 * UNIT;
    let max = case.max_ttl as u64 * UNIT;
    let per_peer = case.per_peer as usize;
    let total = case.total as usize;
    let cfg = Config::default().with_min_ttl(min).with_max_ttl(max).with_max_registration_per_peer(per_peer).with_max_registration_total(total);
    let mut sut = VerifRegistrations::new(cfg);

    let mut insts: Vec<Inst> = vec![];
    let mut live: BTreeMap<(u8, u8), usize> = BTreeMap::new();
    // issued cookies: (cookie as the client holds it, instances already returned along its chain)
    // `tainted`: the cookie, or one of its ancestors in the chain, was issued for the empty namespace
    // (whose wire encoding is indistinguishable from an all-namespaces cookie)
    let mut cookies: Vec<(Cookie, BTreeSet<usize>, bool)> = vec![];

    let mut nt_refresh_at_limit = false;
    let mut nt_cookie_after_expiry = false;
    let mut any_expired = false;
    let mut labels: BTreeSet<&'static str> = BTreeSet::new();

    let mut ops: Vec<Op> = case.ops.clone();
    // closing observation: everything that is live must be discoverable
    ops.push(Op::Discover { ns: None, cookie: None, limit: None });

    for (step, op) in ops.iter().enumerate() {
        match op {
            Op::Register { peer, ns, ttl } => {
                let peer = peer % PEERS as u8;
                let ns = ns % NAMESPACES.len() as u8;
                let ttl_v: Option<u64> = match ttl {
                    TtlSel::Default => None,
                    TtlSel::BelowMin => Some(min - 1),
                    TtlSel::Min => Some(min),
                    TtlSel::Mid => Some((min + max) / 2),
                    TtlSel::Max => Some(max),
                    TtlSel::AboveMax => Some(max + 1),
                };
                let eff = ttl_v.unwrap_or(libp2p_rendezvous::DEFAULT_TTL);
                let ttl_ok = eff >= min && eff <= max;
                let refresh = live.contains_key(&(peer, ns));
                let peer_count = live.keys().filter(|(p, _)| *p == peer).count();
                let room = peer_count < per_peer && live.len() < total;
                let expect_ok = ttl_ok && (refresh || room);
                let n = insts.len();
                let got = sut.add(ns_of(ns), record(peer, n), ttl_v);
                let d = json!({"step": step, "op": op, "ttl": eff, "min_ttl": min, "max_ttl": max, "refresh": refresh, "registrations_of_peer": peer_count, "max_per_peer": per_peer, "registrations_total": live.len(), "max_total": total, "result": format!("{:?}", got.as_ref().map(|(_, r)| r.ttl))});
                match (&got, expect_ok) {
                    (Ok(_), false) => {
                        let sig = if !ttl_ok {
                            "C51:ttl-out-of-range-accepted"
                        } else if peer_count >= per_peer {
                            "C51:per-peer-limit-exceeded"
                        } else {
                            "C51:total-limit-exceeded"
                        };
                        return Outcome::fail(sig, d);
                    }
                    (Err(_), true) => {
                        let sig = if refresh && peer_count >= per_peer {
                            "C51:refresh-refused-at-per-peer-limit"
                        } else if refresh {
                            "C51:refresh-refused"
                        } else {
                            "C51:registration-refused-within-limits"
                        };
                        return Outcome::fail(sig, d);
                    }
                    _ => {}
                }
                if let Ok((sut_id, reg)) = got {
                    ensure!(inst_of(&reg) == Some(n) && reg.record.peer_id() == peer_id(peer), "C51:add-returned-other-registration", d);
                    if refresh {
                        let old = live[&(peer, ns)];
                        insts[old].st = St::Superseded;
                        labels.insert("refresh");
                        if peer_count >= per_peer {
                            nt_refresh_at_limit = true;
                        }
                        if live.len() >= total {
                            labels.insert("refresh_at_total_limit");
                        }
                    }
                    insts.push(Inst { peer, ns, sut_id, st: St::Live });
                    live.insert((peer, ns), n);
                } else if !ttl_ok {
                    labels.insert("refused_ttl");
                } else {
                    labels.insert("refused_limit");
                }
            }
            Op::Unregister { peer, ns } => {
                let peer = peer % PEERS as u8;
                let ns = ns % NAMESPACES.len() as u8;
                sut.remove(ns_of(ns), peer_id(peer));
                if let Some(i) = live.remove(&(peer, ns)) {
                    insts[i].st = St::Unregistered;
                    labels.insert("unregistered");
                }
            }
            Op::Discover { ns, cookie, limit } => {
                let ns = ns.map(|n| n % NAMESPACES.len() as u8);
                let used = cookie.and_then(|c| if cookies.is_empty() { None } else { Some(vcore::pick(c, cookies.len())) });
                let seen: BTreeSet<usize> = used.map(|c| cookies[c].1.clone()).unwrap_or_default();
                let cookie_v = used.map(|c| cookies[c].0.clone());
                let limit_v = limit.map(|l| l as u64);
                let got = sut.get(ns.map(ns_of), cookie_v.clone(), limit_v);
                let Ok((regs, new_cookie)) = got else {
                    // cookie/namespace mismatch: outside the statement
                    labels.insert("discover_cookie_namespace_mismatch");
                    continue;
                };
                let eligible: BTreeSet<usize> = live.iter().filter(|((_, n), i)| ns.map(|x| x == *n).unwrap_or(true) && !seen.contains(i)).map(|(_, i)| *i).collect();
                let mut returned: BTreeSet<usize> = BTreeSet::new();
                let descr = |i: usize| json!({"instance": i, "peer": insts[i].peer, "ns": NAMESPACES[insts[i].ns as usize], "state": format!("{:?}", insts[i].st)});
                for r in &regs {
                    let Some(i) = inst_of(r).filter(|i| *i < insts.len()) else {
                        return Outcome::fail("C51:discover-returned-unknown-registration", json!({"step": step, "op": op}));
                    };
                    let d = json!({"step": step, "op": op, "returned": descr(i), "history": &case.ops[..step.min(case.ops.len())]});
                    ensure!(r.record.peer_id() == peer_id(insts[i].peer) && r.namespace == ns_of(insts[i].ns), "C51:discover-returned-mangled-registration", d);
                    match insts[i].st {
                        St::Live => {}
                        St::Expired => return Outcome::fail("C51:discover-returned-expired", d),
                        St::Superseded => return Outcome::fail("C51:discover-returned-superseded", d),
                        St::Unregistered => return Outcome::fail("C51:discover-returned-unregistered", d),
                    }
                    if let Some(n) = ns {
                        ensure!(insts[i].ns == n, "C51:discover-wrong-namespace", d);
                    }
                    if seen.contains(&i) {
                        let sig = if used.map(|c| cookies[c].2).unwrap_or(false) {
                            "C51:cookie-forgotten-for-empty-namespace"
                        } else {
                            "C51:discover-repeated-with-cookie"
                        };
                        return Outcome::fail(sig, d);
                    }
                    ensure!(returned.insert(i), "C51:discover-duplicate-in-response", d);
                }
                let want = eligible.len().min(limit_v.unwrap_or(u64::MAX) as usize);
                if returned.len() > want {
                    labels.insert("discover_exceeded_limit");
                }
                ensure!(
                    returned.len() >= want,
                    "C51:live-registration-not-discoverable",
                    json!({"step": step, "op": op, "returned": returned, "eligible": eligible.iter().map(|i| descr(*i)).collect::<Vec<_>>(), "limit": limit_v})
                );
                if used.is_some() {
                    labels.insert("discover_with_cookie");
                    if any_expired && !seen.is_empty() {
                        nt_cookie_after_expiry = true;
                    }
                    if !returned.is_empty() {
                        labels.insert("cookie_discover_nonempty");
                    }
                }
                if limit_v.map(|l| (l as usize) < eligible.len()).unwrap_or(false) {
                    labels.insert("discover_limited");
                }
                // the client only ever sees the wire form of the cookie
                let wire = new_cookie.clone().into_wire_encoding();
                let Ok(client_cookie) = Cookie::from_wire_encoding(wire) else {
                    return Outcome::fail("C51:cookie-wire-encoding-not-decodable", json!({"step": step, "op": op}));
                };
                let mut s = seen;
                s.extend(returned);
                let tainted = used.map(|c| cookies[c].2).unwrap_or(false) || ns.map(|n| NAMESPACES[n as usize].is_empty()).unwrap_or(false);
                if tainted {
                    labels.insert("cookie_chain_through_empty_namespace");
                }
                cookies.push((client_cookie, s, tainted));
            }
            Op::FireExpiry { inst } => {
                if insts.is_empty() {
                    continue;
                }
                let i = vcore::pick(*inst, insts.len());
                sut.fire_expiry(insts[i].sut_id);
                let mut events = vec![];
                while let Some(r) = sut.poll_expired() {
                    events.push(r);
                    if events.len() > 8 {
                        break;
                    }
                }
                let d = json!({"step": step, "op": op, "fired_instance": i, "state": format!("{:?}", insts[i].st), "events": events.iter().map(|r| format!("{}@{} inst={:?}", r.record.peer_id(), r.namespace, inst_of(r))).collect::<Vec<_>>()});
                for r in &events {
                    ensure!(inst_of(r) == Some(i), "C51:expiry-event-for-other-registration", d);
                }
                ensure!(events.len() <= 1, "C51:expiry-reported-twice", d);
                match insts[i].st {
                    St::Live => {
                        ensure!(events.len() == 1, "C51:expiry-of-live-registration-not-reported", d);
                        insts[i].st = St::Expired;
                        live.remove(&(insts[i].peer, insts[i].ns));
                        any_expired = true;
                        labels.insert("expired_live");
                    }
                    St::Superseded => {
                        if !events.is_empty() {
                            labels.insert("expiry_event_for_superseded_registration");
                        }
                        labels.insert("fired_superseded");
                    }
                    _ => {
                        labels.insert("fired_dead");
                    }
                }
            }
        }
    }
    if nt_refresh_at_limit {
        labels.insert("refresh_at_per_peer_limit");
    }
    if nt_cookie_after_expiry {
        labels.insert("cookie_discover_after_expiry");
    }
    Outcome::pass_l(nt_refresh_at_limit || nt_cookie_after_expiry, labels.into_iter().collect())
}

fn op() -> impl Strategy<Value = Op> {
    let ns = || prop_oneof![9 => 0u8..3, 1 => Just(3u8)];
    let ttl = prop_oneof![
        1 => Just(TtlSel::Default),
        1 => Just(TtlSel::BelowMin),
        3 => Just(TtlSel::Min),
        4 => Just(TtlSel::Mid),
        3 => Just(TtlSel::Max),
        1 => Just(TtlSel::AboveMax),
    ];
    prop_oneof![
        6 => (0u8..PEERS as u8, ns(), ttl).prop_map(|(peer, ns, ttl)| Op::Register { peer, ns, ttl }),
        1 => (0u8..PEERS as u8, ns()).prop_map(|(peer, ns)| Op::Unregister { peer, ns }),
        4 => (proptest::option::weighted(0.6, ns()), proptest::option::weighted(0.6, any::<u16>()), proptest::option::weighted(0.4, 0u8..4)).prop_map(|(ns, cookie, limit)| Op::Discover { ns, cookie, limit }),
        2 => any::<u16>().prop_map(|inst| Op::FireExpiry { inst }),
    ]
}

fn case(max_ops: usize) -> impl Strategy<Value = Case> {
    (1u8..=3, 3u8..=6, 1u8..=3, 1u8..=5, proptest::collection::vec(op(), 1..=max_ops)).prop_map(|(min_ttl, max_ttl, per_peer, total, ops)| Case { min_ttl, max_ttl, per_peer, total, ops })
}

pub fn run(ctx: &mut Ctx) {
    ctx.assume("expiry is driven by the hook fire_expiry(id), which pushes a ready future into the real expiry queue; real timers (TTL >= 1000 s) never fire during a case");
    ctx.assume("the cookie cache is large enough (default 10 000) that no cookie is evicted within a case; a refresh is a new registration for the purpose of 'at most once per cookie chain'");
    ctx.assume("beyond the statement, discovery is also required to return min(limit, eligible) registrations (otherwise 'accepted' would be unobservable); the limit itself is not asserted");
    let max_ops = ctx.tier.sel(30, 60);
    ctx.check(
        "model",
        "config (min_ttl 1..3, max_ttl 3..6 [x1000 s], per-peer 1..3, total 1..5); 1..30 ops register(peer,ns,ttl in {default,min-1,min,mid,max,max+1}) / unregister / discover(ns|all, earlier cookie?, limit?) / fire_expiry(any earlier registration) over 4 peers x 4 namespaces (incl. the empty one), plus a closing discover-all; reference model with per-cookie seen sets; non-trivial = a refresh while the peer is at its per-peer limit, or a discover with a non-empty cookie after an expiry",
        ctx.n(6_000, 200_000),
        &|| case(max_ops).boxed(),
        &check,
    );
}
