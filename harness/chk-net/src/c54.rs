//! C54 — the peer store keeps permanent addresses and bounded records.
//!
//! `MemoryStore` is driven only through its public API (`add_address`, `remove_address`, custom data,
//! `Store::on_swarm_event`, `Store::addresses_of_peer`, `Store::poll`, `record_iter`) and compared after
//! every operation with a set-based reference model. Which entry a capacity eviction picks is not
//! part of the statement: the model only requires that an eviction happens when (and exactly as far
//! as) a capacity would be exceeded, never hits the entry just added, and re-synchronises on the
//! survivor set.
use futures::task::noop_waker_ref;
use libp2p_core::transport::{PortUse, TransportError};
use libp2p_core::{ConnectedPoint, Endpoint, Multiaddr, PeerId};
use libp2p_peer_store::memory_store::{Config, Event, MemoryStore};
use libp2p_peer_store::Store;
use libp2p_swarm::behaviour::{ConnectionEstablished, DialFailure, FromSwarm, NewExternalAddrOfPeer};
use libp2p_swarm::{ConnectionId, DialError};
use proptest::prelude::*;
use serde::{Deserialize, Serialize};
use serde_json::json;
use std::collections::{BTreeMap, BTreeSet};
use std::num::NonZeroUsize;
use std::task::{Context, Poll};
use vcore::{ensure, Ctx, Outcome};

const PEERS: u8 = 4;
const ADDRS: u8 = 5;

#[derive(Clone, Debug, Serialize, Deserialize)]
pub enum Op {
    Add { peer: u8, addr: u8 },
    Remove { peer: u8, addr: u8 },
    InsertData { peer: u8, v: u8 },
    TakeData { peer: u8 },
    NewExternalAddrOfPeer { peer: u8, addr: u8 },
    ConnEstablished { peer: u8, dialer: bool, remote: u8, failed: Vec<u8> },
    DialFailTransport { peer: Option<u8>, addrs: Vec<u8> },
    DialFailWrongPeer { peer: Option<u8>, obtained: u8, addr: u8 },
    /// 0 Aborted, 1 NoAddresses, 2 LocalPeerId{address}
    DialFailOther { peer: Option<u8>, kind: u8, addr: u8 },
}

#[derive(Clone, Debug, Serialize, Deserialize)]
pub struct Case {
    record_capacity: u8,
    peer_capacity: u8,
    remove_on_dial_error: bool,
    ops: Vec<Op>,
}

fn addr(i: u8) -> Multiaddr {
    match i % ADDRS {
        0 => "/ip4/10.0.0.1/tcp/4001".parse().unwrap(),
        1 => "/ip4/1.2.3.4/udp/4001/quic-v1".parse().unwrap(),
        2 => "/ip6/2606:4700::1111/tcp/443".parse().unwrap(),
        3 => "/dns/bootstrap.libp2p.io/tcp/4001".parse().unwrap(),
        _ => "/memory/7".parse().unwrap(),
    }
}

#[derive(Clone, Debug, Default, PartialEq)]
struct Rec {
    addrs: BTreeMap<u8, bool>, // addr -> permanent
    data: bool,
}

#[derive(Clone, Debug, PartialEq, Eq, PartialOrd, Ord)]
enum Ev {
    Added(u8, u8, bool),
    Removed(u8, u8),
}

#[derive(Default)]
struct Model {
    recs: BTreeMap<u8, Rec>,
    must: Vec<Ev>,
    /// (peer, addr) added by the current op
    added: Vec<(u8, u8)>,
    /// peers whose record was created or written by the current op
    touched: BTreeSet<u8>,
    /// a forced=false removal met a permanent address
    perm_protected: bool,
    auto_removed: bool,
}

impl Model {
    fn add_inner(&mut self, peer: u8, a: u8, perm: bool) {
        let rec = self.recs.entry(peer).or_default();
        self.touched.insert(peer);
        match rec.addrs.get_mut(&a) {
            Some(p) => *p = *p || perm,
            None => {
                rec.addrs.insert(a, perm);
                self.must.push(Ev::Added(peer, a, perm));
                self.added.push((peer, a));
            }
        }
    }
    fn remove_inner(&mut self, peer: u8, a: u8, force: bool) -> bool {
        let Some(rec) = self.recs.get_mut(&peer) else { return false };
        match rec.addrs.get(&a) {
            None => false,
            Some(true) if !force => {
                self.perm_protected = true;
                false
            }
            Some(_) => {
                rec.addrs.remove(&a);
                if !force {
                    self.auto_removed = true;
                }
                if rec.addrs.is_empty() && !rec.data {
                    self.recs.remove(&peer);
                }
                self.must.push(Ev::Removed(peer, a));
                true
            }
        }
    }
}

fn peer_of(i: u8) -> PeerId {
    vcore::gen::peer((i % PEERS) as usize)
}

fn peer_index(p: &PeerId) -> Option<u8> {
    (0..PEERS).find(|i| peer_of(*i) == *p)
}

fn addr_index(a: &Multiaddr) -> Option<u8> {
    (0..ADDRS).find(|i| addr(*i) == *a)
}

fn io_err() -> TransportError<std::io::Error> {
    TransportError::Other(std::io::Error::other("refused"))
}

fn check(case: &Case) -> Outcome {
    let rcap = case.record_capacity as usize;
    let pcap = case.peer_capacity as usize;
    let cfg = Config::default()
        .set_record_capacity(NonZeroUsize::new(rcap).unwrap())
        .set_peer_capacity(NonZeroUsize::new(pcap).unwrap())
        .set_remove_addr_on_dial_error(case.remove_on_dial_error);
    let mut store: MemoryStore<u8> = MemoryStore::new(cfg);
    let mut model = Model::default();
    let mut cx = Context::from_waker(noop_waker_ref());

    let mut nt_perm_survived = false;
    let mut saw_auto_removed = false;
    let mut saw_addr_eviction = false;
    let mut saw_peer_eviction = false;

    for (step, op) in case.ops.iter().enumerate() {
        model.must.clear();
        model.added.clear();
        model.touched.clear();
        model.perm_protected = false;
        model.auto_removed = false;
        let swarm_op;
        // ---- apply to SUT and to the (capacity-free) model
        match op {
            Op::Add { peer, addr: a } => {
                swarm_op = false;
                let was_new = !model.recs.get(&(peer % PEERS)).map(|r| r.addrs.contains_key(&(a % ADDRS))).unwrap_or(false);
                let got = store.add_address(&peer_of(*peer), &addr(*a));
                model.add_inner(peer % PEERS, a % ADDRS, true);
                ensure!(got == was_new, "C54:add_address-return-value", json!({"step": step, "returned": got, "address_was_new": was_new}));
            }
            Op::Remove { peer, addr: a } => {
                swarm_op = false;
                let got = store.remove_address(&peer_of(*peer), &addr(*a));
                let exp = model.remove_inner(peer % PEERS, a % ADDRS, true);
                ensure!(got == exp, "C54:remove_address-return-value", json!({"step": step, "returned": got, "address_existed": exp}));
            }
            Op::InsertData { peer, v } => {
                swarm_op = false;
                store.insert_custom_data(&peer_of(*peer), *v);
                model.recs.entry(peer % PEERS).or_default().data = true;
                model.touched.insert(peer % PEERS);
            }
            Op::TakeData { peer } => {
                swarm_op = false;
                let got = store.take_custom_data(&peer_of(*peer)).is_some();
                let p = peer % PEERS;
                let exp = model.recs.get(&p).map(|r| r.data).unwrap_or(false);
                if let Some(r) = model.recs.get_mut(&p) {
                    r.data = false;
                    if r.addrs.is_empty() {
                        model.recs.remove(&p);
                    }
                }
                ensure!(got == exp, "C54:take_custom_data-mismatch", json!({"step": step, "returned_some": got, "model_had_data": exp}));
            }
            Op::NewExternalAddrOfPeer { peer, addr: a } => {
                swarm_op = true;
                let ma = addr(*a);
                store.on_swarm_event(&FromSwarm::NewExternalAddrOfPeer(NewExternalAddrOfPeer { peer_id: peer_of(*peer), addr: &ma }));
                model.add_inner(peer % PEERS, a % ADDRS, false);
            }
            Op::ConnEstablished { peer, dialer, remote, failed } => {
                swarm_op = true;
                let endpoint = if *dialer {
                    ConnectedPoint::Dialer { address: addr(*remote), role_override: Endpoint::Dialer, port_use: PortUse::Reuse }
                } else {
                    ConnectedPoint::Listener { local_addr: "/ip4/127.0.0.1/tcp/1".parse().unwrap(), send_back_addr: addr(*remote) }
                };
                let failed_addrs: Vec<Multiaddr> = failed.iter().map(|f| addr(*f)).collect();
                store.on_swarm_event(&FromSwarm::ConnectionEstablished(ConnectionEstablished {
                    peer_id: peer_of(*peer),
                    connection_id: ConnectionId::new_unchecked(step),
                    endpoint: &endpoint,
                    failed_addresses: &failed_addrs,
                    other_established: 0,
                }));
                if *dialer {
                    if case.remove_on_dial_error {
                        for f in failed {
                            model.remove_inner(peer % PEERS, f % ADDRS, false);
                        }
                    }
                    model.add_inner(peer % PEERS, remote % ADDRS, false);
                }
            }
            Op::DialFailTransport { peer, addrs } => {
                swarm_op = true;
                let err = DialError::Transport(addrs.iter().map(|a| (addr(*a), io_err())).collect());
                store.on_swarm_event(&FromSwarm::DialFailure(DialFailure { peer_id: peer.map(peer_of), error: &err, connection_id: ConnectionId::new_unchecked(step) }));
                if let (true, Some(p)) = (case.remove_on_dial_error, peer) {
                    for a in addrs {
                        model.remove_inner(p % PEERS, a % ADDRS, false);
                    }
                }
            }
            Op::DialFailWrongPeer { peer, obtained, addr: a } => {
                swarm_op = true;
                let err = DialError::WrongPeerId { obtained: peer_of(*obtained), address: addr(*a) };
                store.on_swarm_event(&FromSwarm::DialFailure(DialFailure { peer_id: peer.map(peer_of), error: &err, connection_id: ConnectionId::new_unchecked(step) }));
                if let (true, Some(p)) = (case.remove_on_dial_error, peer) {
                    if model.remove_inner(p % PEERS, a % ADDRS, false) {
                        model.add_inner(obtained % PEERS, a % ADDRS, false);
                    }
                }
            }
            Op::DialFailOther { peer, kind, addr: a } => {
                swarm_op = true;
                let err = match kind % 3 {
                    0 => DialError::Aborted,
                    1 => DialError::NoAddresses,
                    _ => DialError::LocalPeerId { address: addr(*a) },
                };
                store.on_swarm_event(&FromSwarm::DialFailure(DialFailure { peer_id: peer.map(peer_of), error: &err, connection_id: ConnectionId::new_unchecked(step) }));
            }
        }

        // ---- observe the SUT
        let mut actual: BTreeMap<u8, Rec> = BTreeMap::new();
        let mut n_records = 0usize;
        for (p, _) in store.record_iter() {
            n_records += 1;
            let Some(pi) = peer_index(p) else {
                return Outcome::fail("C54:unknown-peer-in-store", json!({"step": step, "peer": p.to_string()}));
            };
            actual.entry(pi).or_default();
        }
        ensure!(n_records <= pcap, "C54:peer-capacity-exceeded", json!({"step": step, "op": op, "peers_in_store": n_records, "peer_capacity": pcap}));
        for pi in 0..PEERS {
            let p = peer_of(pi);
            let listed: Option<Vec<Multiaddr>> = store.addresses_of_peer(&p).map(|it| it.cloned().collect());
            let has_data = store.get_custom_data(&p).is_some();
            match (listed, actual.get_mut(&pi)) {
                (None, None) => {}
                (Some(l), Some(rec)) => {
                    ensure!(l.len() <= rcap, "C54:record-capacity-exceeded", json!({"step": step, "op": op, "peer": pi, "addresses": l.len(), "record_capacity": rcap}));
                    for a in &l {
                        let Some(ai) = addr_index(a) else {
                            return Outcome::fail("C54:unknown-address-in-store", json!({"step": step, "addr": a.to_string()}));
                        };
                        ensure!(rec.addrs.insert(ai, false).is_none(), "C54:duplicate-address-in-record", json!({"step": step, "peer": pi, "addr": ai}));
                    }
                    rec.data = has_data;
                }
                (l, r) => {
                    return Outcome::fail("C54:record_iter-and-addresses_of_peer-disagree", json!({"step": step, "peer": pi, "addresses_of_peer_is_some": l.is_some(), "in_record_iter": r.is_some()}));
                }
            }
        }
        let mut events: Vec<Ev> = vec![];
        while let Poll::Ready(ev) = store.poll(&mut cx) {
            let e = match ev {
                Event::PeerAddressAdded { peer_id, address, is_permanent } => Ev::Added(peer_index(&peer_id).unwrap_or(255), addr_index(&address).unwrap_or(255), is_permanent),
                Event::PeerAddressRemoved { peer_id, address } => Ev::Removed(peer_index(&peer_id).unwrap_or(255), addr_index(&address).unwrap_or(255)),
            };
            events.push(e);
        }

        // ---- compare state: actual ⊆ expected; what is missing must be a justified capacity eviction
        let expected = &model.recs;
        let ctx_json = |extra: serde_json::Value| json!({"step": step, "op": op, "detail": extra, "expected_without_capacity": format!("{expected:?}"), "actual": format!("{actual:?}")});
        for (pi, rec) in &actual {
            let Some(exp) = expected.get(pi) else {
                return Outcome::fail("C54:phantom-peer", ctx_json(json!({"peer": pi})));
            };
            for a in rec.addrs.keys() {
                ensure!(exp.addrs.contains_key(a), "C54:phantom-address", ctx_json(json!({"peer": pi, "addr": a})));
            }
        }
        let mut evicted: Vec<(u8, u8)> = vec![];
        let missing_peers: Vec<u8> = expected.keys().filter(|p| !actual.contains_key(p)).cloned().collect();
        if !missing_peers.is_empty() {
            let overflow = expected.len().saturating_sub(pcap);
            if missing_peers.len() != overflow {
                let sig = if overflow == 0 { "C54:peer-disappeared-without-capacity-pressure" } else { "C54:peer-eviction-count-differs-from-overflow" };
                return Outcome::fail(sig, ctx_json(json!({"missing_peers": missing_peers, "overflow": overflow})));
            }
            for p in &missing_peers {
                ensure!(!model.touched.contains(p), "C54:peer-just-written-was-evicted", ctx_json(json!({"peer": p})));
                for a in expected[p].addrs.keys() {
                    evicted.push((*p, *a));
                }
            }
            saw_peer_eviction = true;
        }
        for (pi, exp) in expected {
            let Some(act) = actual.get(pi) else { continue };
            ensure!(act.data == exp.data, "C54:custom-data-presence-mismatch", ctx_json(json!({"peer": pi})));
            let missing: Vec<u8> = exp.addrs.keys().filter(|a| !act.addrs.contains_key(a)).cloned().collect();
            if missing.is_empty() {
                continue;
            }
            let overflow = exp.addrs.len().saturating_sub(rcap);
            if missing.len() != overflow {
                let any_perm = missing.iter().any(|a| exp.addrs[a]);
                let sig = if overflow > 0 {
                    "C54:address-eviction-count-differs-from-overflow"
                } else if swarm_op && any_perm {
                    "C54:permanent-address-removed-by-swarm-event"
                } else {
                    "C54:address-disappeared-without-removal"
                };
                return Outcome::fail(sig, ctx_json(json!({"peer": pi, "missing": missing, "overflow": overflow})));
            }
            for a in &missing {
                ensure!(!model.added.contains(&(*pi, *a)), "C54:address-just-added-was-evicted", ctx_json(json!({"peer": pi, "addr": a})));
                evicted.push((*pi, *a));
            }
            saw_addr_eviction = true;
        }

        // ---- events: exactly the model's additions/removals (a Removed for a capacity eviction is allowed, not required)
        let mut got = events.clone();
        for (p, a) in &evicted {
            if let Some(pos) = got.iter().position(|e| *e == Ev::Removed(*p, *a)) {
                got.remove(pos);
            }
        }
        let mut want = model.must.clone();
        got.sort();
        want.sort();
        if got != want {
            let missing_ev = want.iter().any(|w| !got.contains(w));
            let sig = if missing_ev { "C54:event-missing" } else { "C54:event-unexpected" };
            return Outcome::fail(sig, json!({"step": step, "op": op, "events": format!("{events:?}"), "expected_events": format!("{:?}", model.must), "evicted_by_capacity": evicted}));
        }

        if model.perm_protected {
            nt_perm_survived = true;
        }
        if model.auto_removed {
            saw_auto_removed = true;
        }

        // ---- re-synchronise the model on the survivor set (permanence bits come from the model)
        let mut next: BTreeMap<u8, Rec> = BTreeMap::new();
        for (pi, act) in &actual {
            let exp = &expected[pi];
            let mut r = Rec { addrs: BTreeMap::new(), data: act.data };
            for a in act.addrs.keys() {
                r.addrs.insert(*a, exp.addrs[a]);
            }
            next.insert(*pi, r);
        }
        model.recs = next;
    }

    let mut labels = vec![];
    if nt_perm_survived {
        labels.push("permanent_addr_survived_dial_failure");
    }
    if saw_auto_removed {
        labels.push("auto_removed");
    }
    if saw_addr_eviction {
        labels.push("addr_capacity_eviction");
    }
    if saw_peer_eviction {
        labels.push("peer_capacity_eviction");
    }
    if case.remove_on_dial_error {
        labels.push("remove_on_dial_error");
    }
    Outcome::pass_l(nt_perm_survived && saw_auto_removed, labels)
}

fn op() -> impl Strategy<Value = Op> {
    let peer = || 0u8..PEERS;
    let a = || 0u8..ADDRS;
    let opt_peer = || proptest::option::weighted(0.9, 0u8..PEERS);
    prop_oneof![
        4 => (peer(), a()).prop_map(|(peer, addr)| Op::Add { peer, addr }),
        2 => (peer(), a()).prop_map(|(peer, addr)| Op::Remove { peer, addr }),
        1 => (peer(), any::<u8>()).prop_map(|(peer, v)| Op::InsertData { peer, v }),
        1 => peer().prop_map(|peer| Op::TakeData { peer }),
        3 => (peer(), a()).prop_map(|(peer, addr)| Op::NewExternalAddrOfPeer { peer, addr }),
        3 => (peer(), prop::bool::weighted(0.8), a(), proptest::collection::vec(a(), 0..3)).prop_map(|(peer, dialer, remote, failed)| Op::ConnEstablished { peer, dialer, remote, failed }),
        3 => (opt_peer(), proptest::collection::vec(a(), 0..4)).prop_map(|(peer, addrs)| Op::DialFailTransport { peer, addrs }),
        2 => (opt_peer(), peer(), a()).prop_map(|(peer, obtained, addr)| Op::DialFailWrongPeer { peer, obtained, addr }),
        1 => (opt_peer(), 0u8..3, a()).prop_map(|(peer, kind, addr)| Op::DialFailOther { peer, kind, addr }),
    ]
}

fn case(max_ops: usize) -> impl Strategy<Value = Case> {
    (1u8..=3, 1u8..=3, prop::bool::weighted(0.8), proptest::collection::vec(op(), 1..=max_ops))
        .prop_map(|(record_capacity, peer_capacity, remove_on_dial_error, ops)| Case { record_capacity, peer_capacity, remove_on_dial_error, ops })
}

pub fn run(ctx: &mut Ctx) {
    ctx.assume("capacity eviction is neither an explicit nor an automatic removal (DESIGN §9): which entry is evicted and whether an event is emitted for it is not asserted; an eviction must be justified by an exceeded capacity, evict exactly the overflow and never the entry just written");
    ctx.assume("custom data only matters as far as it keeps a peer record alive");
    let max_ops = ctx.tier.sel(30, 60);
    ctx.check(
        "model",
        "Config(record_capacity 1..3, peer_capacity 1..3, remove_addr_on_dial_error) and 1..30 ops over 4 peers x 5 addresses: add/remove_address, custom data, NewExternalAddrOfPeer, ConnectionEstablished{dialer|listener, failed_addresses}, DialFailure{Transport|WrongPeerId|other, peer Some|None}; state, sizes and drained events compared with the reference model after every op; non-trivial = a dial-failure path met a permanent address (kept) and some non-permanent address was removed automatically",
        ctx.n(20_000, 600_000),
        &|| case(max_ops).boxed(),
        &check,
    );
}
