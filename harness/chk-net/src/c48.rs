//! C48 — relay rate limiters are token buckets.
//!
//! The limiters are obtained through the public `relay::Config::reservation_rate_per_peer/per_ip`
//! constructors (the boxed `RateLimiter` trait objects are public fields of `Config`); `now` is an
//! explicit argument, so the whole check is pure.
use libp2p_identity::PeerId;
use libp2p_relay as relay;
use multiaddr::{Multiaddr, Protocol};
use proptest::prelude::*;
use serde::{Deserialize, Serialize};
use std::collections::BTreeMap;
use std::net::{Ipv4Addr, Ipv6Addr};
use std::num::NonZeroU32;
use std::time::{Duration, Instant};
use vcore::{ensure, Ctx, Outcome};

#[derive(Clone, Debug, Serialize, Deserialize)]
pub enum Gap {
    Zero,
    Micros(u16),
    /// `n/8` of the interval
    Eighths(u8),
    /// `k` whole intervals minus `minus_us` microseconds
    Intervals { k: u8, minus_us: u8 },
    /// `limit * interval` plus `plus_us` microseconds (the statement's idle time)
    Idle { plus_us: u8 },
    /// `limit * interval - 1us`
    AlmostIdle,
    /// `mult * limit * interval`
    Long { mult: u8 },
}

#[derive(Clone, Debug, Serialize, Deserialize)]
pub struct Req {
    gap: Gap,
    peer: u8,
    /// 0..3 = one of three IPs, 3 = an address without any IP component
    ip: u8,
    /// peer used in the second ("peer ids permuted") run of the per-IP limiter
    alt_peer: u8,
}

#[derive(Clone, Debug, Serialize, Deserialize)]
pub struct Case {
    limit: u32,
    interval_us: u64,
    per_ip: bool,
    reqs: Vec<Req>,
}

fn gap_us(g: &Gap, limit: u64, interval: u64) -> u64 {
    match g {
        Gap::Zero => 0,
        Gap::Micros(n) => *n as u64,
        Gap::Eighths(n) => interval * (*n as u64) / 8,
        Gap::Intervals { k, minus_us } => (interval * (*k as u64)).saturating_sub(*minus_us as u64),
        Gap::Idle { plus_us } => limit * interval + *plus_us as u64,
        Gap::AlmostIdle => (limit * interval).saturating_sub(1),
        Gap::Long { mult } => limit * interval * (*mult as u64),
    }
}

fn addr_of(ip: u8, salt: usize) -> Multiaddr {
    let port = 4000 + (salt % 3) as u16;
    let mut a = Multiaddr::empty();
    match ip {
        0 => a.push(Protocol::Ip4(Ipv4Addr::new(10, 0, 0, 1))),
        1 => a.push(Protocol::Ip4(Ipv4Addr::new(1, 2, 3, 4))),
        2 => a.push(Protocol::Ip6(Ipv6Addr::new(0x2606, 0x4700, 0, 0, 0, 0, 0, 0x1111))),
        _ => a.push(Protocol::Dns("relay.example.com".into())),
    }
    a.push(Protocol::Tcp(port));
    a
}

fn limiter(per_ip: bool, limit: u32, interval: Duration) -> Box<dyn relay::RateLimiter> {
    let mut cfg = relay::Config::default();
    cfg.reservation_rate_limiters.clear();
    let limit = NonZeroU32::new(limit).expect("limit >= 1");
    let mut cfg = if per_ip { cfg.reservation_rate_per_ip(limit, interval) } else { cfg.reservation_rate_per_peer(limit, interval) };
    cfg.reservation_rate_limiters.pop().expect("constructor pushed one limiter")
}

fn check(case: &Case) -> Outcome {
    let limit = case.limit as u64;
    let interval = case.interval_us;
    let interval_d = Duration::from_micros(interval);
    let base = Instant::now(); // opaque origin; only differences are ever used
    let peers: Vec<PeerId> = (0..3).map(vcore::gen::peer).collect();

    let mut lim = limiter(case.per_ip, case.limit, interval_d);
    let mut lim_alt = limiter(case.per_ip, case.limit, interval_d);

    // (time_us, identity, accepted)
    let mut t = 0u64;
    let mut log: Vec<(u64, u8, bool)> = Vec::with_capacity(case.reqs.len());
    let mut no_ip_seen = false;
    for (i, r) in case.reqs.iter().enumerate() {
        t += gap_us(&r.gap, limit, interval);
        let now = base + Duration::from_micros(t);
        let addr = addr_of(r.ip, i);
        let ok = lim.try_next(peers[r.peer as usize % 3], &addr, now);
        if case.per_ip {
            // same (time, address) sequence, different peer ids: decisions must not change
            let ok_alt = lim_alt.try_next(peers[r.alt_peer as usize % 3], &addr, now);
            ensure!(
                ok == ok_alt,
                "C48:per-ip-depends-on-peer-id",
                serde_json::json!({"request": i, "t_us": t, "ip": r.ip, "peer": r.peer, "alt_peer": r.alt_peer, "decision": ok, "decision_with_other_peer": ok_alt})
            );
            if r.ip >= 3 {
                // no IP component: not covered by the statement (implementation: always accepted)
                no_ip_seen = true;
                continue;
            }
            log.push((t, r.ip, ok));
        } else {
            log.push((t, r.peer % 3, ok));
        }
    }

    let mut by_id: BTreeMap<u8, Vec<(u64, bool)>> = BTreeMap::new();
    for (t, id, ok) in &log {
        by_id.entry(*id).or_default().push((*t, *ok));
    }
    let mut rejected_then_accepted = false;
    let mut idle_accepts = 0;
    let mut tight = false;
    for (id, v) in &by_id {
        // idle rule (an identity never seen before has been idle forever)
        for k in 0..v.len() {
            let idle = k == 0 || v[k].0 - v[k - 1].0 >= limit * interval;
            if idle {
                ensure!(
                    v[k].1,
                    "C48:idle-identity-rejected",
                    serde_json::json!({"identity": id, "request_of_identity": k, "t_us": v[k].0, "prev_t_us": if k > 0 { Some(v[k-1].0) } else { None }, "limit": limit, "interval_us": interval})
                );
                if k > 0 {
                    idle_accepts += 1;
                }
            }
        }
        // window bound
        for i in 0..v.len() {
            let mut acc = 0u64;
            for j in i..v.len() {
                if v[j].1 {
                    acc += 1;
                }
                let bound = limit + (v[j].0 - v[i].0) / interval;
                ensure!(
                    acc <= bound,
                    "C48:window-exceeds-token-bucket",
                    serde_json::json!({"identity": id, "from_t_us": v[i].0, "to_t_us": v[j].0, "accepted": acc, "bound": bound, "limit": limit, "interval_us": interval,
                        "decisions": v.iter().map(|(t, ok)| serde_json::json!([t, ok])).collect::<Vec<_>>()})
                );
                if acc == bound && v[j].0 > v[i].0 && v[j].1 {
                    tight = true;
                }
            }
        }
        let first_rej = v.iter().position(|(_, ok)| !*ok);
        if let Some(p) = first_rej {
            if v[p..].iter().any(|(_, ok)| *ok) {
                rejected_then_accepted = true;
            }
        }
    }
    let mut labels = vec![if case.per_ip { "per_ip" } else { "per_peer" }];
    if rejected_then_accepted {
        labels.push("rejected_then_refilled");
    }
    if idle_accepts > 0 {
        labels.push("idle_accept");
    }
    if tight {
        labels.push("bound_tight_over_positive_window");
    }
    if no_ip_seen {
        labels.push("addr_without_ip");
    }
    if log.iter().any(|(_, _, ok)| !*ok) {
        labels.push("some_rejected");
    }
    Outcome::pass_l(rejected_then_accepted, labels)
}

fn gap() -> impl Strategy<Value = Gap> {
    prop_oneof![
        7 => Just(Gap::Zero),
        3 => (0u16..2000).prop_map(Gap::Micros),
        5 => (0u8..=16).prop_map(Gap::Eighths),
        3 => (1u8..=5, 0u8..3).prop_map(|(k, minus_us)| Gap::Intervals { k, minus_us }),
        1 => (0u8..3).prop_map(|plus_us| Gap::Idle { plus_us }),
        1 => Just(Gap::AlmostIdle),
        1 => (1u8..=10).prop_map(|mult| Gap::Long { mult }),
    ]
}

fn case(max_reqs: usize) -> impl Strategy<Value = Case> {
    let interval = prop_oneof![
        6 => (1u64..=10).prop_map(|s| s * 1_000_000),
        2 => (1u64..=5000).prop_map(|ms| ms * 1000),
        1 => 1u64..=1000,
    ];
    let req = (gap(), 0u8..3, prop_oneof![8 => 0u8..3, 1 => Just(3u8)], 0u8..3).prop_map(|(gap, peer, ip, alt_peer)| Req { gap, peer, ip, alt_peer });
    (1u32..=5, interval, any::<bool>(), proptest::collection::vec(req, 1..=max_reqs)).prop_map(|(limit, interval_us, per_ip, reqs)| Case { limit, interval_us, per_ip, reqs })
}

pub fn run(ctx: &mut Ctx) {
    ctx.assume("timestamps are whole microseconds and the interval is a whole number of microseconds >= 1 (the implementation counts refills in microseconds)");
    ctx.assume("an identity that was never seen counts as idle; per-IP requests whose address has no IP component are outside the statement (only the peer-id invariance is asserted for them)");
    let max_reqs = ctx.tier.sel(40, 80);
    ctx.check(
        "token-bucket",
        "limit 1..5, interval 1..10 s (also ms/us scale), 1..40 requests over 3 peers x 3 IPs with non-decreasing timestamps (gaps: 0, us, eighths of the interval, k intervals -0..2us, limit*interval +-, long); per-peer or per-IP limiter from relay::Config; per-IP run twice with different peer ids; non-trivial = some identity was rejected and later accepted again (a refill was observed)",
        ctx.n(200_000, 6_000_000),
        &|| case(max_reqs).boxed(),
        &check,
    );
}
