//! C16 — the Noise handshake authenticates exactly the remote identity.
//!
//! (a) on-path adversary: two honest `noise::Config` endpoints run on the simulation executor, each on its
//!     own vcore::simio pipe; the harness is the network between them (it drains what one side wrote with
//!     `take_raw`, reframes it into the 2-byte length-prefixed Noise messages, applies the scripted action of
//!     that message — flip / mutate / truncate / drop / duplicate / replay (same or previous session) /
//!     reorder — and injects the result into the other side with `push_raw`).
//! (b) malicious endpoint: the harness itself speaks Noise_XX_25519_ChaChaPoly_SHA256 with `snow` (own
//!     CryptoResolver: x25519-dalek DH, ring cipher/hash, deterministic randomness), as initiator or
//!     responder, and sends crafted identity payload protobufs to one honest `noise::Config` endpoint.
use crate::noisekit::*;
use crate::util::*;
use futures::prelude::*;
use libp2p_identity::{PeerId, PublicKey};
use libp2p_noise as noise;
use proptest::prelude::*;
use serde::{Deserialize, Serialize};
use serde_json::json;
use vcore::gen::{apply_mutations, mutation, Mutation};
use vcore::refcodec::pb_bytes;
use vcore::runner::LANES;
use vcore::simexec::{Exec, Slot};
use vcore::simio::{self, DirCfg, Duplex, Script};
use vcore::{ensure, Ctx, Outcome};

const DOMAIN: &[u8] = b"noise-libp2p-static-key:";

// ---------------------------------------------------------------------------------------------
// honest endpoint task

#[derive(Debug, Clone)]
struct EpReport {
    /// Ok(peer id) or Err(label, text)
    hs: Result<PeerId, (&'static str, String)>,
}

const TAG_I: &[u8; 8] = b"init->rs";
const TAG_R: &[u8; 8] = b"resp->in";

async fn endpoint(cfg: noise::Config, sock: Duplex, initiator: bool, hs: Slot<EpReport>, io: Slot<Result<Vec<u8>, String>>) {
    match upgrade(cfg, sock, initiator).await {
        Err(e) => hs.set(EpReport { hs: Err((err_label(&e), e.to_string())) }),
        Ok((peer, mut out)) => {
            hs.set(EpReport { hs: Ok(peer) });
            let r: Result<Vec<u8>, String> = async {
                out.write_all(if initiator { TAG_I } else { TAG_R }).await.map_err(|e| e.to_string())?;
                out.flush().await.map_err(|e| e.to_string())?;
                let mut b = [0u8; 8];
                out.read_exact(&mut b).await.map_err(|e| e.to_string())?;
                Ok(b.to_vec())
            }
            .await;
            io.set(r);
        }
    }
}

// ---------------------------------------------------------------------------------------------
// (a) on-path adversary

#[derive(Clone, Debug, PartialEq, Serialize, Deserialize)]
pub enum Action {
    Forward,
    /// XOR one byte of the framed message (position scaled into the message, prefix included)
    Flip { pos: u16, xor: u8 },
    /// XOR the byte at this absolute offset of the framed message (exhaustive sweep)
    FlipAbs { pos: u16, xor: u8 },
    /// structure-aware mutations of the whole framed message (may desynchronise the framing)
    Mutate(Vec<Mutation>),
    /// mutations of the message body, length prefix recomputed
    MutateBody(Vec<Mutation>),
    /// deliver only the first `pos` (scaled) bytes, then end the stream
    Truncate { pos: u16 },
    Drop,
    Duplicate,
    /// deliver the message recorded at the same position of a previous honest session of the same two configs
    ReplayPreviousSession,
    /// deliver (again) an earlier message of this session that travelled in the same direction (msg1 for msg3)
    /// or reflect the receiver's own first message back to it (for msg2)
    ReplaySameSession,
    /// hold this message and deliver it after the next one of the same direction
    SwapWithNext,
}

#[derive(Clone, Debug, Serialize, Deserialize)]
pub struct MitmCase {
    ki: u8,
    kr: u8,
    prologue_i: Vec<u8>,
    prologue_r: Vec<u8>,
    /// actions for msg1 (i→r), msg2 (r→i), msg3 (i→r), first data frame i→r, first data frame r→i
    actions: [Action; 5],
    read_i: Script,
    read_r: Script,
    schedule: Vec<u16>,
}

struct Session {
    res_i: Option<EpReport>,
    res_r: Option<EpReport>,
    io_i: Option<Result<Vec<u8>, String>>,
    io_r: Option<Result<Vec<u8>, String>>,
    /// frames as sent by the initiator / responder (with prefix)
    sent_i: Vec<Vec<u8>>,
    sent_r: Vec<Vec<u8>>,
    /// raw bytes delivered to the responder / initiator
    deliv_r: Vec<u8>,
    deliv_i: Vec<u8>,
    bound_hit: bool,
}

fn scaled(pos: u16, len: usize) -> usize {
    vcore::pick(pos, len)
}

/// Run one session. `prev` = frames recorded in a previous honest session (for ReplayPreviousSession).
fn run_session(cfg_i: noise::Config, cfg_r: noise::Config, actions: &[Action; 5], read_i: &Script, read_r: &Script, schedule: &[u16], prev: Option<(&[Vec<u8>], &[Vec<u8>])>) -> Session {
    let dir = |s: &Script| DirCfg { read: s.clone(), write: Script::whole(), capacity: None };
    // initiator's pipe: (i_end, i_far); the harness talks through the control clone of i_end
    let (i_end, _i_far) = simio::pair(DirCfg::default(), dir(read_i));
    let (r_end, _r_far) = simio::pair(DirCfg::default(), dir(read_r));
    let (ci, cr) = (i_end.clone(), r_end.clone());
    let ex = Exec::new();
    let (hs_i, hs_r, io_i, io_r) = (Slot::new(), Slot::new(), Slot::new(), Slot::new());
    ex.spawn_named("initiator", endpoint(cfg_i, i_end, true, hs_i.clone(), io_i.clone()));
    ex.spawn_named("responder", endpoint(cfg_r, r_end, false, hs_r.clone(), io_r.clone()));
    for &p in schedule {
        if ex.step(p).is_none() {
            break;
        }
    }
    let mut s = Session { res_i: None, res_r: None, io_i: None, io_r: None, sent_i: vec![], sent_r: vec![], deliv_r: vec![], deliv_i: vec![], bound_hit: false };
    let (mut buf_i, mut buf_r): (Vec<u8>, Vec<u8>) = (vec![], vec![]);
    let (mut held_i, mut held_r): (Option<Vec<u8>>, Option<Vec<u8>>) = (None, None);
    let (mut cut_i2r, mut cut_r2i) = (false, false);
    let mut rounds = 0;
    loop {
        if !ex.drain(200_000) {
            s.bound_hit = true;
            break;
        }
        rounds += 1;
        let (oi, or) = (ci.take_raw(), cr.take_raw());
        if (oi.is_empty() && or.is_empty()) || rounds > 64 {
            break;
        }
        buf_i.extend(oi);
        buf_r.extend(or);
        // initiator → responder
        let (frames, rest) = split_frames(&buf_i);
        buf_i = rest;
        for f in frames {
            let k = s.sent_i.len(); // 0 = msg1, 1 = msg3, 2.. = data
            s.sent_i.push(f.clone());
            let act = match k {
                0 => &actions[0],
                1 => &actions[2],
                2 => &actions[3],
                _ => &Action::Forward,
            };
            let same_session_replay = s.sent_i.first().cloned();
            let prev_frame = prev.and_then(|(pi, _)| pi.get(k).cloned());
            deliver(act, f, &cr, &mut s.deliv_r, &mut held_i, &mut cut_i2r, same_session_replay, prev_frame);
        }
        // responder → initiator
        let (frames, rest) = split_frames(&buf_r);
        buf_r = rest;
        for f in frames {
            let k = s.sent_r.len(); // 0 = msg2, 1.. = data
            s.sent_r.push(f.clone());
            let act = match k {
                0 => &actions[1],
                1 => &actions[4],
                _ => &Action::Forward,
            };
            // reflection: the initiator's own msg1
            let reflect = s.sent_i.first().cloned();
            let prev_frame = prev.and_then(|(_, pr)| pr.get(k).cloned());
            deliver(act, f, &ci, &mut s.deliv_i, &mut held_r, &mut cut_r2i, reflect, prev_frame);
        }
    }
    // nothing moves any more: whoever still waits sees the connection end
    ci.close_incoming();
    cr.close_incoming();
    if !ex.drain(200_000) {
        s.bound_hit = true;
    }
    s.res_i = hs_i.take();
    s.res_r = hs_r.take();
    s.io_i = io_i.take();
    s.io_r = io_r.take();
    ex.clear();
    s
}

#[allow(clippy::too_many_arguments)]
fn deliver(act: &Action, f: Vec<u8>, to: &Duplex, log: &mut Vec<u8>, held: &mut Option<Vec<u8>>, cut: &mut bool, same_session: Option<Vec<u8>>, prev: Option<Vec<u8>>) {
    if *cut {
        return;
    }
    let mut push = |bytes: &[u8]| {
        log.extend_from_slice(bytes);
        to.push_raw(bytes);
    };
    match act {
        Action::Forward => push(&f),
        Action::Flip { pos, xor } => {
            let mut g = f.clone();
            let i = scaled(*pos, g.len());
            g[i] ^= *xor;
            push(&g);
        }
        Action::FlipAbs { pos, xor } => {
            let mut g = f.clone();
            if let Some(b) = g.get_mut(*pos as usize) {
                *b ^= *xor;
            }
            push(&g);
        }
        Action::Mutate(m) => push(&apply_mutations(&f, m)),
        Action::MutateBody(m) => push(&frame(&apply_mutations(&f[2..], m))),
        Action::Truncate { pos } => {
            let i = scaled(*pos, f.len());
            push(&f[..i]);
            *cut = true;
            to.close_incoming();
        }
        Action::Drop => {}
        Action::Duplicate => {
            push(&f);
            push(&f);
        }
        Action::ReplayPreviousSession => match prev {
            Some(p) => push(&p),
            None => push(&f),
        },
        Action::ReplaySameSession => match same_session {
            Some(p) => push(&p),
            None => push(&f),
        },
        Action::SwapWithNext => {
            *held = Some(f);
            return;
        }
    }
    if let Some(h) = held.take() {
        push(&h);
    }
}

fn configs(c: &MitmCase) -> Option<(noise::Config, noise::Config, PeerId, PeerId)> {
    let keys = vcore::gen::keys().all();
    let (ki, kr) = (keys[c.ki as usize % keys.len()], keys[c.kr as usize % keys.len()]);
    let ci = noise::Config::new(ki).ok()?.with_prologue(c.prologue_i.clone());
    let cr = noise::Config::new(kr).ok()?.with_prologue(c.prologue_r.clone());
    Some((ci, cr, ki.public().to_peer_id(), kr.public().to_peer_id()))
}

fn check_mitm(c: &MitmCase) -> Outcome {
    let Some((cfg_i, cfg_r, id_i, id_r)) = configs(c) else { return Outcome::fail("C16:config-construction-failed", "") };
    let needs_prev = c.actions.iter().any(|a| *a == Action::ReplayPreviousSession);
    let all_fwd = [Action::Forward, Action::Forward, Action::Forward, Action::Forward, Action::Forward];
    let prev = if needs_prev {
        // same configs (same static DH keys, same identity signatures), honest network
        let p = run_session(cfg_i.clone(), cfg_r.clone(), &all_fwd, &Script::whole(), &Script::whole(), &[], None);
        Some((p.sent_i, p.sent_r))
    } else {
        None
    };
    let s = run_session(cfg_i, cfg_r, &c.actions, &c.read_i, &c.read_r, &c.schedule, prev.as_ref().map(|(a, b)| (&a[..], &b[..])));
    if s.bound_hit {
        return Outcome::Inconclusive("poll bound exceeded".into());
    }
    let (Some(ri), Some(rr)) = (s.res_i.clone(), s.res_r.clone()) else {
        return Outcome::fail("C16:handshake-neither-completes-nor-fails-after-eof", json!({"initiator": format!("{:?}", s.res_i), "responder": format!("{:?}", s.res_r)}));
    };
    let mut labels: Vec<&'static str> = vec![];
    let prologue_mismatch = c.prologue_i != c.prologue_r;
    // handshake bytes as sent vs as delivered
    let hs_i2r: Vec<u8> = s.sent_i.iter().take(2).flatten().copied().collect();
    let hs_r2i: Vec<u8> = s.sent_r.iter().take(1).flatten().copied().collect();
    let responder_saw_genuine = s.sent_i.len() >= 2 && s.deliv_r.starts_with(&hs_i2r);
    let initiator_saw_genuine = !s.sent_r.is_empty() && s.deliv_i.starts_with(&hs_r2i);
    let detail = || {
        json!({"initiator": format!("{:?}", ri.hs), "responder": format!("{:?}", rr.hs), "expected_initiator_id": id_i.to_string(), "expected_responder_id": id_r.to_string(),
               "actions": format!("{:?}", c.actions), "prologue_mismatch": prologue_mismatch,
               "sent_i": s.sent_i.iter().map(|f| f.len()).collect::<Vec<_>>(), "sent_r": s.sent_r.iter().map(|f| f.len()).collect::<Vec<_>>(),
               "delivered_to_responder": s.deliv_r.len(), "delivered_to_initiator": s.deliv_i.len()})
    };
    // 1. whoever completes reports the party it talked to
    if let Ok(p) = &ri.hs {
        ensure!(*p == id_r, "C16:wrong-peer-reported", detail());
    }
    if let Ok(p) = &rr.hs {
        ensure!(*p == id_i, "C16:wrong-peer-reported", detail());
    }
    // 2. a side completes only on the genuine, unmodified handshake messages of this session
    if ri.hs.is_ok() {
        ensure!(initiator_saw_genuine, "C16:handshake-completed-on-modified-messages", detail());
    }
    if rr.hs.is_ok() {
        ensure!(responder_saw_genuine, "C16:handshake-completed-on-modified-messages", detail());
    }
    // 3. differing prologues make the handshake fail
    if prologue_mismatch {
        ensure!(ri.hs.is_err() && rr.hs.is_err(), "C16:handshake-succeeds-with-different-prologues", detail());
        labels.push("prologue-mismatch");
    }
    // 4. positive control: an untouched exchange with equal prologues succeeds on both sides and carries data
    let untouched = c.actions.iter().all(|a| *a == Action::Forward);
    if untouched && !prologue_mismatch {
        ensure!(ri.hs.is_ok() && rr.hs.is_ok(), "C16:honest-handshake-failed", detail());
        ensure!(s.io_i == Some(Ok(TAG_R.to_vec())) && s.io_r == Some(Ok(TAG_I.to_vec())), "C16:no-data-after-honest-handshake", json!({"io_i": format!("{:?}", s.io_i), "io_r": format!("{:?}", s.io_r)}));
        labels.push("untouched");
    }
    // an unmodified handshake part followed by tampering with the first data frame: data must not be altered
    if let Some(Ok(d)) = &s.io_i {
        ensure!(d == TAG_R, "C16:altered-data-after-handshake", detail());
    }
    if let Some(Ok(d)) = &s.io_r {
        ensure!(d == TAG_I, "C16:altered-data-after-handshake", detail());
    }
    let effective = !(initiator_saw_genuine && responder_saw_genuine);
    if effective {
        labels.push("effective-modification");
    }
    labels.push(match (&ri.hs, &rr.hs) {
        (Ok(_), Ok(_)) => "both-complete",
        (Ok(_), Err(_)) => "only-initiator-completes",
        (Err(_), Ok(_)) => "only-responder-completes",
        (Err(_), Err(_)) => "both-fail",
    });
    for r in [&ri.hs, &rr.hs] {
        if let Err((l, _)) = r {
            labels.push(*l);
        }
    }
    Outcome::pass_l(effective || prologue_mismatch, labels)
}

fn action() -> impl Strategy<Value = Action> {
    prop_oneof![
        4 => (any::<u16>(), prop_oneof![(0u32..8).prop_map(|b| 1u8 << b), 1u8..=255]).prop_map(|(pos, xor)| Action::Flip { pos, xor }),
        2 => proptest::collection::vec(mutation(), 1..3).prop_map(Action::Mutate),
        2 => proptest::collection::vec(mutation(), 1..3).prop_map(Action::MutateBody),
        1 => any::<u16>().prop_map(|pos| Action::Truncate { pos }),
        1 => Just(Action::Drop),
        1 => Just(Action::Duplicate),
        1 => Just(Action::ReplayPreviousSession),
        1 => Just(Action::ReplaySameSession),
        1 => Just(Action::SwapWithNext),
    ]
}

fn mitm_case() -> impl Strategy<Value = MitmCase> {
    // which messages are attacked: mostly one, sometimes two (double mutations), rarely none
    let slots = prop_oneof![
        1 => Just([false; 5]),
        8 => (0usize..5).prop_map(|i| { let mut a = [false; 5]; a[i.min(4)] = true; a }),
        4 => (0usize..3, 0usize..5).prop_map(|(i, j)| { let mut a = [false; 5]; a[i] = true; a[j] = true; a }),
    ];
    let prologues = prop_oneof![
        8 => proptest::collection::vec(any::<u8>(), 0..8).prop_map(|p| (p.clone(), p)),
        1 => (proptest::collection::vec(any::<u8>(), 0..8), proptest::collection::vec(any::<u8>(), 0..8)),
        1 => proptest::collection::vec(any::<u8>(), 0..8).prop_map(|p| { let mut q = p.clone(); q.push(0); (p, q) }),
    ];
    (pool_idx(5), pool_idx(5), prologues, slots, proptest::collection::vec(action(), 5), simio::script_strategy(8), simio::script_strategy(8), proptest::collection::vec(any::<u16>(), 0..20)).prop_map(
        |(ki, kr, (prologue_i, prologue_r), slots, acts, read_i, read_r, schedule)| {
            let mut actions = [Action::Forward, Action::Forward, Action::Forward, Action::Forward, Action::Forward];
            for i in 0..5 {
                if slots[i] {
                    actions[i] = acts[i].clone();
                }
            }
            MitmCase { ki, kr, prologue_i, prologue_r, actions, read_i, read_r, schedule }
        },
    )
}

/// message lengths (with prefix) of an honest session between these two pool keys
fn honest_lengths(ki: u8, kr: u8) -> [usize; 3] {
    let c = MitmCase { ki, kr, prologue_i: vec![], prologue_r: vec![], actions: [Action::Forward, Action::Forward, Action::Forward, Action::Forward, Action::Forward], read_i: Script::whole(), read_r: Script::whole(), schedule: vec![] };
    let (a, b, _, _) = configs(&c).expect("configs");
    let s = run_session(a, b, &c.actions, &c.read_i, &c.read_r, &[], None);
    [s.sent_i.first().map(|f| f.len()).unwrap_or(0), s.sent_r.first().map(|f| f.len()).unwrap_or(0), s.sent_i.get(1).map(|f| f.len()).unwrap_or(0)]
}

// ---------------------------------------------------------------------------------------------
// (b) malicious endpoint speaking Noise XX through snow

struct DetRng {
    state: u64,
}
impl snow::types::Random for DetRng {
    fn try_fill_bytes(&mut self, dest: &mut [u8]) -> Result<(), snow::Error> {
        for b in dest.iter_mut() {
            self.state = self.state.wrapping_mul(6364136223846793005).wrapping_add(1442695040888963407);
            *b = (self.state >> 33) as u8;
        }
        Ok(())
    }
}

#[derive(Default)]
struct Dh25519 {
    sk: [u8; 32],
    pk: [u8; 32],
}
impl snow::types::Dh for Dh25519 {
    fn name(&self) -> &'static str {
        "25519"
    }
    fn pub_len(&self) -> usize {
        32
    }
    fn priv_len(&self) -> usize {
        32
    }
    fn set(&mut self, privkey: &[u8]) {
        self.sk.copy_from_slice(&privkey[..32]);
        self.pk = x25519_dalek::x25519(self.sk, x25519_dalek::X25519_BASEPOINT_BYTES);
    }
    fn generate(&mut self, rng: &mut dyn snow::types::Random) -> Result<(), snow::Error> {
        let mut sk = [0u8; 32];
        rng.try_fill_bytes(&mut sk)?;
        self.set(&sk);
        Ok(())
    }
    fn pubkey(&self) -> &[u8] {
        &self.pk
    }
    fn privkey(&self) -> &[u8] {
        &self.sk
    }
    fn dh(&self, pubkey: &[u8], out: &mut [u8]) -> Result<(), snow::Error> {
        let mut p = [0u8; 32];
        p.copy_from_slice(&pubkey[..32]);
        out[..32].copy_from_slice(&x25519_dalek::x25519(self.sk, p));
        Ok(())
    }
}

struct AdvResolver {
    seed: u64,
}
impl snow::resolvers::CryptoResolver for AdvResolver {
    fn resolve_rng(&self) -> Option<Box<dyn snow::types::Random>> {
        Some(Box::new(DetRng { state: self.seed }))
    }
    fn resolve_dh(&self, choice: &snow::params::DHChoice) -> Option<Box<dyn snow::types::Dh>> {
        matches!(choice, snow::params::DHChoice::Curve25519).then(|| Box::new(Dh25519::default()) as Box<dyn snow::types::Dh>)
    }
    fn resolve_hash(&self, choice: &snow::params::HashChoice) -> Option<Box<dyn snow::types::Hash>> {
        snow::resolvers::RingResolver.resolve_hash(choice)
    }
    fn resolve_cipher(&self, choice: &snow::params::CipherChoice) -> Option<Box<dyn snow::types::Cipher>> {
        snow::resolvers::RingResolver.resolve_cipher(choice)
    }
}

#[derive(Clone, Debug, PartialEq, Serialize, Deserialize)]
pub enum IdKey {
    /// protobuf of the public key of pool key i
    Pool(u8),
    /// that protobuf with byte mutations
    MutatedPool(u8, Vec<Mutation>),
    Raw(Vec<u8>),
}

#[derive(Clone, Copy, Debug, PartialEq, Serialize, Deserialize)]
pub enum Signed {
    /// "noise-libp2p-static-key:" ‖ the adversary's static DH public key of this session (the honest recipe)
    DomainThisStatic,
    /// the domain ‖ another static DH key (e.g. a signature captured from the signer's own honest sessions)
    DomainOtherStatic,
    /// the static key without the domain prefix
    NoDomain,
    /// another domain prefix ("libp2p-tls-handshake:") ‖ this static key
    OtherDomain,
    /// the domain ‖ the adversary's *ephemeral* key of this session
    DomainEphemeral,
    /// impersonation of the honest node itself: identity key and signature are the ones the honest node
    /// presented in an earlier session of the same Config (captured by the adversary), replayed unchanged
    /// next to the adversary's own static DH key; `id_key`, `signer`, `post` are ignored
    CapturedFromHonest,
}

#[derive(Clone, Debug, PartialEq, Serialize, Deserialize)]
pub enum SigPost {
    AsIs,
    Empty,
    Mutated(Vec<Mutation>),
}

#[derive(Clone, Debug, Serialize, Deserialize)]
pub struct ForgeCase {
    /// honest endpoint's identity key (pool index) and role
    honest: u8,
    honest_is_initiator: bool,
    /// the adversary's claimed identity
    id_key: IdKey,
    /// a decoy identity_key field placed *before* the effective one
    decoy: Option<u8>,
    /// pool key that produces the signature (the adversary holds this private key)
    signer: u8,
    signed: Signed,
    post: SigPost,
    with_extensions: bool,
    prologue: Vec<u8>,
    seed: u64,
    read: Script,
}

fn pool_pk(i: u8) -> PublicKey {
    let all = vcore::gen::keys().all();
    all[i as usize % all.len()].public()
}

struct AdvOutcome {
    honest: EpReport,
    /// protobuf bytes of the identity key the adversary claimed (the effective field)
    id_key_bytes: Vec<u8>,
    sig_bytes: Vec<u8>,
    adv_static_pub: [u8; 32],
    /// identity payload the honest side sent, as decrypted by the adversary
    honest_payload: Option<Vec<u8>>,
    honest_static: Option<Vec<u8>>,
    /// first post-handshake frame of the honest side as decrypted by the adversary's transport state
    data_from_honest: Option<Vec<u8>>,
}

fn adversary_session(c: &ForgeCase) -> Result<AdvOutcome, String> {
    let all = vcore::gen::keys().all();
    let honest_kp = all[c.honest as usize % all.len()];
    let cfg = noise::Config::new(honest_kp).map_err(|e| e.to_string())?.with_prologue(c.prologue.clone());
    if c.signed == Signed::CapturedFromHonest {
        // first session: the adversary behaves (own identity, honest recipe) and records what the node presents
        let polite = ForgeCase { id_key: IdKey::Pool(c.signer), decoy: None, signed: Signed::DomainThisStatic, post: SigPost::AsIs, seed: c.seed ^ 0xC0FFEE, ..c.clone() };
        let first = adversary_session_with(&polite, cfg.clone(), None)?;
        let p = first.honest_payload.ok_or_else(|| "capture session did not yield the honest payload".to_string())?;
        let f = vcore::refcodec::pb_parse(&p).unwrap_or_default();
        let key = f.iter().find(|x| x.0 == 1).map(|x| x.2.clone()).unwrap_or_default();
        let sig = f.iter().find(|x| x.0 == 2).map(|x| x.2.clone()).unwrap_or_default();
        return adversary_session_with(c, cfg, Some((key, sig)));
    }
    adversary_session_with(c, cfg, None)
}

fn adversary_session_with(c: &ForgeCase, cfg: noise::Config, captured: Option<(Vec<u8>, Vec<u8>)>) -> Result<AdvOutcome, String> {
    let all = vcore::gen::keys().all();
    let (h_end, _far) = simio::pair(DirCfg::default(), DirCfg { read: c.read.clone(), write: Script::whole(), capacity: None });
    let ctl = h_end.clone();
    let ex = Exec::new();
    let (hs, io) = (Slot::new(), Slot::new());
    ex.spawn_named("honest", endpoint(cfg, h_end, c.honest_is_initiator, hs.clone(), io.clone()));

    // adversary's static key and snow state
    let mut rng = DetRng { state: c.seed ^ 0x5eed };
    let mut static_sk = [0u8; 32];
    snow::types::Random::try_fill_bytes(&mut rng, &mut static_sk).unwrap();
    let static_pk = x25519_dalek::x25519(static_sk, x25519_dalek::X25519_BASEPOINT_BYTES);
    let mut other_sk = [0u8; 32];
    snow::types::Random::try_fill_bytes(&mut rng, &mut other_sk).unwrap();
    let other_pk = x25519_dalek::x25519(other_sk, x25519_dalek::X25519_BASEPOINT_BYTES);
    let params: snow::params::NoiseParams = "Noise_XX_25519_ChaChaPoly_SHA256".parse().map_err(|e| format!("{e:?}"))?;
    let builder = snow::Builder::with_resolver(params, Box::new(AdvResolver { seed: c.seed })).prologue(&c.prologue).map_err(|e| e.to_string())?.local_private_key(&static_sk).map_err(|e| e.to_string())?;
    let mut st = if c.honest_is_initiator { builder.build_responder() } else { builder.build_initiator() }.map_err(|e| e.to_string())?;

    let bound = |ex: &Exec| -> Result<(), String> {
        if ex.drain(200_000) {
            Ok(())
        } else {
            Err("poll bound".into())
        }
    };
    let mut inbuf: Vec<u8> = vec![];
    let next_frame = |ex: &Exec, inbuf: &mut Vec<u8>| -> Result<Option<Vec<u8>>, String> {
        bound(ex)?;
        inbuf.extend(ctl.take_raw());
        if inbuf.len() < 2 {
            return Ok(None);
        }
        let l = u16::from_be_bytes([inbuf[0], inbuf[1]]) as usize;
        if inbuf.len() < 2 + l {
            return Ok(None);
        }
        let f = inbuf[2..2 + l].to_vec();
        inbuf.drain(..2 + l);
        Ok(Some(f))
    };
    let mut tmp = vec![0u8; 65535];
    let mut out = vec![0u8; 65535];

    // the forged identity payload needs the ephemeral key for one recipe: snow does not expose it before the
    // message is written, so DomainEphemeral signs the first 32 bytes of our own first message (= e)
    let our_e: Option<Vec<u8>>;
    let build_payload = |our_e: &Option<Vec<u8>>| -> Result<(Vec<u8>, Vec<u8>, Vec<u8>), String> {
        if let Some((key, sig)) = &captured {
            let mut pb = pb_bytes(1, key);
            pb.extend(pb_bytes(2, sig));
            return Ok((pb, key.clone(), sig.clone()));
        }
        let signer = all[c.signer as usize % all.len()];
        let msg: Vec<u8> = match c.signed {
            Signed::DomainThisStatic => [DOMAIN, &static_pk[..]].concat(),
            Signed::DomainOtherStatic => [DOMAIN, &other_pk[..]].concat(),
            Signed::NoDomain => static_pk.to_vec(),
            Signed::OtherDomain => [&b"libp2p-tls-handshake:"[..], &static_pk[..]].concat(),
            Signed::DomainEphemeral => [DOMAIN, our_e.as_deref().unwrap_or(&other_pk[..])].concat(),
            Signed::CapturedFromHonest => unreachable!("handled above"),
        };
        let sig = signer.sign(&msg).map_err(|e| e.to_string())?;
        let sig = match &c.post {
            SigPost::AsIs => sig,
            SigPost::Empty => vec![],
            SigPost::Mutated(m) => apply_mutations(&sig, m),
        };
        let key = match &c.id_key {
            IdKey::Pool(i) => pool_pk(*i).encode_protobuf(),
            IdKey::MutatedPool(i, m) => apply_mutations(&pool_pk(*i).encode_protobuf(), m),
            IdKey::Raw(b) => b.clone(),
        };
        let mut pb = vec![];
        if let Some(d) = c.decoy {
            pb.extend(pb_bytes(1, &pool_pk(d).encode_protobuf()));
        }
        pb.extend(pb_bytes(1, &key));
        if !sig.is_empty() {
            pb.extend(pb_bytes(2, &sig));
        }
        if c.with_extensions {
            pb.extend(pb_bytes(4, &pb_bytes(2, b"/yamux/1.0.0")));
        }
        Ok((pb, key, sig))
    };

    let mut honest_payload = None;
    let (key_bytes, sig_bytes);
    if c.honest_is_initiator {
        // <- e
        let Some(m1) = next_frame(&ex, &mut inbuf)? else { return Err("honest initiator sent nothing".into()) };
        st.read_message(&m1, &mut tmp).map_err(|e| format!("adversary cannot read msg1: {e}"))?;
        // -> e, ee, s, es + payload
        // (write once with an empty payload on a scratch state is not possible; e is the first 32 bytes of the message we write)
        let (pb, k, s) = {
            // ephemeral is drawn deterministically from the resolver seed: the first generate() call
            let mut r = DetRng { state: c.seed };
            let mut esk = [0u8; 32];
            snow::types::Random::try_fill_bytes(&mut r, &mut esk).unwrap();
            our_e = Some(x25519_dalek::x25519(esk, x25519_dalek::X25519_BASEPOINT_BYTES).to_vec());
            build_payload(&our_e)?
        };
        key_bytes = k;
        sig_bytes = s;
        let n = st.write_message(&pb, &mut out).map_err(|e| format!("adversary cannot write msg2: {e}"))?;
        ctl.push_raw(&frame(&out[..n]));
        // <- s, se + payload
        if let Some(m3) = next_frame(&ex, &mut inbuf)? {
            let n = st.read_message(&m3, &mut tmp).map_err(|e| format!("adversary cannot read msg3: {e}"))?;
            honest_payload = Some(tmp[..n].to_vec());
        }
    } else {
        // -> e
        let n = st.write_message(&[], &mut out).map_err(|e| format!("adversary cannot write msg1: {e}"))?;
        our_e = Some(out[..32].to_vec());
        ctl.push_raw(&frame(&out[..n]));
        // <- e, ee, s, es + payload
        let Some(m2) = next_frame(&ex, &mut inbuf)? else { return Err("honest responder did not answer msg1".into()) };
        let n = st.read_message(&m2, &mut tmp).map_err(|e| format!("adversary cannot read msg2: {e}"))?;
        honest_payload = Some(tmp[..n].to_vec());
        // -> s, se + payload
        let (pb, k, s) = build_payload(&our_e)?;
        key_bytes = k;
        sig_bytes = s;
        let n = st.write_message(&pb, &mut out).map_err(|e| format!("adversary cannot write msg3: {e}"))?;
        ctl.push_raw(&frame(&out[..n]));
    }
    let honest_static = st.get_remote_static().map(|s| s.to_vec());
    // transport phase: read the honest side's tag (if it accepted us) and answer
    let mut data_from_honest = None;
    if st.is_handshake_finished() {
        let mut ts = st.into_transport_mode().map_err(|e| e.to_string())?;
        if let Some(f) = next_frame(&ex, &mut inbuf)? {
            if let Ok(n) = ts.read_message(&f, &mut tmp) {
                data_from_honest = Some(tmp[..n].to_vec());
            }
            let n = ts.write_message(b"adv->hon", &mut out).map_err(|e| e.to_string())?;
            ctl.push_raw(&frame(&out[..n]));
        }
    }
    bound(&ex)?;
    ctl.close_incoming();
    bound(&ex)?;
    let honest = hs.take().ok_or_else(|| "honest endpoint neither completed nor failed".to_string())?;
    let _ = io.take();
    ex.clear();
    Ok(AdvOutcome { honest, id_key_bytes: key_bytes, sig_bytes, adv_static_pub: static_pk, honest_payload, honest_static, data_from_honest })
}

fn check_forge(c: &ForgeCase) -> Outcome {
    let o = match adversary_session(c) {
        Ok(o) => o,
        Err(e) if e == "poll bound" => return Outcome::Inconclusive(e),
        Err(e) => return Outcome::fail("C16:harness-noise-peer-failed", e),
    };
    let all = vcore::gen::keys().all();
    let honest_kp = all[c.honest as usize % all.len()];
    let mut labels: Vec<&'static str> = vec![if c.honest_is_initiator { "honest-initiator" } else { "honest-responder" }];

    // the honest side's own payload, seen from a conforming peer: identity key + signature over its static key
    if let Some(p) = &o.honest_payload {
        let f = vcore::refcodec::pb_parse(p).unwrap_or_default();
        let key = f.iter().find(|x| x.0 == 1).map(|x| x.2.clone()).unwrap_or_default();
        let sig = f.iter().find(|x| x.0 == 2).map(|x| x.2.clone()).unwrap_or_default();
        ensure!(key == honest_kp.public().encode_protobuf(), "C16:honest-payload-carries-other-identity-key", hex(p));
        let st = o.honest_static.clone().unwrap_or_default();
        ensure!(honest_kp.public().verify(&[DOMAIN, &st[..]].concat(), &sig), "C16:honest-payload-signature-does-not-cover-its-static-key", hex(p));
    }

    // reference: who, if anybody, did this peer prove to be?
    let claimed = PublicKey::try_decode_protobuf(&o.id_key_bytes).ok();
    let proof_ok = claimed.as_ref().map(|k| k.verify(&[DOMAIN, &o.adv_static_pub[..]].concat(), &o.sig_bytes)).unwrap_or(false);
    // recipe-level expectation (independent of verify): only the honest recipe with an unmodified signature,
    // made by the very key that is claimed, may be accepted
    let recipe_ok = match (&c.id_key, &c.post, c.signed) {
        (_, _, Signed::CapturedFromHonest) => false,
        (IdKey::Pool(i), SigPost::AsIs, Signed::DomainThisStatic) => pool_pk(*i) == pool_pk(c.signer),
        _ => false,
    };
    let detail = || {
        json!({"honest_result": format!("{:?}", o.honest.hs), "claimed_key_decodes": claimed.is_some(), "claimed_peer": claimed.as_ref().map(|k| k.to_peer_id().to_string()),
               "signature_verifies_over_this_static_key": proof_ok, "recipe": format!("{:?}/{:?}/{:?}/signer={}", c.id_key, c.signed, c.post, c.signer), "decoy": c.decoy,
               "honest_is_initiator": c.honest_is_initiator})
    };
    match &o.honest.hs {
        Ok(p) => {
            let Some(k) = &claimed else { return Outcome::fail("C16:accepted-undecodable-identity-key", detail()) };
            ensure!(*p == k.to_peer_id(), "C16:reported-peer-is-not-the-claimed-key", detail());
            if let Some(d) = c.decoy {
                ensure!(*p != pool_pk(d).to_peer_id() || pool_pk(d) == *k, "C16:reported-peer-is-the-decoy-key", detail());
            }
            ensure!(proof_ok, "C16:accepted-identity-without-valid-signature-over-static-key", detail());
            if !recipe_ok {
                // a mutated key/signature may by chance still be an encoding of the same values
                let same_values = matches!(&c.id_key, IdKey::Pool(_) | IdKey::MutatedPool(..)) && c.signed == Signed::DomainThisStatic && claimed.as_ref() == Some(&pool_pk(c.signer));
                ensure!(same_values, "C16:accepted-spliced-identity", detail());
                labels.push("accepted-alias-encoding");
            }
            labels.push("accepted");
            // the channel really is with the adversary: it decrypts the honest side's first frame
            let want = if c.honest_is_initiator { TAG_I } else { TAG_R };
            ensure!(o.data_from_honest.as_deref() == Some(&want[..]), "C16:no-data-after-accepted-handshake", json!({"got": format!("{:?}", o.data_from_honest)}));
        }
        Err((l, _)) => {
            ensure!(!(recipe_ok && proof_ok), "C16:genuine-identity-rejected", detail());
            labels.push("rejected");
            labels.push(l);
        }
    }
    labels.push(match c.signed {
        Signed::DomainThisStatic => "signed:this-static",
        Signed::DomainOtherStatic => "signed:other-static",
        Signed::NoDomain => "signed:no-domain",
        Signed::OtherDomain => "signed:other-domain",
        Signed::DomainEphemeral => "signed:ephemeral",
        Signed::CapturedFromHonest => "signed:captured-from-honest-node",
    });
    if let (IdKey::Pool(i), true) = (&c.id_key, c.signed != Signed::CapturedFromHonest) {
        if pool_pk(*i) != pool_pk(c.signer) {
            labels.push("claimed-key-is-not-the-signer");
        }
    }
    // non-trivial: all three messages were processed and the decision was taken on the identity proof
    let reached_finish = matches!(&o.honest.hs, Ok(_) | Err(("err:bad-signature", _)) | Err(("err:authentication-failed", _)));
    Outcome::pass_l(reached_finish, labels)
}

fn forge_case() -> impl Strategy<Value = ForgeCase> {
    let id_key = prop_oneof![
        8 => pool_idx(8).prop_map(IdKey::Pool),
        2 => (pool_idx(8), proptest::collection::vec(mutation(), 1..3)).prop_map(|(i, m)| IdKey::MutatedPool(i, m)),
        1 => proptest::collection::vec(any::<u8>(), 0..50).prop_map(IdKey::Raw),
    ];
    let signed = prop_oneof![5 => Just(Signed::DomainThisStatic), 2 => Just(Signed::DomainOtherStatic), 1 => Just(Signed::NoDomain), 1 => Just(Signed::OtherDomain), 1 => Just(Signed::DomainEphemeral), 2 => Just(Signed::CapturedFromHonest)];
    let post = prop_oneof![6 => Just(SigPost::AsIs), 1 => Just(SigPost::Empty), 3 => proptest::collection::vec(mutation(), 1..3).prop_map(SigPost::Mutated)];
    (
        (pool_idx(5), any::<bool>(), id_key, proptest::option::weighted(0.15, pool_idx(5)), pool_idx(5), proptest::bool::weighted(0.5)),
        (signed, post, proptest::bool::weighted(0.2), proptest::collection::vec(any::<u8>(), 0..6), any::<u64>(), simio::script_strategy(6)),
    )
        .prop_map(|((honest, honest_is_initiator, id_key, decoy, signer_raw, same), (signed, post, with_extensions, prologue, seed, read))| {
            // half of the time the signer is the claimed key (so that acceptance is reachable)
            let signer = match (&id_key, same) {
                (IdKey::Pool(i), true) | (IdKey::MutatedPool(i, _), true) => *i,
                _ => signer_raw,
            };
            ForgeCase { honest, honest_is_initiator, id_key, decoy, signer, signed, post, with_extensions, prologue, seed, read }
        })
}

pub fn run(ctx: &mut Ctx) {
    ctx.assume("honest endpoints are libp2p-noise Config::new(..) with the XX pattern; they draw their own static/ephemeral DH keys (rand), so ciphertext bytes differ between runs while message lengths do not (ECDSA DER signatures: ±2 bytes)");
    ctx.assume("cryptographic soundness is sampled (single/double byte mutations, splices, replays), not proved; PublicKey decode/verify (C20/C21) are trusted for computing which identity a crafted payload proves");
    let all = !ctx.quick();

    // ---- (a) generated on-path adversary
    ctx.check::<MitmCase>(
        "mitm-generated",
        "two honest endpoints (every key type, RSA 5 %); one or two of {msg1, msg2, msg3, first data frame each way} get an action: flip, structure-aware mutations of the frame or of its body (length fixed up), truncate, drop, duplicate, replay from a previous session of the same configs, replay/reflect within the session, reorder with the next frame; prologues equal (80 %) or different; generated read chunking and schedule; non-trivial = a handshake message reached a side modified, or prologues differ",
        ctx.n(8_000, 300_000),
        &|| mitm_case().boxed(),
        &check_mitm,
    );

    // ---- (a) exhaustive single-byte flips per handshake message
    ctx.level = "fault_enumeration";
    // (initiator key, responder key, xor set): ed25519↔ed25519 fully, the other key types with fewer xor values
    let ed_x: Vec<u8> = if all { (1..=255u8).collect() } else { vec![1, 2, 4, 8, 16, 32, 64, 128, 0xff] };
    let few_x: Vec<u8> = if all { vec![1, 2, 4, 8, 16, 32, 64, 128, 0xff] } else { vec![0x01, 0x80, 0xff] };
    let rsa_x: Vec<u8> = if all { vec![0x01, 0x80, 0xff] } else { vec![0x01, 0xff] };
    let pairs: Vec<(u8, u8, Vec<u8>)> = vec![(0, 1, ed_x), (4, 7, few_x.clone()), (8, 5, few_x), (10, 2, rsa_x.clone()), (3, 11, rsa_x)];
    let lengths: Vec<((u8, u8), [usize; 3])> = pairs.iter().map(|(ki, kr, _)| ((*ki, *kr), honest_lengths(*ki, *kr))).collect();
    ctx.extra("handshake_message_lengths", json!(lengths.iter().map(|((a, b), l)| json!({"initiator_key": a, "responder_key": b, "msg1": l[0], "msg2": l[1], "msg3": l[2]})).collect::<Vec<_>>()));
    ctx.sweep::<MitmCase, _>(
        "mitm-single-flips",
        "every byte position (length prefix included; +2 positions of slack for DER length variance) of msg1, msg2 and msg3 × xor values, for key pairs ed25519↔ed25519 (quick: 8 single bits + 0xff; thorough: all 255), secp256k1↔ecdsa, ecdsa↔secp256k1, rsa↔ed25519, ed25519↔rsa (fewer xor values); every case non-trivial (position beyond the actual message: discarded)",
        true,
        &|lane| {
            let mut v = vec![];
            for ((ki, kr, xs), (_, l)) in pairs.iter().zip(lengths.iter()) {
                let fixed = *ki < 4 && *kr < 4;
                for m in 0..3usize {
                    let n = l[m] + if fixed { 0 } else { 2 };
                    for pos in 0..n {
                        for &xor in xs {
                            let mut actions = [Action::Forward, Action::Forward, Action::Forward, Action::Forward, Action::Forward];
                            actions[m] = Action::FlipAbs { pos: pos as u16, xor };
                            v.push(MitmCase { ki: *ki, kr: *kr, prologue_i: vec![], prologue_r: vec![], actions, read_i: Script::whole(), read_r: Script::whole(), schedule: vec![] });
                        }
                    }
                }
            }
            v.into_iter().skip(lane).step_by(LANES)
        },
        &|c: &MitmCase| {
            // a flip position beyond the actual message (DER length variance) is a no-op: discard
            match check_mitm(c) {
                Outcome::Pass { nontrivial: false, .. } => Outcome::Discard,
                o => o,
            }
        },
    );

    // ---- (b) malicious endpoint
    ctx.level = "exploration";
    ctx.sweep::<ForgeCase, _>(
        "forge-splices",
        "snow adversary in both roles × claimed identity key i × signing key j over all 12×12 pool key pairs (every key type) × signed message {domain‖this static (honest recipe), domain‖other static, static without domain, other domain, domain‖ephemeral, identity key + signature captured from an earlier session of the honest node itself}; accepted iff i = j and the honest recipe, and then reported as i; non-trivial = the honest side processed all three messages and decided on the identity proof",
        true,
        &|lane| {
            let signed = [Signed::DomainThisStatic, Signed::DomainOtherStatic, Signed::NoDomain, Signed::OtherDomain, Signed::DomainEphemeral, Signed::CapturedFromHonest];
            (0..2 * 12 * 12 * 6usize).skip(lane).step_by(LANES).map(move |n| {
                let role = n % 2 == 0;
                let i = ((n / 2) % 12) as u8;
                let j = ((n / 24) % 12) as u8;
                let s = signed[(n / 288) % 6];
                ForgeCase { honest: ((i + j) % 10), honest_is_initiator: role, id_key: IdKey::Pool(i), decoy: None, signer: j, signed: s, post: SigPost::AsIs, with_extensions: false, prologue: vec![], seed: n as u64 + 1, read: Script::whole() }
            })
        },
        &check_forge,
    );
    ctx.check::<ForgeCase>(
        "forge-generated",
        "snow adversary, generated: claimed key (pool / mutated protobuf / raw bytes), optional decoy identity_key field first, signer (claimed key 50 %), signed message (5 recipes), signature as is / empty / mutated, extensions field, prologue, role, honest key type, read chunking; non-trivial as above",
        ctx.n(8_000, 300_000),
        &|| forge_case().boxed(),
        &check_forge,
    );
}
