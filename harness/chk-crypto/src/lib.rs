//! Checks for the security-handshake and identity properties (C16 C17 C18 C20 C21 C22).
//! The library part is shared with the libFuzzer targets in /verif/fuzz.
pub mod c16;
pub mod c17;
pub mod c18;
pub mod c20;
pub mod c21;
pub mod c22;
pub mod fuzzapi;
pub mod noisekit;
pub mod util;
