//! C20 — identities and keys have faithful, total encodings.
//!
//! * `pool-keys` / `generated-keys`: public/private protobuf round trips, PeerId derivation against an
//!   independent reference (identity multihash iff protobuf length ≤ 42, else sha2-256), byte and base58
//!   round trips.
//! * `multihash-grid` / `multihash-bytes` / `raw-bytes`: `PeerId::from_bytes` acceptance against a
//!   three-valued reference predicate computed by an independent multihash parser.
//! * `base58`: `str::parse::<PeerId>` against an independent base58btc decoder + the same predicate.
//! * `decode-mutated`: key / keypair protobuf decoders on arbitrary and mutated bytes never panic and
//!   whatever they accept re-encodes to something that decodes to the same key.
use crate::util::*;
use libp2p_identity::{self as identity, Keypair, PeerId, PublicKey};
use proptest::prelude::*;
use serde::{Deserialize, Serialize};
use serde_json::json;
use sha2::{Digest, Sha256};
use vcore::gen::{apply_mutations, mutation, Mutation};
use vcore::refcodec::{pb_bytes, pb_parse, pb_varint, uvarint};
use vcore::runner::{catch, LANES};
use vcore::{ensure, Ctx, Outcome};

const MSG: &[u8] = b"C20 round-trip probe message";

fn reference_peer_id_bytes(pk_pb: &[u8]) -> Vec<u8> {
    if pk_pb.len() <= 42 {
        let mut v = vec![0x00, pk_pb.len() as u8];
        v.extend_from_slice(pk_pb);
        v
    } else {
        let mut v = vec![0x12, 0x20];
        v.extend_from_slice(Sha256::digest(pk_pb).as_slice());
        v
    }
}

/// PKCS#1 RSAPrivateKey extracted from the repo's PKCS#8 fixtures (harness side, via yasna)
fn rsa_pkcs1(i: usize) -> Option<Vec<u8>> {
    let f = ["rsa-2048.pk8", "rsa-3072.pk8"][i % 2];
    let der = std::fs::read(format!("/repo/identity/src/test/{f}")).ok()?;
    yasna::parse_der(&der, |r| {
        r.read_sequence(|r| {
            let _v = r.next().read_der()?;
            let _alg = r.next().read_der()?;
            r.next().read_bytes()
        })
    })
    .ok()
}

fn key_roundtrip(spec: &KeySpec) -> Outcome {
    let Some(kp) = spec.build() else { return Outcome::Discard };
    let pk = kp.public();
    let enc = pk.encode_protobuf();
    let mut labels = vec![type_label(&kp)];

    // wire shape of the public key protobuf: {1: varint type, 2: bytes data}
    let shape = pb_parse(&enc).map(|f| f.iter().map(|(n, w, _)| (*n, *w)).collect::<Vec<_>>());
    ensure!(shape == Some(vec![(1, 0), (2, 2)]), "C20:public-key-protobuf-shape", json!({"enc": hex(&enc)}));

    // public key round trip
    let dec = match catch(|| PublicKey::try_decode_protobuf(&enc)) {
        Err(p) => return Outcome::fail("C20:panic-decoding-own-public-key", json!({"panic": p, "enc": hex(&enc)})),
        Ok(Err(e)) => return Outcome::fail("C20:own-public-key-rejected", json!({"err": e.to_string(), "enc": hex(&enc)})),
        Ok(Ok(d)) => d,
    };
    ensure!(dec == pk, "C20:public-key-roundtrip-differs", json!({"enc": hex(&enc)}));
    ensure!(dec.encode_protobuf() == enc, "C20:public-key-reencode-differs", json!({"enc": hex(&enc)}));
    ensure!(dec.key_type() == kp.key_type(), "C20:key-type-changed");

    // PeerId derivation: deterministic, and equal to the reference
    let p1 = PeerId::from_public_key(&pk);
    let p2 = pk.to_peer_id();
    let p3 = PeerId::from(dec.clone());
    ensure!(p1 == p2 && p2 == p3, "C20:peer-id-not-deterministic", json!({"p1": p1.to_string(), "p2": p2.to_string(), "p3": p3.to_string()}));
    let want = reference_peer_id_bytes(&enc);
    ensure!(p1.to_bytes() == want, "C20:peer-id-derivation-differs-from-reference", json!({"got": hex(&p1.to_bytes()), "want": hex(&want), "pb_len": enc.len()}));
    labels.push(if enc.len() <= 42 { "inlined" } else { "hashed" });

    // byte / base58 round trips
    match PeerId::from_bytes(&want) {
        Ok(q) => ensure!(q == p1, "C20:from-bytes-roundtrip-differs"),
        Err(e) => return Outcome::fail("C20:from-bytes-rejects-own-encoding", json!({"err": e.to_string(), "bytes": hex(&want)})),
    }
    let s = p1.to_base58();
    ensure!(s == b58_encode(&want), "C20:base58-differs-from-reference", json!({"got": s, "want": b58_encode(&want)}));
    ensure!(p1.to_string() == s, "C20:display-differs-from-base58");
    match s.parse::<PeerId>() {
        Ok(q) => ensure!(q == p1, "C20:base58-roundtrip-differs"),
        Err(e) => return Outcome::fail("C20:base58-rejects-own-encoding", json!({"err": e.to_string(), "s": s})),
    }

    // private key round trip
    match kp.to_protobuf_encoding() {
        Err(_) => {
            // documented for RSA only
            ensure!(kp.key_type() == identity::KeyType::RSA, "C20:private-encoding-unsupported-for-non-rsa", json!({"type": type_label(&kp)}));
            labels.push("rsa-private-encoding-unsupported");
            // the decoder side does exist for RSA (PKCS#1 payload): feed it the fixture's key
            if let KeySpec::Pool(i) = spec {
                if let Some(pkcs1) = rsa_pkcs1((*i as usize % POOL_LEN) - POOL_CHEAP) {
                    let mut pb = pb_varint(1, 0);
                    pb.extend(pb_bytes(2, &pkcs1));
                    match catch(|| Keypair::from_protobuf_encoding(&pb)) {
                        Err(p) => return Outcome::fail("C20:panic-decoding-rsa-private-key", json!({"panic": p})),
                        Ok(Err(e)) => return Outcome::fail("C20:rsa-private-key-protobuf-rejected", json!({"err": e.to_string()})),
                        Ok(Ok(k2)) => {
                            ensure!(k2.public() == pk, "C20:rsa-private-key-decodes-to-other-key");
                            let sig = match k2.sign(MSG) {
                                Ok(s) => s,
                                Err(e) => return Outcome::fail("C20:decoded-rsa-key-cannot-sign", e.to_string()),
                            };
                            ensure!(pk.verify(MSG, &sig), "C20:decoded-rsa-key-signature-does-not-verify");
                            labels.push("rsa-private-decoded");
                        }
                    }
                }
            }
        }
        Ok(bytes) => {
            let shape = pb_parse(&bytes).map(|f| f.iter().map(|(n, w, _)| (*n, *w)).collect::<Vec<_>>());
            ensure!(shape == Some(vec![(1, 0), (2, 2)]), "C20:private-key-protobuf-shape");
            let k2 = match catch(|| Keypair::from_protobuf_encoding(&bytes)) {
                Err(p) => return Outcome::fail("C20:panic-decoding-own-private-key", json!({"panic": p})),
                Ok(Err(e)) => return Outcome::fail("C20:own-private-key-rejected", json!({"err": e.to_string(), "type": type_label(&kp)})),
                Ok(Ok(k)) => k,
            };
            ensure!(k2.public() == pk, "C20:private-key-roundtrip-changes-public-key", json!({"type": type_label(&kp)}));
            ensure!(k2.key_type() == kp.key_type(), "C20:private-key-roundtrip-changes-type");
            ensure!(k2.to_protobuf_encoding().ok() == Some(bytes), "C20:private-key-reencode-differs");
            let sig = match k2.sign(MSG) {
                Ok(s) => s,
                Err(e) => return Outcome::fail("C20:decoded-key-cannot-sign", e.to_string()),
            };
            ensure!(pk.verify(MSG, &sig), "C20:decoded-key-signature-does-not-verify", json!({"type": type_label(&kp)}));
            let sig0 = kp.sign(MSG).unwrap_or_default();
            ensure!(k2.public().verify(MSG, &sig0), "C20:original-signature-fails-under-decoded-key");
            labels.push("private-roundtrip");
        }
    }
    Outcome::pass_l(true, labels)
}

// ---------------------------------------------------------------------------------------------
// PeerId::from_bytes acceptance

#[derive(Clone, Copy, Debug, PartialEq, Eq)]
enum Class {
    MustAccept,
    MustReject,
    DontCare,
}

/// Reference predicate of the statement on raw bytes: identity multihash with ≤ 42 digest bytes or a
/// sha2-256 multihash, consumed exactly. Returns (class, well_formed_multihash, canonical bytes).
fn classify(b: &[u8]) -> (Class, bool, Option<Vec<u8>>) {
    let Ok((code, n1, min1)) = read_varint(b) else { return (Class::MustReject, false, None) };
    let Ok((len, n2, min2)) = read_varint(&b[n1..]) else { return (Class::MustReject, false, None) };
    let rest = &b[n1 + n2..];
    if rest.len() as u64 != len {
        return (Class::MustReject, false, None);
    }
    let mut canon = uvarint(code);
    canon.extend(uvarint(len));
    canon.extend_from_slice(rest);
    let by_rule = match (code, len) {
        (0, l) if l <= 42 => Class::MustAccept,
        (0, _) => Class::MustReject,
        (0x12, 32) => Class::MustAccept,
        // a "sha2-256" multihash whose digest is not 32 bytes is not a real sha2-256 value; the statement
        // does not say whether it is accepted
        (0x12, _) => Class::DontCare,
        _ => Class::MustReject,
    };
    if !(min1 && min2) {
        // non-minimal varints: the statement is silent; must-reject classes stay must-reject
        let c = if by_rule == Class::MustReject { Class::MustReject } else { Class::DontCare };
        return (c, true, Some(canon));
    }
    (by_rule, true, Some(canon))
}

fn check_from_bytes(bytes: &[u8]) -> Outcome {
    let (class, well_formed, canon) = classify(bytes);
    let got = match catch(|| PeerId::from_bytes(bytes)) {
        Err(p) => return Outcome::fail("C20:panic-in-peer-id-from-bytes", json!({"panic": p, "bytes": hex(bytes)})),
        Ok(r) => r,
    };
    let mut labels = vec![];
    match (&got, class) {
        (Ok(_), Class::MustReject) => {
            let sig = if bytes.first() == Some(&0) { "C20:identity-multihash-over-42-accepted" } else { "C20:unsupported-multihash-accepted" };
            let sig = if well_formed { sig } else { "C20:malformed-multihash-accepted" };
            return Outcome::fail(sig, json!({"bytes": hex(bytes)}));
        }
        (Err(e), Class::MustAccept) => return Outcome::fail("C20:valid-peer-id-bytes-rejected", json!({"bytes": hex(bytes), "err": e.to_string()})),
        _ => {}
    }
    // consistency with the other entry points
    let via_try: Result<PeerId, Vec<u8>> = PeerId::try_from(bytes.to_vec());
    ensure!(via_try.is_ok() == got.is_ok(), "C20:try-from-vec-disagrees-with-from-bytes", json!({"bytes": hex(bytes)}));
    if let Ok(mh) = multihash::Multihash::<64>::from_bytes(bytes) {
        let via_mh = PeerId::from_multihash(mh);
        ensure!(via_mh.is_ok() == got.is_ok(), "C20:from-multihash-disagrees-with-from-bytes", json!({"bytes": hex(bytes)}));
    }
    if let Ok(p) = got {
        let out = p.to_bytes();
        if let Some(c) = &canon {
            ensure!(&out == c, "C20:accepted-peer-id-reencodes-differently", json!({"in": hex(bytes), "out": hex(&out)}));
        }
        match PeerId::from_bytes(&out) {
            Ok(q) => ensure!(q == p, "C20:from-bytes-roundtrip-differs"),
            Err(_) => return Outcome::fail("C20:from-bytes-rejects-own-encoding", json!({"bytes": hex(&out)})),
        }
        let s = p.to_base58();
        ensure!(s.parse::<PeerId>().ok() == Some(p), "C20:base58-roundtrip-differs", json!({"s": s}));
        ensure!(b58_decode(&s).as_deref() == Some(&out[..]), "C20:base58-differs-from-reference", json!({"s": s}));
        labels.push("accepted");
    } else {
        labels.push("rejected");
    }
    labels.push(match class {
        Class::MustAccept => "class:must-accept",
        Class::MustReject => "class:must-reject",
        Class::DontCare => "class:dont-care",
    });
    if well_formed {
        labels.push("well-formed-multihash");
    }
    Outcome::pass_l(well_formed && class != Class::DontCare, labels)
}

#[derive(Clone, Debug, Serialize, Deserialize)]
pub struct MhCase {
    code: u64,
    declared: u64,
    rest: Vec<u8>,
    /// extra non-minimal padding bytes on the code / length varints
    pad_code: u8,
    pad_len: u8,
}

fn padded_varint(v: u64, pad: u8) -> Vec<u8> {
    let mut e = uvarint(v);
    for _ in 0..pad {
        let l = e.len();
        e[l - 1] |= 0x80;
        e.push(0);
    }
    e
}

impl MhCase {
    fn bytes(&self) -> Vec<u8> {
        let mut v = padded_varint(self.code, self.pad_code);
        v.extend(padded_varint(self.declared, self.pad_len));
        v.extend_from_slice(&self.rest);
        v
    }
}

fn mh_case() -> impl Strategy<Value = MhCase> {
    let code = prop_oneof![
        5 => Just(0u64),
        4 => Just(0x12u64),
        1 => Just(0x11u64),
        1 => Just(0x13u64),
        1 => Just(0x1bu64),
        1 => Just(0xb220u64),
        1 => Just(0x01u64),
        1 => Just(0x92u64),
        1 => any::<u64>(),
    ];
    let len = prop_oneof![
        4 => 0usize..=70,
        2 => 40usize..=44,
        2 => prop_oneof![Just(32usize), Just(31), Just(33), Just(36), Just(37), Just(63), Just(64), Just(65)],
    ];
    (code, len, any::<u8>(), prop_oneof![8 => Just(0i64), 1 => Just(1i64), 1 => Just(-1i64), 1 => -70i64..200], prop_oneof![12 => Just(0u8), 1 => 1u8..3], prop_oneof![12 => Just(0u8), 1 => 1u8..3]).prop_map(
        |(code, len, fill, delta, pad_code, pad_len)| {
            let rest: Vec<u8> = (0..len).map(|i| fill.wrapping_add(i as u8).wrapping_mul(7)).collect();
            let declared = (len as i64 + delta).max(0) as u64;
            MhCase { code, declared, rest, pad_code, pad_len }
        },
    )
}

fn grid(lane: usize) -> impl Iterator<Item = MhCase> {
    const CODES: &[u64] = &[0, 0x12, 0x11, 0x13, 0x01, 0x16, 0x1b, 0x80, 0x92, 0xb220, 0x1012];
    let mut v = vec![];
    for &code in CODES {
        for len in 0..=72usize {
            for d in [-1i64, 0, 1] {
                let declared = len as i64 + d;
                if declared < 0 {
                    continue;
                }
                v.push(MhCase { code, declared: declared as u64, rest: (0..len).map(|i| (i * 3 + 1) as u8).collect(), pad_code: 0, pad_len: 0 });
            }
        }
    }
    v.into_iter().skip(lane).step_by(LANES)
}

// ---------------------------------------------------------------------------------------------
// base58

#[derive(Clone, Debug, Serialize, Deserialize)]
pub enum B58Case {
    /// arbitrary text
    Text(String),
    /// base58 of these bytes (reference encoder), then character edits (pos, replacement char)
    Encoded { mh: MhCase, edits: Vec<(u16, char)> },
}

fn b58_case() -> impl Strategy<Value = B58Case> {
    let ch = prop_oneof![
        4 => proptest::sample::select("123456789ABCDEFGHJKLMNPQRSTUVWXYZabcdefghijkmnopqrstuvwxyz".chars().collect::<Vec<_>>()),
        2 => proptest::sample::select(vec!['0', 'O', 'I', 'l', ' ', '+', '/', '=', '\n', 'é', 'ß', '1']),
    ];
    prop_oneof![
        1 => "[1-9A-HJ-NP-Za-km-z]{0,60}".prop_map(B58Case::Text),
        1 => "\\PC{0,20}".prop_map(B58Case::Text),
        6 => (mh_case(), proptest::collection::vec((any::<u16>(), ch), 0..3)).prop_map(|(mh, edits)| B58Case::Encoded { mh, edits }),
    ]
}

fn check_b58(case: &B58Case) -> Outcome {
    let (s, edited) = match case {
        B58Case::Text(t) => (t.clone(), true),
        B58Case::Encoded { mh, edits } => {
            let mut chars: Vec<char> = b58_encode(&mh.bytes()).chars().collect();
            for (pos, c) in edits {
                if !chars.is_empty() {
                    let i = vcore::pick(*pos, chars.len());
                    chars[i] = *c;
                }
            }
            (chars.into_iter().collect(), !edits.is_empty())
        }
    };
    let got = match catch(|| s.parse::<PeerId>()) {
        Err(p) => return Outcome::fail("C20:panic-in-peer-id-from-str", json!({"panic": p, "s": s})),
        Ok(r) => r,
    };
    let mut labels = vec![];
    let (class, well_formed) = match b58_decode(&s) {
        None => {
            labels.push("invalid-base58");
            (Class::MustReject, false)
        }
        Some(bytes) => {
            let (c, wf, _) = classify(&bytes);
            // also compare with the bytes entry point
            let via_bytes = PeerId::from_bytes(&bytes);
            ensure!(via_bytes.is_ok() == got.is_ok(), "C20:from-str-disagrees-with-from-bytes", json!({"s": s, "bytes": hex(&bytes)}));
            if let (Ok(a), Ok(b)) = (&via_bytes, &got) {
                ensure!(a == b, "C20:from-str-differs-from-from-bytes", json!({"s": s}));
            }
            (c, wf)
        }
    };
    match (&got, class) {
        (Ok(_), Class::MustReject) => return Outcome::fail("C20:invalid-base58-peer-id-accepted", json!({"s": s})),
        (Err(e), Class::MustAccept) => return Outcome::fail("C20:valid-base58-peer-id-rejected", json!({"s": s, "err": e.to_string()})),
        _ => {}
    }
    if let Ok(p) = &got {
        if class == Class::MustAccept {
            ensure!(p.to_base58() == s, "C20:base58-roundtrip-differs", json!({"s": s, "out": p.to_base58()}));
        }
        labels.push("accepted");
    } else {
        labels.push("rejected");
    }
    if edited {
        labels.push("edited");
    }
    Outcome::pass_l((well_formed && class != Class::DontCare) || (edited && class == Class::MustReject), labels)
}

// ---------------------------------------------------------------------------------------------
// key decoders on mutated / arbitrary bytes

#[derive(Clone, Debug, Serialize, Deserialize)]
pub enum Target {
    PublicPb,
    PrivatePb,
}

#[derive(Clone, Debug, Serialize, Deserialize)]
pub struct DecCase {
    target: Target,
    /// None = `raw` is the whole input; Some(key) = valid encoding of that key, then `muts`
    base: Option<KeySpec>,
    muts: Vec<Mutation>,
    raw: Vec<u8>,
}

fn dec_case() -> impl Strategy<Value = DecCase> {
    let target = prop_oneof![Just(Target::PublicPb), Just(Target::PrivatePb)];
    prop_oneof![
        5 => (target.clone(), key_spec(), proptest::collection::vec(mutation(), 0..3)).prop_map(|(target, k, muts)| DecCase { target, base: Some(k), muts, raw: vec![] }),
        1 => (target.clone(), proptest::collection::vec(any::<u8>(), 0..120)).prop_map(|(target, raw)| DecCase { target, base: None, muts: vec![], raw }),
        // structured: well-formed protobuf {type, data} with arbitrary type / data
        2 => (target, prop_oneof![0u64..6, any::<u64>()], proptest::collection::vec(any::<u8>(), 0..80), any::<bool>()).prop_map(|(target, ty, data, swap)| {
            let mut raw = vec![];
            if swap {
                raw.extend(pb_bytes(2, &data));
                raw.extend(pb_varint(1, ty));
            } else {
                raw.extend(pb_varint(1, ty));
                raw.extend(pb_bytes(2, &data));
            }
            DecCase { target, base: None, muts: vec![], raw }
        }),
    ]
}

fn check_dec(case: &DecCase) -> Outcome {
    let mut labels = vec![];
    let (orig, input) = match &case.base {
        None => (None, case.raw.clone()),
        Some(spec) => {
            let Some(kp) = spec.build() else { return Outcome::Discard };
            let enc = match case.target {
                Target::PublicPb => kp.public().encode_protobuf(),
                Target::PrivatePb => match kp.to_protobuf_encoding() {
                    Ok(b) => b,
                    Err(_) => {
                        // RSA: use the PKCS#1 fixture
                        let KeySpec::Pool(i) = spec else { return Outcome::Discard };
                        let Some(pkcs1) = rsa_pkcs1((*i as usize % POOL_LEN).saturating_sub(POOL_CHEAP)) else { return Outcome::Discard };
                        let mut pb = pb_varint(1, 0);
                        pb.extend(pb_bytes(2, &pkcs1));
                        pb
                    }
                },
            };
            let m = apply_mutations(&enc, &case.muts);
            (Some((kp, enc)), m)
        }
    };
    let changed = orig.as_ref().map(|(_, e)| e != &input).unwrap_or(true);
    match case.target {
        Target::PublicPb => {
            labels.push("target:public");
            let r = match catch(|| PublicKey::try_decode_protobuf(&input)) {
                Err(p) => return Outcome::fail("C20:panic-in-public-key-decoder", json!({"panic": p, "input": hex(&input)})),
                Ok(r) => r,
            };
            match r {
                Err(_) => {
                    ensure!(changed, "C20:own-public-key-rejected", json!({"input": hex(&input)}));
                    labels.push("rejected");
                }
                Ok(pk2) => {
                    labels.push("accepted");
                    let re = pk2.encode_protobuf();
                    let back = PublicKey::try_decode_protobuf(&re);
                    ensure!(back.as_ref().ok() == Some(&pk2), "C20:accepted-public-key-does-not-roundtrip", json!({"input": hex(&input), "reencoded": hex(&re)}));
                    ensure!(pk2.to_peer_id().to_bytes() == reference_peer_id_bytes(&re), "C20:peer-id-derivation-differs-from-reference", json!({"input": hex(&input)}));
                    if let Some((kp, _)) = &orig {
                        if !changed {
                            ensure!(pk2 == kp.public(), "C20:public-key-roundtrip-differs");
                        } else if pk2 == kp.public() {
                            labels.push("alias-encoding-of-same-key");
                        } else {
                            labels.push("decodes-to-different-key");
                        }
                    }
                }
            }
        }
        Target::PrivatePb => {
            labels.push("target:private");
            let r = match catch(|| Keypair::from_protobuf_encoding(&input)) {
                Err(p) => return Outcome::fail("C20:panic-in-private-key-decoder", json!({"panic": p, "input_len": input.len(), "input_prefix": hex(&input[..input.len().min(80)])})),
                Ok(r) => r,
            };
            match r {
                Err(_) => {
                    ensure!(changed, "C20:own-private-key-rejected");
                    labels.push("rejected");
                }
                Ok(k2) => {
                    labels.push("accepted");
                    // whatever is accepted is a usable key pair: it signs verifiably under its own public key
                    match catch(|| k2.sign(MSG)) {
                        Err(p) => return Outcome::fail("C20:panic-signing-with-decoded-key", json!({"panic": p})),
                        // e.g. an RSA PKCS#1 key with a flipped private exponent: ring accepts the structure and
                        // refuses to release the (wrong) signature. Not a decode *panic* and nothing the statement
                        // forbids, so only measured; an unchanged encoding must of course sign.
                        Ok(Err(e)) => {
                            ensure!(changed, "C20:decoded-key-cannot-sign", e.to_string());
                            labels.push("accepted-mutated-key-cannot-sign");
                        }
                        Ok(Ok(sig)) => ensure!(k2.public().verify(MSG, &sig), "C20:decoded-key-signature-does-not-verify", json!({"type": type_label(&k2)})),
                    }
                    if let Some((kp, _)) = &orig {
                        if !changed {
                            ensure!(k2.public() == kp.public(), "C20:private-key-roundtrip-changes-public-key");
                        }
                    }
                }
            }
        }
    }
    if changed {
        labels.push("input-differs-from-valid-encoding");
    }
    Outcome::pass_l(changed, labels)
}

pub fn run(ctx: &mut Ctx) {
    ctx.assume("RSA private keys: Keypair::to_protobuf_encoding is documented to return Err (encoding unsupported); accepted as such, the decoder is exercised with the PKCS#1 payload of the repo fixtures");
    ctx.assume("code 0x12 multihashes whose digest is not 32 bytes and non-minimal varints are don't-care (statement silent)");
    ctx.assume("reference sha2-256 (sha2 crate) and harness-side base58/varint codecs are trusted");

    ctx.sweep::<KeySpec, _>(
        "pool-keys",
        "every key of the fixed pool (ed25519×4, secp256k1×3, ecdsa×3, rsa×2): public/private protobuf round trip, PeerId vs reference, bytes/base58 round trip; every case non-trivial",
        true,
        &|lane| (0..POOL_LEN as u8).skip(lane).step_by(LANES).map(KeySpec::Pool),
        &key_roundtrip,
    );
    ctx.check::<KeySpec>(
        "generated-keys",
        "keys derived from generated 32-byte secrets (ed25519 / secp256k1 / ecdsa-p256) and pool keys (RSA 5 %); same round trips; non-trivial = key constructed",
        ctx.n(6_000, 150_000),
        &|| key_spec().boxed(),
        &key_roundtrip,
    );
    ctx.sweep::<MhCase, _>(
        "multihash-grid",
        "codes {identity, sha2-256, 9 others incl. multi-byte varints} × digest length 0..=72 × declared length {len-1,len,len+1}; non-trivial = well-formed multihash with a decided class",
        true,
        &grid,
        &|c: &MhCase| check_from_bytes(&c.bytes()),
    );
    ctx.check::<MhCase>(
        "multihash-bytes",
        "structured multihash bytes: code, declared vs actual length (boundary 42 emphasised), trailing bytes, non-minimal varints; non-trivial = well-formed multihash with decided class",
        ctx.n(60_000, 2_000_000),
        &|| mh_case().boxed(),
        &|c: &MhCase| check_from_bytes(&c.bytes()),
    );
    ctx.check::<Vec<u8>>(
        "raw-bytes",
        "arbitrary byte strings (0..80 bytes, half of them with a plausible code/length prefix); non-trivial = parses as a well-formed multihash",
        ctx.n(60_000, 2_000_000),
        &|| {
            prop_oneof![
                proptest::collection::vec(any::<u8>(), 0..80),
                (prop_oneof![Just(0u8), Just(0x12u8), any::<u8>()], 0usize..70, any::<i8>(), any::<u8>()).prop_map(|(code, len, d, fill)| {
                    let mut v = vec![code, (len as i64 + (d as i64 % 2)).clamp(0, 127) as u8];
                    v.extend((0..len).map(|i| fill ^ (i as u8)));
                    v
                }),
            ]
            .boxed()
        },
        &|b: &Vec<u8>| check_from_bytes(b),
    );
    ctx.check::<B58Case>(
        "base58",
        "base58 text: reference-encoded structured multihashes with 0..2 character edits (incl. the excluded 0/O/I/l and non-ASCII), and arbitrary text; non-trivial = decided well-formed multihash or an edited string that must be rejected",
        ctx.n(40_000, 1_000_000),
        &|| b58_case().boxed(),
        &check_b58,
    );
    ctx.check::<DecCase>(
        "decode-mutated",
        "PublicKey::try_decode_protobuf / Keypair::from_protobuf_encoding on valid encodings of every key type with 0..2 structure-aware mutations, well-formed protobufs with arbitrary type/data, and raw bytes; non-trivial = input differs from a valid encoding",
        ctx.n(30_000, 1_000_000),
        &|| dec_case().boxed(),
        &check_dec,
    );
    ctx.fuzz(&crate::fuzzapi::IDENTITY_DECODE, 30_000, 600_000, crate::fuzzapi::IDENTITY_DECODE_RUNS_PER_JOB, crate::fuzzapi::FUZZ_JOBS);
}

// ---------------------------------------------------------------------------------------------
// byte-level entry for the fuzz target `identity_decode` (same oracles: check_from_bytes / check_dec)

/// mode % 3: 0 = PeerId::from_bytes, 1 = PublicKey::try_decode_protobuf, 2 = Keypair::from_protobuf_encoding.
/// Ok(non-trivial): a well-formed multihash with a decided class (mode 0) / an accepted key (modes 1, 2).
pub fn fuzz_entry(mode: u8, bytes: &[u8]) -> Result<bool, (String, serde_json::Value)> {
    let out = match mode % 3 {
        0 => check_from_bytes(bytes),
        1 => check_dec(&DecCase { target: Target::PublicPb, base: None, muts: vec![], raw: bytes.to_vec() }),
        _ => check_dec(&DecCase { target: Target::PrivatePb, base: None, muts: vec![], raw: bytes.to_vec() }),
    };
    match out {
        Outcome::Fail { signature, detail } => Err((signature, detail)),
        Outcome::Pass { nontrivial, labels } => Ok(if mode % 3 == 0 { nontrivial } else { labels.contains(&"accepted") }),
        _ => Ok(false),
    }
}

/// golden seeds: peer id bytes, public and private key protobufs of every pool key
pub fn fuzz_seed_inputs() -> Vec<(String, Vec<u8>)> {
    let mut v = vec![];
    for i in 0..POOL_LEN {
        let Some(kp) = KeySpec::Pool(i as u8).build() else { continue };
        let label = type_label(&kp).trim_start_matches("key:");
        let with = |mode: u8, b: &[u8]| {
            let mut x = vec![mode];
            x.extend_from_slice(b);
            x
        };
        v.push((format!("peerid-{label}-{i}"), with(0, &kp.public().to_peer_id().to_bytes())));
        v.push((format!("public-{label}-{i}"), with(1, &kp.public().encode_protobuf())));
        let private = match kp.to_protobuf_encoding() {
            Ok(b) => Some(b),
            Err(_) => rsa_pkcs1(i.saturating_sub(POOL_CHEAP)).map(|pkcs1| {
                let mut pb = pb_varint(1, 0);
                pb.extend(pb_bytes(2, &pkcs1));
                pb
            }),
        };
        if let Some(p) = private {
            v.push((format!("private-{label}-{i}"), with(2, &p)));
        }
    }
    v.push(("peerid-identity-42".into(), { let mut x = vec![0u8, 0x00, 42]; x.extend([7u8; 42]); x }));
    v.push(("peerid-identity-43".into(), { let mut x = vec![0u8, 0x00, 43]; x.extend([7u8; 43]); x }));
    v.push(("peerid-sha1".into(), { let mut x = vec![0u8, 0x11, 20]; x.extend([1u8; 20]); x }));
    v.push(("public-unknown-type".into(), { let mut x = vec![1u8]; x.extend(pb_varint(1, 9)); x.extend(pb_bytes(2, &[1, 2, 3])); x }));
    v
}
