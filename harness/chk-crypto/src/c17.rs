//! C17 — a Noise channel delivers exactly the written bytes, or fails.
//!
//! Two honest `noise::Config` endpoints handshake over a vcore::simio pipe on the simulation executor; each
//! side then runs a writer (generated write sizes / flush points, then close) and a reader (generated read
//! buffer sizes) concurrently, under generated pipe chunking, spurious `Pending`s, back-pressure and task
//! interleaving. Without a fault each direction must deliver exactly the written bytes, then EOF. With a
//! single-byte XOR of the post-handshake ciphertext stream the reader must report an error and everything it
//! was ever handed (even when it keeps reading after the error) must be a prefix of the plaintext.
use crate::noisekit::*;
use crate::util::*;
use futures::prelude::*;
use libp2p_noise as noise;
use proptest::prelude::*;
use serde::{Deserialize, Serialize};
use serde_json::json;
use vcore::simexec::{Exec, Slot};
use vcore::simio::{self, DirCfg, Script};
use vcore::{ensure, Ctx, Outcome};

const MAX_FRAME_LEN: usize = 65535 - 1024;

#[derive(Clone, Debug, Serialize, Deserialize)]
pub struct WriteOp {
    len: u32,
    flush: bool,
}

#[derive(Clone, Debug, Serialize, Deserialize)]
pub struct Plan {
    writes: Vec<WriteOp>,
    /// read buffer sizes used cyclically by the peer's reader (0 = 64 KiB)
    read_bufs: Vec<u16>,
    pipe: DirCfg,
}

#[derive(Clone, Debug, Serialize, Deserialize)]
pub struct Fault {
    /// corrupt the initiator→responder stream (else responder→initiator)
    a2b: bool,
    /// offset into the post-handshake ciphertext stream, scaled into the predicted stream length
    pos: u16,
    /// absolute offset override (used by the exhaustive sweep)
    abs: Option<u32>,
    xor: u8,
}

#[derive(Clone, Debug, Serialize, Deserialize)]
pub struct Case {
    ki: u8,
    kr: u8,
    a2b: Plan,
    b2a: Plan,
    schedule: Vec<u16>,
    fault: Option<Fault>,
}

fn pattern(tag: u8, i: usize) -> u8 {
    ((i.wrapping_mul(131)) as u8) ^ ((i >> 8) as u8).wrapping_mul(29) ^ ((i >> 16) as u8) ^ tag
}

fn expected(tag: u8, plan: &Plan) -> Vec<u8> {
    let n: usize = plan.writes.iter().map(|w| w.len as usize).sum();
    (0..n).map(|i| pattern(tag, i)).collect()
}

/// frame payload sizes implied by the write/flush pattern (buffer until flush or MAX_FRAME_LEN; close flushes)
fn predicted_frames(plan: &Plan) -> Vec<usize> {
    let mut out = vec![];
    let mut off = 0usize;
    for w in &plan.writes {
        let mut rem = w.len as usize;
        while rem > 0 {
            if off == MAX_FRAME_LEN {
                out.push(off);
                off = 0;
            }
            let n = rem.min(MAX_FRAME_LEN - off);
            off += n;
            rem -= n;
        }
        if w.flush && off > 0 {
            out.push(off);
            off = 0;
        }
    }
    if off > 0 {
        out.push(off);
    }
    out
}

fn predicted_cipher_len(plan: &Plan) -> usize {
    predicted_frames(plan).iter().map(|n| 2 + n + 16).sum()
}

#[derive(Default, Debug)]
struct SideReport {
    handshake: Option<Result<String, String>>,
    write: Option<Result<(), String>>,
    got: Vec<u8>,
    eof: bool,
    errors: Vec<String>,
    data_after_error: bool,
    /// bytes this side wrote during the handshake / in total
    hs_out: u64,
    total_out: u64,
}

#[allow(clippy::too_many_arguments)]
async fn side(cfg: noise::Config, sock: simio::Duplex, initiator: bool, tag: u8, my_writes: Vec<WriteOp>, my_read_bufs: Vec<u16>, fault: Option<(u32, u8)>, rep: Slot<SideReport>) {
    let mut r = SideReport::default();
    let out = match upgrade(cfg, sock.clone(), initiator).await {
        Ok((peer, out)) => {
            r.handshake = Some(Ok(peer.to_string()));
            out
        }
        Err(e) => {
            r.handshake = Some(Err(e.to_string()));
            rep.set(r);
            return;
        }
    };
    r.hs_out = sock.written();
    if let Some((pos, xor)) = fault {
        sock.corrupt_outgoing(r.hs_out + pos as u64, xor);
    }
    let (mut rd, mut wr) = out.split();
    let writer = async {
        let mut off = 0usize;
        for w in &my_writes {
            let data: Vec<u8> = (off..off + w.len as usize).map(|i| pattern(tag, i)).collect();
            if data.is_empty() {
                // a zero-length write must be a no-op
                wr.write(&data).await.map_err(|e| e.to_string())?;
            } else {
                wr.write_all(&data).await.map_err(|e| e.to_string())?;
            }
            off += w.len as usize;
            if w.flush {
                wr.flush().await.map_err(|e| e.to_string())?;
            }
        }
        wr.close().await.map_err(|e| e.to_string())
    };
    let reader = async {
        let mut got = vec![];
        let mut errors = vec![];
        let mut eof = false;
        let mut data_after_error = false;
        let mut buf = vec![0u8; 65536];
        let mut k = 0usize;
        loop {
            let sz = match my_read_bufs.get(k % my_read_bufs.len().max(1)) {
                Some(0) | None => 65536,
                Some(n) => *n as usize,
            };
            k += 1;
            match rd.read(&mut buf[..sz]).await {
                Ok(0) => {
                    eof = true;
                    break;
                }
                Ok(n) => {
                    if !errors.is_empty() {
                        data_after_error = true;
                    }
                    got.extend_from_slice(&buf[..n]);
                }
                Err(e) => {
                    errors.push(format!("{:?}: {e}", e.kind()));
                    if errors.len() >= 4 {
                        break;
                    }
                }
            }
        }
        (got, errors, eof, data_after_error)
    };
    let (w, (got, errors, eof, dae)) = futures::join!(writer, reader);
    r.write = Some(w);
    r.got = got;
    r.errors = errors;
    r.eof = eof;
    r.data_after_error = dae;
    r.total_out = sock.written();
    rep.set(r);
}

fn prefix_len(a: &[u8], b: &[u8]) -> usize {
    a.iter().zip(b).take_while(|(x, y)| x == y).count()
}

fn run_case(c: &Case) -> Outcome {
    let keys = vcore::gen::keys().all();
    let (ki, kr) = (keys[c.ki as usize % keys.len()], keys[c.kr as usize % keys.len()]);
    let (cfg_i, cfg_r) = match (noise::Config::new(ki), noise::Config::new(kr)) {
        (Ok(a), Ok(b)) => (a, b),
        _ => return Outcome::fail("C17:config-construction-failed", ""),
    };
    let (a, b) = simio::pair(c.a2b.pipe.clone(), c.b2a.pipe.clone());
    let ex = Exec::new();
    let (ra, rb) = (Slot::new(), Slot::new());
    let fault_a = c.fault.as_ref().filter(|f| f.a2b).map(|f| (f.abs.unwrap_or_else(|| vcore::pick(f.pos, predicted_cipher_len(&c.a2b)) as u32), f.xor));
    let fault_b = c.fault.as_ref().filter(|f| !f.a2b).map(|f| (f.abs.unwrap_or_else(|| vcore::pick(f.pos, predicted_cipher_len(&c.b2a)) as u32), f.xor));
    ex.spawn_named("initiator", side(cfg_i, a, true, 0xA5, c.a2b.writes.clone(), c.b2a.read_bufs.clone(), fault_a, ra.clone()));
    ex.spawn_named("responder", side(cfg_r, b, false, 0x3C, c.b2a.writes.clone(), c.a2b.read_bufs.clone(), fault_b, rb.clone()));
    for &p in &c.schedule {
        if ex.step(p).is_none() {
            break;
        }
    }
    let quiescent = ex.drain(20_000_000);
    let (Some(sa), Some(sb)) = (ra.take(), rb.take()) else {
        ex.clear();
        if quiescent {
            return Outcome::fail("C17:stalled", json!({"alive": "a task is blocked although nothing is runnable"}));
        }
        return Outcome::Inconclusive("poll bound exceeded".into());
    };
    ex.clear();
    // preconditions: honest handshake
    let (id_i, id_r) = (ki.public().to_peer_id().to_string(), kr.public().to_peer_id().to_string());
    ensure!(sa.handshake == Some(Ok(id_r.clone())) && sb.handshake == Some(Ok(id_i.clone())), "C17:honest-handshake-failed", json!({"initiator": format!("{:?}", sa.handshake), "responder": format!("{:?}", sb.handshake)}));

    let mut labels = vec![];
    let mut nontrivial = false;
    // (direction name, writer report, reader report, plan, tag, fault on this direction)
    for (name, w, r, plan, tag, fault) in [("a2b", &sa, &sb, &c.a2b, 0xA5u8, fault_a), ("b2a", &sb, &sa, &c.b2a, 0x3Cu8, fault_b)] {
        let want = expected(tag, plan);
        let post_hs_len = w.total_out - w.hs_out;
        let effective_fault = fault.filter(|(pos, _)| (*pos as u64) < post_hs_len);
        let detail = |what: &str| {
            json!({"direction": name, "what": what, "written": want.len(), "read": r.got.len(), "common_prefix": prefix_len(&want, &r.got), "eof": r.eof, "errors": r.errors,
                   "write_result": format!("{:?}", w.write), "ciphertext_len": post_hs_len, "fault": format!("{effective_fault:?}"), "frames": predicted_frames(plan)})
        };
        if post_hs_len as usize != predicted_cipher_len(plan) {
            labels.push("framing-differs-from-prediction");
        }
        match effective_fault {
            None => {
                ensure!(w.write == Some(Ok(())), "C17:write-failed-on-clean-channel", detail("writer error"));
                ensure!(r.errors.is_empty(), "C17:read-error-on-clean-channel", detail("reader error"));
                ensure!(r.got == want, if r.got.len() < want.len() && want.starts_with(&r.got) { "C17:bytes-lost" } else { "C17:delivered-bytes-differ-from-written" }, detail("content"));
                ensure!(r.eof, "C17:no-eof-after-close", detail("eof"));
                if predicted_frames(plan).len() > 1 && plan.writes.iter().any(|w| w.len as usize > MAX_FRAME_LEN) {
                    labels.push("write-larger-than-frame");
                    nontrivial = true;
                }
                if plan.writes.iter().map(|w| w.len as usize).sum::<usize>() > MAX_FRAME_LEN {
                    labels.push("stream-crosses-max-frame-len");
                    nontrivial = true;
                }
            }
            Some((pos, _)) => {
                nontrivial = true;
                labels.push("corrupted");
                // nothing that was handed to the reader may differ from the plaintext
                ensure!(want.starts_with(&r.got), "C17:altered-plaintext-delivered", detail("delivered bytes are not a prefix of the written bytes"));
                ensure!(!r.data_after_error, "C17:data-delivered-after-read-error", detail("data after error"));
                if r.errors.is_empty() {
                    let sig = if r.got.len() == want.len() { "C17:corrupted-ciphertext-accepted" } else { "C17:corruption-ends-stream-without-error" };
                    return Outcome::fail(sig, detail("no read error"));
                }
                // which frame was hit, and was it the length prefix
                let mut off = 0usize;
                for n in predicted_frames(plan) {
                    if (pos as usize) < off + 2 {
                        labels.push("hit:length-prefix");
                        break;
                    }
                    if (pos as usize) < off + 2 + n {
                        labels.push("hit:ciphertext");
                        break;
                    }
                    if (pos as usize) < off + 2 + n + 16 {
                        labels.push("hit:tag");
                        break;
                    }
                    off += 2 + n + 16;
                }
            }
        }
    }
    Outcome::pass_l(nontrivial, labels)
}

fn write_len() -> impl Strategy<Value = u32> {
    let m = MAX_FRAME_LEN as u32;
    prop_oneof![
        6 => 0u32..300,
        3 => 300u32..6000,
        1 => Just(m - 1),
        1 => Just(m),
        1 => Just(m + 1),
        1 => Just(65535u32),
        1 => Just(65536u32),
        1 => (m - 20)..(m + 20),
        1 => Just(2 * m),
        1 => Just(2 * m + 1),
        1 => Just(200_000u32),
        1 => 60_000u32..140_000,
    ]
}

fn plan(max_writes: usize) -> impl Strategy<Value = Plan> {
    (
        proptest::collection::vec((write_len(), proptest::bool::weighted(0.4)).prop_map(|(len, flush)| WriteOp { len, flush }), 0..=max_writes),
        proptest::collection::vec(prop_oneof![3 => 1u16..20, 2 => 20u16..2000, 1 => Just(0u16), 1 => Just(65535u16)], 1..5),
        simio::dircfg_strategy(12),
        prop_oneof![6 => Just(None), 1 => Just(Some(1u32)), 1 => Just(Some(7u32)), 1 => Just(Some(1000u32)), 1 => Just(Some(70_000u32))],
    )
        .prop_map(|(writes, mut read_bufs, mut pipe, capacity)| {
            pipe.capacity = capacity;
            let total: usize = writes.iter().map(|w| w.len as usize).sum();
            if total > 20_000 {
                // keep big transfers affordable: no byte-wise chunking / tiny read buffers for the bulk
                for s in [&mut pipe.read, &mut pipe.write] {
                    if s.default_chunk != 0 && s.default_chunk < 300 {
                        s.default_chunk = 300 + s.default_chunk * 17;
                    }
                }
                for b in read_bufs.iter_mut() {
                    if *b != 0 && *b < 500 {
                        *b += 500;
                    }
                }
                if let Some(c) = pipe.capacity.as_mut() {
                    *c = (*c).max(1000);
                }
            }
            Plan { writes, read_bufs, pipe }
        })
}

fn case(with_fault: bool) -> impl Strategy<Value = Case> {
    let fault = if with_fault {
        (any::<bool>(), any::<u16>(), prop_oneof![4 => (0u32..8).prop_map(|b| 1u8 << b), 2 => 1u8..=255, 1 => Just(0xffu8)]).prop_map(|(a2b, pos, xor)| Some(Fault { a2b, pos, abs: None, xor })).boxed()
    } else {
        Just(None).boxed()
    };
    (pool_idx(5), pool_idx(5), plan(5), plan(3), proptest::collection::vec(any::<u16>(), 0..60), fault).prop_map(|(ki, kr, a2b, b2a, schedule, fault)| Case { ki, kr, a2b, b2a, schedule, fault })
}

/// fixed short stream for the exhaustive fault sweep: 4 frames A→B (40, 150, 1, 20 bytes), 1 frame B→A (10 bytes)
fn short_case(abs: u32, xor: u8, a2b: bool, variant: u8) -> Case {
    let pipe = |v: u8| DirCfg {
        read: match v {
            0 => Script::whole(),
            1 => Script::bytewise(),
            _ => Script::chunks(7),
        },
        write: Script::whole(),
        capacity: None,
    };
    Case {
        ki: 0,
        kr: 5,
        a2b: Plan { writes: vec![WriteOp { len: 40, flush: true }, WriteOp { len: 150, flush: true }, WriteOp { len: 1, flush: true }, WriteOp { len: 20, flush: false }], read_bufs: vec![if variant == 1 { 3 } else { 0 }], pipe: pipe(variant) },
        b2a: Plan { writes: vec![WriteOp { len: 10, flush: false }], read_bufs: vec![0], pipe: pipe(variant) },
        schedule: vec![],
        fault: Some(Fault { a2b, pos: 0, abs: Some(abs), xor }),
    }
}

pub fn run(ctx: &mut Ctx) {
    ctx.assume("both endpoints are libp2p-noise (honest); the adversary only alters bytes in transit after the handshake (handshake tampering is C16)");
    ctx.assume("libp2p-noise draws its own ephemeral/static DH keys (rand); ciphertext bytes differ between runs, positions and lengths do not");
    let all = !ctx.quick();

    ctx.check::<Case>(
        "delivery",
        "write sequences per direction (0..5 writes; sizes 0, small, around MAX_FRAME_LEN=64511, 65535/65536, 2×MAX(+1), 200 000; flush points), reader buffer sizes 1..64 KiB, pipe chunk/Pending scripts, bounded pipe capacity, generated task schedule, RSA identity 5 %; non-trivial = a write or the stream crosses MAX_FRAME_LEN",
        ctx.n(1_200, 40_000),
        &|| case(false).boxed(),
        &run_case,
    );
    ctx.check::<Case>(
        "corruption-generated",
        "same generator plus one XOR (single bit 4/7, any value) at a generated offset of one direction's post-handshake ciphertext stream; non-trivial = the offset lies inside the stream",
        ctx.n(1_200, 40_000),
        &|| case(true).boxed(),
        &run_case,
    );
    ctx.level = "fault_enumeration";
    // stream lengths of the fixed short exchange: A→B 4 frames (58+168+19+38 = 283 bytes), B→A 1 frame (28 bytes)
    let la = predicted_cipher_len(&short_case(0, 1, true, 0).a2b) as u32;
    let lb = predicted_cipher_len(&short_case(0, 1, true, 0).b2a) as u32;
    let xs: Vec<u8> = if all { (1..=255u8).collect() } else { vec![1, 2, 4, 8, 16, 32, 64, 128, 0xff] };
    ctx.sweep::<Case, _>(
        "corruption-exhaustive",
        "fixed short exchange (A→B frames of 40/150/1/20 plaintext bytes = 283 ciphertext bytes incl. 4 length prefixes and 4 tags; B→A one frame = 28 bytes): every byte position of both streams × xor values (quick: 8 single bits + 0xff; thorough: all 255) × 3 transport chunkings; every case non-trivial",
        true,
        &|lane| {
            let mut v = vec![];
            for variant in 0..3u8 {
                for pos in 0..la {
                    for &x in &xs {
                        v.push(short_case(pos, x, true, variant));
                    }
                }
                for pos in 0..lb {
                    for &x in &xs {
                        v.push(short_case(pos, x, false, variant));
                    }
                }
            }
            v.into_iter().skip(lane).step_by(vcore::runner::LANES)
        },
        &run_case,
    );
}
