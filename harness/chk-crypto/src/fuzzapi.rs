//! Entry points of the libFuzzer targets `identity_decode` (C20) and `envelope` (C21) and their
//! seed corpus writer. The oracles are the check functions of the owning properties.

pub use vcore::fuzz::fuzz_main;
use vcore::{FuzzTarget, FuzzVerdict};

pub const FUZZ_JOBS: u32 = 16;
/// measured (ASan build, one core): identity_decode ~2800, envelope ~2000 exec/s
pub const IDENTITY_DECODE_RUNS_PER_JOB: u64 = 2_000_000;
pub const ENVELOPE_RUNS_PER_JOB: u64 = 1_600_000;

pub const IDENTITY_DECODE: FuzzTarget = FuzzTarget {
    name: "identity_decode",
    entry: identity_decode,
    about: "input = [mode][bytes]; mode%3 = 0: PeerId::from_bytes against the independent multihash predicate (identity <= 42 / sha2-256 accepted, everything else rejected, agreement of from_bytes / try_from / from_multihash, accepted ids re-encode canonically and round-trip through bytes and base58); 1: PublicKey::try_decode_protobuf; 2: Keypair::from_protobuf_encoding (no panic; accepted keys re-encode and decode to the same key, PeerId derivation equals the reference multihash rule, accepted key pairs sign verifiably); non-trivial = well-formed multihash with a decided class / an accepted key",
};
pub const ENVELOPE: FuzzTarget = FuzzTarget {
    name: "envelope",
    entry: envelope,
    about: "input = bytes of a (mutated / spliced) signed envelope; oracle = C21 mutation oracle relative to the 24 genuinely signed peer-record envelopes (12 pool keys x legacy/interop): decoding never panics; PeerRecord::from_signed_envelope / _interop accept only a record identical to a genuine one and only through the reader of its format; payload_and_signing_key with the right domain accepts only a genuine payload+key; genuine bytes are never rejected; non-trivial = decodes as an envelope and is not byte-identical to a genuine one",
};

/// layout: [mode][bytes...]
pub fn identity_decode(data: &[u8]) -> FuzzVerdict {
    let Some((mode, rest)) = data.split_first() else { return Ok(false) };
    crate::c20::fuzz_entry(*mode, rest)
}

/// layout: [envelope bytes...]
pub fn envelope(data: &[u8]) -> FuzzVerdict {
    crate::c21::fuzz_entry(data)
}

pub fn write_seeds(dir: &std::path::Path) -> std::io::Result<usize> {
    let mut n = 0;
    for (target, seeds) in [("identity_decode", crate::c20::fuzz_seed_inputs()), ("envelope", crate::c21::fuzz_seed_inputs())] {
        let d = dir.join(target);
        std::fs::create_dir_all(&d)?;
        for (name, bytes) in seeds {
            std::fs::write(d.join(name), bytes)?;
            n += 1;
        }
    }
    Ok(n)
}
