//! C18 — libp2p TLS certificates bind the peer id to a proof of key possession.
//!
//! * `structural`: the harness assembles X.509 v3 certificates itself (yasna for DER, ring for the
//!   certificate key and the outer signature, the libp2p identity pool for the host key) from a generated
//!   parameter set — validity window, certificate key type, declared vs actual signature algorithm,
//!   self-signed or not, list of extensions (0/1/2 libp2p extensions, unknown / standard extensions, each
//!   critical or not), what the libp2p extension signs (this SPKI / another SPKI / wrong prefix / no prefix /
//!   raw key bits), by whom, corrupted or not — and compares `certificate::parse(..).is_ok()` with the
//!   acceptance predicate of the statement evaluated on the parameters.
//! * `generated-cert-flips` / `cert-mutations`: certificates made by `certificate::generate` for every host
//!   key type (plus two harness-built ones) under every single-byte flip / generated multi-mutations:
//!   `Err`, or `Ok` with the host key's peer id.
use crate::util::*;
use libp2p_identity::PeerId;
use libp2p_tls::certificate;
use proptest::prelude::*;
use ring::rand::SystemRandom;
use ring::signature::{self, EcdsaKeyPair, Ed25519KeyPair, KeyPair, RsaKeyPair};
use rustls_pki_types::CertificateDer;
use serde::{Deserialize, Serialize};
use serde_json::json;
use std::sync::OnceLock;
use vcore::gen::{apply_mutations, mutation, Mutation};
use vcore::runner::{catch, LANES};
use vcore::{ensure, Ctx, Outcome};
use yasna::models::ObjectIdentifier;
use yasna::{DERWriter, Tag};

const P2P_EXT_OID: &[u64] = &[1, 3, 6, 1, 4, 1, 53594, 1, 1];
const PREFIX: &[u8] = b"libp2p-tls-handshake:";

// ---------------------------------------------------------------------------------------------
// certificate keys (harness side)

struct CertKeys {
    p256: Vec<Vec<u8>>,
    p384: Vec<Vec<u8>>,
    ed: Vec<[u8; 32]>,
    rsa: Vec<Vec<u8>>,
}

/// index space: 0,1 = P-256; 2,3 = P-384; 4,5 = Ed25519; 6 = RSA-2048 (repo fixture)
const N_CERT_KEYS: u8 = 7;

#[derive(Clone, Copy, PartialEq, Eq, Debug)]
enum KeyType {
    P256,
    P384,
    Ed25519,
    Rsa,
}

fn key_type(i: u8) -> KeyType {
    match i % N_CERT_KEYS {
        0 | 1 => KeyType::P256,
        2 | 3 => KeyType::P384,
        4 | 5 => KeyType::Ed25519,
        _ => KeyType::Rsa,
    }
}

fn cert_keys() -> &'static CertKeys {
    static K: OnceLock<CertKeys> = OnceLock::new();
    K.get_or_init(|| {
        let rng = SystemRandom::new();
        let gen = |alg: &'static signature::EcdsaSigningAlgorithm| EcdsaKeyPair::generate_pkcs8(alg, &rng).unwrap().as_ref().to_vec();
        CertKeys {
            p256: vec![gen(&signature::ECDSA_P256_SHA256_ASN1_SIGNING), gen(&signature::ECDSA_P256_SHA256_ASN1_SIGNING)],
            p384: vec![gen(&signature::ECDSA_P384_SHA384_ASN1_SIGNING), gen(&signature::ECDSA_P384_SHA384_ASN1_SIGNING)],
            ed: vec![[0x11; 32], [0x42; 32]],
            rsa: std::fs::read("/repo/identity/src/test/rsa-2048.pk8").ok().into_iter().collect(),
        }
    })
}

#[derive(Clone, Copy, Debug, PartialEq, Eq, Serialize, Deserialize)]
pub enum Hash {
    Sha256,
    Sha384,
    Sha512,
}

/// sign `msg` with certificate key `i` using `hash` (ignored for Ed25519); None = combination not available
fn cert_sign(i: u8, hash: Hash, msg: &[u8]) -> Option<Vec<u8>> {
    let k = cert_keys();
    let rng = SystemRandom::new();
    let i = i % N_CERT_KEYS;
    match key_type(i) {
        KeyType::P256 => {
            let alg = match hash {
                Hash::Sha256 => &signature::ECDSA_P256_SHA256_ASN1_SIGNING,
                // ring signs P-256 only with SHA-256
                _ => return None,
            };
            let kp = EcdsaKeyPair::from_pkcs8(alg, &k.p256[i as usize], &rng).ok()?;
            Some(kp.sign(&rng, msg).ok()?.as_ref().to_vec())
        }
        KeyType::P384 => {
            let alg = match hash {
                Hash::Sha384 => &signature::ECDSA_P384_SHA384_ASN1_SIGNING,
                // ring signs P-384 only with SHA-384
                _ => return None,
            };
            let kp = EcdsaKeyPair::from_pkcs8(alg, &k.p384[i as usize - 2], &rng).ok()?;
            Some(kp.sign(&rng, msg).ok()?.as_ref().to_vec())
        }
        KeyType::Ed25519 => {
            let kp = Ed25519KeyPair::from_seed_unchecked(&k.ed[i as usize - 4]).ok()?;
            Some(kp.sign(msg).as_ref().to_vec())
        }
        KeyType::Rsa => {
            let kp = RsaKeyPair::from_pkcs8(k.rsa.first()?).ok()?;
            let alg: &'static dyn signature::RsaEncoding = match hash {
                Hash::Sha256 => &signature::RSA_PKCS1_SHA256,
                Hash::Sha384 => &signature::RSA_PKCS1_SHA384,
                Hash::Sha512 => &signature::RSA_PKCS1_SHA512,
            };
            let mut sig = vec![0u8; kp.public().modulus_len()];
            kp.sign(alg, &rng, msg, &mut sig).ok()?;
            Some(sig)
        }
    }
}

fn oid(arcs: &[u64]) -> ObjectIdentifier {
    ObjectIdentifier::from_slice(arcs)
}

const OID_EC_PUBLIC_KEY: &[u64] = &[1, 2, 840, 10045, 2, 1];
const OID_P256: &[u64] = &[1, 2, 840, 10045, 3, 1, 7];
const OID_P384: &[u64] = &[1, 3, 132, 0, 34];
const OID_ED25519: &[u64] = &[1, 3, 101, 112];
const OID_RSA: &[u64] = &[1, 2, 840, 113549, 1, 1, 1];

/// SubjectPublicKeyInfo DER of certificate key `i`
fn spki(i: u8) -> Option<Vec<u8>> {
    let k = cert_keys();
    let rng = SystemRandom::new();
    let i = i % N_CERT_KEYS;
    let (alg_oid, param, bits): (&[u64], Option<&[u64]>, Vec<u8>) = match key_type(i) {
        KeyType::P256 => (OID_EC_PUBLIC_KEY, Some(OID_P256), EcdsaKeyPair::from_pkcs8(&signature::ECDSA_P256_SHA256_ASN1_SIGNING, &k.p256[i as usize], &rng).ok()?.public_key().as_ref().to_vec()),
        KeyType::P384 => (OID_EC_PUBLIC_KEY, Some(OID_P384), EcdsaKeyPair::from_pkcs8(&signature::ECDSA_P384_SHA384_ASN1_SIGNING, &k.p384[i as usize - 2], &rng).ok()?.public_key().as_ref().to_vec()),
        KeyType::Ed25519 => (OID_ED25519, None, Ed25519KeyPair::from_seed_unchecked(&k.ed[i as usize - 4]).ok()?.public_key().as_ref().to_vec()),
        KeyType::Rsa => (OID_RSA, None, RsaKeyPair::from_pkcs8(k.rsa.first()?).ok()?.public().as_ref().to_vec()),
    };
    let is_rsa = key_type(i) == KeyType::Rsa;
    Some(yasna::construct_der(|w| {
        w.write_sequence(|w| {
            w.next().write_sequence(|w| {
                w.next().write_oid(&oid(alg_oid));
                if let Some(p) = param {
                    w.next().write_oid(&oid(p));
                } else if is_rsa {
                    w.next().write_null();
                }
            });
            w.next().write_bitvec_bytes(&bits, bits.len() * 8);
        })
    }))
}

/// the raw key bits inside the SPKI (used for a "signs the wrong thing" variant)
fn spki_bits(i: u8) -> Option<Vec<u8>> {
    let der = spki(i)?;
    yasna::parse_der(&der, |r| {
        r.read_sequence(|r| {
            r.next().read_der()?;
            let (b, _) = r.next().read_bitvec_bytes()?;
            Ok(b)
        })
    })
    .ok()
}

// ---------------------------------------------------------------------------------------------
// specification of a certificate

#[derive(Clone, Copy, Debug, PartialEq, Eq, Serialize, Deserialize)]
pub enum Decl {
    EcdsaSha256,
    EcdsaSha384,
    EcdsaSha512,
    Ed25519,
    RsaSha256,
    RsaSha384,
    RsaSha512,
    RsaSha1,
    EcdsaSha1,
}

fn decl_oid(d: Decl) -> (&'static [u64], bool) {
    // (oid, NULL parameters present)
    match d {
        Decl::EcdsaSha256 => (&[1, 2, 840, 10045, 4, 3, 2], false),
        Decl::EcdsaSha384 => (&[1, 2, 840, 10045, 4, 3, 3], false),
        Decl::EcdsaSha512 => (&[1, 2, 840, 10045, 4, 3, 4], false),
        Decl::EcdsaSha1 => (&[1, 2, 840, 10045, 4, 1], false),
        Decl::Ed25519 => (&[1, 3, 101, 112], false),
        Decl::RsaSha256 => (&[1, 2, 840, 113549, 1, 1, 11], true),
        Decl::RsaSha384 => (&[1, 2, 840, 113549, 1, 1, 12], true),
        Decl::RsaSha512 => (&[1, 2, 840, 113549, 1, 1, 13], true),
        Decl::RsaSha1 => (&[1, 2, 840, 113549, 1, 1, 5], true),
    }
}

/// the statement's "allowed algorithm": what the implementation documents as supported
fn allowed(k: KeyType, d: Decl) -> bool {
    matches!(
        (k, d),
        (KeyType::P256, Decl::EcdsaSha256) | (KeyType::P384, Decl::EcdsaSha384) | (KeyType::Ed25519, Decl::Ed25519) | (KeyType::Rsa, Decl::RsaSha256) | (KeyType::Rsa, Decl::RsaSha384) | (KeyType::Rsa, Decl::RsaSha512)
    )
}

fn decl_hash(d: Decl) -> Option<Hash> {
    match d {
        Decl::EcdsaSha256 | Decl::RsaSha256 => Some(Hash::Sha256),
        Decl::EcdsaSha384 | Decl::RsaSha384 => Some(Hash::Sha384),
        Decl::EcdsaSha512 | Decl::RsaSha512 => Some(Hash::Sha512),
        Decl::Ed25519 => None,
        Decl::RsaSha1 | Decl::EcdsaSha1 => None,
    }
}

#[derive(Clone, Copy, Debug, PartialEq, Eq, Serialize, Deserialize)]
pub enum Over {
    ThisSpki,
    OtherSpki,
    WrongPrefix,
    NoPrefix,
    KeyBitsOnly,
}

#[derive(Clone, Debug, PartialEq, Eq, Serialize, Deserialize)]
pub enum Ext {
    P2p {
        critical: bool,
        /// pool key whose public key is written into the extension
        ext_key: u8,
        /// pool key that makes the signature
        signer: u8,
        over: Over,
        flip: Option<(u16, u8)>,
    },
    /// private-arc OID nobody knows
    Unknown { critical: bool, arc: u32 },
    /// a standard extension (basicConstraints / keyUsage / subjectAltName) the implementation does not interpret
    Standard { critical: bool, which: u8 },
}

#[derive(Clone, Debug, Serialize, Deserialize)]
pub struct Spec {
    cert_key: u8,
    decl: Decl,
    actual: Hash,
    /// outer signature made by another key of the same type (certificate is not self-signed)
    signed_by_other: bool,
    outer_flip: Option<(u16, u8)>,
    /// validity window in hours relative to now
    not_before_h: i64,
    not_after_h: i64,
    exts: Vec<Ext>,
}

fn civil(days: i64) -> (i64, u32, u32) {
    // days since 1970-01-01 → (y, m, d)  (Howard Hinnant's algorithm)
    let z = days + 719468;
    let era = z.div_euclid(146097);
    let doe = z.rem_euclid(146097);
    let yoe = (doe - doe / 1460 + doe / 36524 - doe / 146096) / 365;
    let y = yoe + era * 400;
    let doy = doe - (365 * yoe + yoe / 4 - yoe / 100);
    let mp = (5 * doy + 2) / 153;
    let d = (doy - (153 * mp + 2) / 5 + 1) as u32;
    let m = if mp < 10 { mp + 3 } else { mp - 9 } as u32;
    (if m <= 2 { y + 1 } else { y }, m, d)
}

fn write_time(w: DERWriter, unix: i64) {
    let days = unix.div_euclid(86400);
    let sod = unix.rem_euclid(86400);
    let (y, m, d) = civil(days);
    let (hh, mm, ss) = (sod / 3600, (sod / 60) % 60, sod % 60);
    if (1950..2050).contains(&y) {
        let s = format!("{:02}{:02}{:02}{:02}{:02}{:02}Z", y % 100, m, d, hh, mm, ss);
        w.write_tagged_implicit(Tag { tag_class: yasna::TagClass::Universal, tag_number: 23 }, |w| w.write_bytes(s.as_bytes()));
    } else {
        let s = format!("{:04}{:02}{:02}{:02}{:02}{:02}Z", y.clamp(0, 9999), m, d, hh, mm, ss);
        w.write_tagged_implicit(Tag { tag_class: yasna::TagClass::Universal, tag_number: 24 }, |w| w.write_bytes(s.as_bytes()));
    }
}

fn now_unix() -> i64 {
    std::time::SystemTime::now().duration_since(std::time::UNIX_EPOCH).map(|d| d.as_secs() as i64).unwrap_or(0)
}

fn build(spec: &Spec) -> Option<Vec<u8>> {
    let pool = vcore::gen::keys().all();
    let this_spki = spki(spec.cert_key)?;
    let other_key = (spec.cert_key % N_CERT_KEYS) ^ 1; // same type, other key (0↔1, 2↔3, 4↔5); RSA has none
    let now = now_unix();
    let (alg_oid, alg_null) = decl_oid(spec.decl);
    let write_alg = |w: DERWriter| {
        w.write_sequence(|w| {
            w.next().write_oid(&oid(alg_oid));
            if alg_null {
                w.next().write_null();
            }
        })
    };
    // extensions
    let mut ext_ders: Vec<Vec<u8>> = vec![];
    for e in &spec.exts {
        let (id, critical, value): (Vec<u64>, bool, Vec<u8>) = match e {
            Ext::P2p { critical, ext_key, signer, over, flip } => {
                let msg: Vec<u8> = match over {
                    Over::ThisSpki => [PREFIX, &this_spki[..]].concat(),
                    Over::OtherSpki => [PREFIX, &spki(if key_type(spec.cert_key) == KeyType::Rsa { 0 } else { other_key })?[..]].concat(),
                    Over::WrongPrefix => [&b"libp2p-tls-handshake "[..], &this_spki[..]].concat(),
                    Over::NoPrefix => this_spki.clone(),
                    Over::KeyBitsOnly => [PREFIX, &spki_bits(spec.cert_key)?[..]].concat(),
                };
                let mut sig = pool[*signer as usize % pool.len()].sign(&msg).ok()?;
                if let Some((pos, xor)) = flip {
                    let i = vcore::pick(*pos, sig.len());
                    sig[i] ^= (*xor).max(1);
                }
                let pk = pool[*ext_key as usize % pool.len()].public().encode_protobuf();
                let value = yasna::construct_der(|w| {
                    w.write_sequence(|w| {
                        w.next().write_bytes(&pk);
                        w.next().write_bytes(&sig);
                    })
                });
                (P2P_EXT_OID.to_vec(), *critical, value)
            }
            Ext::Unknown { critical, arc } => (vec![1, 3, 6, 1, 4, 1, 99999, 7, *arc as u64], *critical, yasna::construct_der(|w| w.write_bytes(b"opaque"))),
            Ext::Standard { critical, which } => match which % 3 {
                // basicConstraints: SEQUENCE { cA FALSE (default, omitted) }
                0 => (vec![2, 5, 29, 19], *critical, yasna::construct_der(|w| w.write_sequence(|_| {}))),
                // keyUsage: digitalSignature
                1 => (vec![2, 5, 29, 15], *critical, yasna::construct_der(|w| w.write_bitvec_bytes(&[0x80], 1))),
                // subjectAltName: dNSName "example.org"
                _ => (vec![2, 5, 29, 17], *critical, yasna::construct_der(|w| w.write_sequence(|w| w.next().write_tagged_implicit(Tag::context(2), |w| w.write_ia5_string("example.org"))))),
            },
        };
        ext_ders.push(yasna::construct_der(|w| {
            w.write_sequence(|w| {
                w.next().write_oid(&oid(&id));
                if critical {
                    w.next().write_bool(true);
                }
                w.next().write_bytes(&value);
            })
        }));
    }
    let tbs = yasna::construct_der(|w| {
        w.write_sequence(|w| {
            w.next().write_tagged(Tag::context(0), |w| w.write_i64(2));
            w.next().write_u64(0x1234_5678_9abc);
            write_alg(w.next());
            w.next().write_sequence(|_| {}); // issuer: empty RDNSequence
            w.next().write_sequence(|w| {
                write_time(w.next(), now + spec.not_before_h * 3600);
                write_time(w.next(), now + spec.not_after_h * 3600);
            });
            w.next().write_sequence(|_| {}); // subject
            w.next().write_der(&this_spki);
            if !ext_ders.is_empty() {
                w.next().write_tagged(Tag::context(3), |w| {
                    w.write_sequence(|w| {
                        for e in &ext_ders {
                            w.next().write_der(e);
                        }
                    })
                });
            }
        })
    });
    let signing_key = if spec.signed_by_other && key_type(spec.cert_key) != KeyType::Rsa { other_key } else { spec.cert_key };
    let mut sig = cert_sign(signing_key, spec.actual, &tbs)?;
    if let Some((pos, xor)) = spec.outer_flip {
        let i = vcore::pick(pos, sig.len());
        sig[i] ^= xor.max(1);
    }
    Some(yasna::construct_der(|w| {
        w.write_sequence(|w| {
            w.next().write_der(&tbs);
            write_alg(w.next());
            w.next().write_bitvec_bytes(&sig, sig.len() * 8);
        })
    }))
}

#[derive(Debug, PartialEq, Eq, Clone, Copy)]
enum Verdict {
    Accept,
    Reject,
    DontCare,
}

/// acceptance predicate of the statement on the construction parameters; also returns the violated rules
fn reference(spec: &Spec) -> (Verdict, Vec<&'static str>, Option<PeerId>) {
    let pool = vcore::gen::keys().all();
    let mut v: Vec<&'static str> = vec![];
    let kt = key_type(spec.cert_key);
    if !(spec.not_before_h <= 0 && spec.not_after_h >= 0) {
        v.push("viol:validity-window");
    }
    if !allowed(kt, spec.decl) {
        v.push("viol:algorithm-not-allowed");
    } else if decl_hash(spec.decl).map(|h| h != spec.actual).unwrap_or(false) {
        v.push("viol:outer-signature-made-with-other-hash");
    }
    if spec.signed_by_other && kt != KeyType::Rsa {
        v.push("viol:not-self-signed");
    }
    if spec.outer_flip.is_some() {
        v.push("viol:outer-signature-corrupted");
    }
    let p2p: Vec<&Ext> = spec.exts.iter().filter(|e| matches!(e, Ext::P2p { .. })).collect();
    let mut peer = None;
    match p2p.len() {
        0 => v.push("viol:no-libp2p-extension"),
        1 => {
            if let Ext::P2p { ext_key, signer, over, flip, .. } = p2p[0] {
                let (ek, sk) = (pool[*ext_key as usize % pool.len()].public(), pool[*signer as usize % pool.len()].public());
                peer = Some(ek.to_peer_id());
                if ek != sk {
                    v.push("viol:extension-signed-by-other-host-key");
                }
                match over {
                    Over::ThisSpki => {}
                    Over::OtherSpki => v.push("viol:extension-signs-other-spki"),
                    Over::WrongPrefix | Over::NoPrefix => v.push("viol:extension-signs-wrong-prefix"),
                    Over::KeyBitsOnly => v.push("viol:extension-signs-raw-key-bits"),
                }
                if flip.is_some() {
                    v.push("viol:extension-signature-corrupted");
                }
            }
        }
        _ => v.push("viol:duplicate-libp2p-extension"),
    }
    let mut dont_care = false;
    for e in &spec.exts {
        match e {
            Ext::Unknown { critical: true, .. } => v.push("viol:unknown-critical-extension"),
            Ext::Standard { critical: true, .. } => dont_care = true,
            _ => {}
        }
    }
    v.dedup();
    let verdict = if !v.is_empty() {
        Verdict::Reject
    } else if dont_care {
        Verdict::DontCare
    } else {
        Verdict::Accept
    };
    (verdict, v, peer)
}

fn err_label(e: &str) -> &'static str {
    match e {
        "BadDer" => "err:BadDer",
        "UnknownIssuer" => "err:UnknownIssuer",
        "InvalidCertValidity" => "err:InvalidCertValidity",
        "SignatureAlgorithmMismatch" => "err:SignatureAlgorithmMismatch",
        "UnsupportedCriticalExtension" => "err:UnsupportedCriticalExtension",
        "ExtensionValueInvalid" => "err:ExtensionValueInvalid",
        "InvalidSignatureForPublicKey" => "err:InvalidSignatureForPublicKey",
        s if s.starts_with("UnsupportedSignatureAlgorithm") => "err:UnsupportedSignatureAlgorithm",
        _ => "err:other",
    }
}

fn parse(der: &[u8]) -> Result<Result<PeerId, String>, String> {
    catch(|| {
        let c = CertificateDer::from(der);
        certificate::parse(&c).map(|p| p.peer_id()).map_err(|e| e.to_string())
    })
}

fn check_spec(spec: &Spec) -> Outcome {
    let Some(der) = build(spec) else { return Outcome::Discard };
    let (verdict, viol, peer) = reference(spec);
    let got = match parse(&der) {
        Err(p) => return Outcome::fail("C18:panic-in-certificate-parse", json!({"panic": p, "cert": hex(&der)})),
        Ok(r) => r,
    };
    let mut labels: Vec<&'static str> = viol.clone();
    labels.push(match key_type(spec.cert_key) {
        KeyType::P256 => "certkey:p256",
        KeyType::P384 => "certkey:p384",
        KeyType::Ed25519 => "certkey:ed25519",
        KeyType::Rsa => "certkey:rsa",
    });
    let detail = |der: &[u8]| json!({"violated_rules": viol, "result": format!("{got:?}"), "spec": format!("{spec:?}"), "cert": hex(der)});
    match (&got, verdict) {
        (Ok(p), Verdict::Accept) => {
            ensure!(Some(*p) == peer, "C18:accepted-certificate-yields-other-peer-id", detail(&der));
            labels.push("accepted");
        }
        (Err(_), Verdict::Accept) => return Outcome::fail("C18:valid-certificate-rejected", detail(&der)),
        (Ok(_), Verdict::Reject) => {
            // name the (first) rule that was not enforced
            let sig = match viol.first().copied().unwrap_or("") {
                "viol:validity-window" => "C18:accepted-outside-validity-window",
                "viol:algorithm-not-allowed" => "C18:accepted-disallowed-signature-algorithm",
                "viol:outer-signature-made-with-other-hash" | "viol:outer-signature-corrupted" => "C18:accepted-invalid-self-signature",
                "viol:not-self-signed" => "C18:accepted-certificate-not-self-signed",
                "viol:no-libp2p-extension" => "C18:accepted-without-libp2p-extension",
                "viol:duplicate-libp2p-extension" => "C18:accepted-duplicate-libp2p-extension",
                "viol:unknown-critical-extension" => "C18:accepted-unknown-critical-extension",
                _ => "C18:accepted-invalid-extension-signature",
            };
            return Outcome::fail(sig, detail(&der));
        }
        (Err(e), Verdict::Reject) => {
            labels.push("rejected");
            labels.push(err_label(e));
        }
        (Ok(p), Verdict::DontCare) => {
            ensure!(Some(*p) == peer, "C18:accepted-certificate-yields-other-peer-id", detail(&der));
            labels.push("dont-care:accepted");
        }
        (Err(_), Verdict::DontCare) => labels.push("dont-care:rejected"),
    }
    labels.push(match viol.len() {
        0 => "violations:0",
        1 => "violations:1",
        _ => "violations:2+",
    });
    // non-trivial: a structurally valid certificate with exactly one violated rule (or none, as control: not counted)
    Outcome::pass_l(viol.len() == 1, labels)
}

fn good_decl(k: KeyType) -> impl Strategy<Value = (Decl, Hash)> {
    match k {
        KeyType::P256 => Just((Decl::EcdsaSha256, Hash::Sha256)).boxed(),
        KeyType::P384 => Just((Decl::EcdsaSha384, Hash::Sha384)).boxed(),
        KeyType::Ed25519 => Just((Decl::Ed25519, Hash::Sha256)).boxed(),
        KeyType::Rsa => prop_oneof![Just((Decl::RsaSha256, Hash::Sha256)), Just((Decl::RsaSha384, Hash::Sha384)), Just((Decl::RsaSha512, Hash::Sha512))].boxed(),
    }
}

fn bad_decl(k: KeyType) -> impl Strategy<Value = (Decl, Hash)> {
    match k {
        KeyType::P256 => prop_oneof![
            Just((Decl::EcdsaSha384, Hash::Sha256)),
            Just((Decl::EcdsaSha1, Hash::Sha256)),
            Just((Decl::EcdsaSha512, Hash::Sha256)),
            Just((Decl::Ed25519, Hash::Sha256)),
            Just((Decl::RsaSha256, Hash::Sha256)),
        ]
        .boxed(),
        KeyType::P384 => prop_oneof![Just((Decl::EcdsaSha256, Hash::Sha384)), Just((Decl::EcdsaSha1, Hash::Sha384)), Just((Decl::EcdsaSha512, Hash::Sha384)), Just((Decl::Ed25519, Hash::Sha384))].boxed(),
        KeyType::Ed25519 => prop_oneof![Just((Decl::EcdsaSha256, Hash::Sha256)), Just((Decl::RsaSha256, Hash::Sha256)), Just((Decl::EcdsaSha384, Hash::Sha256))].boxed(),
        KeyType::Rsa => prop_oneof![Just((Decl::RsaSha256, Hash::Sha384)), Just((Decl::RsaSha1, Hash::Sha256)), Just((Decl::RsaSha512, Hash::Sha256)), Just((Decl::EcdsaSha256, Hash::Sha256)), Just((Decl::Ed25519, Hash::Sha256))].boxed(),
    }
}

fn p2p_ext(bad: bool) -> impl Strategy<Value = Ext> {
    (any::<bool>(), pool_idx(5), pool_idx(5), 0u8..6, proptest::option::weighted(0.5, (any::<u16>(), 1u8..=255)), 0u8..3).prop_map(move |(critical, ext_key, other, which, flip, kind)| {
        if !bad {
            return Ext::P2p { critical, ext_key, signer: ext_key, over: Over::ThisSpki, flip: None };
        }
        match kind {
            // signed by another host key
            0 => Ext::P2p { critical, ext_key, signer: if other % POOL_LEN as u8 == ext_key % POOL_LEN as u8 { (ext_key + 1) % POOL_CHEAP as u8 } else { other }, over: Over::ThisSpki, flip: None },
            // signs the wrong thing
            1 => Ext::P2p { critical, ext_key, signer: ext_key, over: [Over::OtherSpki, Over::WrongPrefix, Over::NoPrefix, Over::KeyBitsOnly][which as usize % 4], flip: None },
            // corrupted signature
            _ => Ext::P2p { critical, ext_key, signer: ext_key, over: Over::ThisSpki, flip: Some(flip.unwrap_or((7, 1))) },
        }
    })
}

fn spec() -> impl Strategy<Value = Spec> {
    // hours: within ±1 h of now is avoided (the implementation reads the wall clock)
    let past = prop_oneof![2 => 2i64..10_000, 1 => 10_000i64..450_000, 1 => Just(24 * 365 * 50)];
    let future = prop_oneof![2 => 2i64..10_000, 1 => 10_000i64..230_000, 1 => Just(24 * 366 * 2000)];
    // violation selector: 0 = none … one rule broken; sometimes two
    let viol = prop_oneof![3 => Just(vec![]), 12 => (0u8..10).prop_map(|v| vec![v]), 3 => proptest::collection::vec(0u8..10, 2)];
    (0u8..N_CERT_KEYS, viol, past, future, any::<u64>()).prop_flat_map(|(ck, viol, past, future, salt)| {
        // RSA certificate keys are slow to sign with: keep them at ~7 %
        let ck = if key_type(ck) == KeyType::Rsa && salt % 2 == 0 { (salt % 6) as u8 } else { ck };
        let kt = key_type(ck);
        let has = |n: u8| viol.contains(&n);
        let decl = if has(0) { bad_decl(kt).boxed() } else { good_decl(kt).boxed() };
        let ext_mode = if has(1) {
            0u8 // no libp2p extension
        } else if has(2) {
            2 // two
        } else {
            1
        };
        let bad_ext = has(3);
        let unknown_critical = has(4);
        let window = if has(5) { 1u8 } else if has(6) { 2 } else { 0 };
        let not_self = has(7) && kt != KeyType::Rsa;
        let outer_flip = has(8);
        let wrong_time_order = has(9);
        (
            decl,
            p2p_ext(bad_ext),
            p2p_ext(false),
            proptest::collection::vec(prop_oneof![3 => (any::<bool>(), 0u32..50).prop_map(|(_, arc)| Ext::Unknown { critical: false, arc }), 2 => (proptest::bool::weighted(0.15), 0u8..3).prop_map(|(critical, which)| Ext::Standard { critical, which })], 0..3),
            (any::<u16>(), 1u8..=255, 0u32..50, any::<u8>()),
        )
            .prop_map(move |((decl, actual), e1, e2, mut others, (fpos, fxor, arc, order))| {
                let mut exts = vec![];
                match ext_mode {
                    0 => {}
                    1 => exts.push(e1),
                    _ => {
                        exts.push(e1);
                        exts.push(e2);
                    }
                }
                if unknown_critical {
                    others.push(Ext::Unknown { critical: true, arc });
                }
                // interleave in a generated order
                for (i, o) in others.into_iter().enumerate() {
                    let at = if exts.is_empty() { 0 } else { (order as usize + i * 3) % (exts.len() + 1) };
                    exts.insert(at, o);
                }
                let (nb, na) = match (window, wrong_time_order) {
                    (1, _) => (-past - 48, -(2i64.max(past / 1000))), // expired
                    (2, _) => (2i64.max(future / 1000), future + 48), // not yet valid
                    (_, true) => (future, -past),                // inverted window around now
                    _ => (-past, future),
                };
                Spec { cert_key: ck, decl, actual, signed_by_other: not_self, outer_flip: outer_flip.then_some((fpos, fxor)), not_before_h: nb, not_after_h: na, exts }
            })
    })
}

// ---------------------------------------------------------------------------------------------
// byte mutations of accepted certificates

struct BaseCert {
    der: Vec<u8>,
    peer: PeerId,
    label: &'static str,
}

fn base_certs() -> &'static Vec<BaseCert> {
    static B: OnceLock<Vec<BaseCert>> = OnceLock::new();
    B.get_or_init(|| {
        let pool = vcore::gen::keys().all();
        let mut v = vec![];
        for (i, label) in [(0usize, "generate:ed25519-host"), (4, "generate:secp256k1-host"), (7, "generate:ecdsa-host"), (10, "generate:rsa-host")] {
            let (cert, _key) = certificate::generate(pool[i]).expect("generate");
            v.push(BaseCert { der: cert.as_ref().to_vec(), peer: pool[i].public().to_peer_id(), label });
        }
        for (ck, host, decl, label) in [(4u8, 1u8, Decl::Ed25519, "built:ed25519-certkey"), (2, 5, Decl::EcdsaSha384, "built:p384-certkey")] {
            let spec = Spec {
                cert_key: ck,
                decl,
                actual: Hash::Sha384,
                signed_by_other: false,
                outer_flip: None,
                not_before_h: -1000,
                not_after_h: 100_000,
                exts: vec![Ext::Unknown { critical: false, arc: 1 }, Ext::P2p { critical: true, ext_key: host, signer: host, over: Over::ThisSpki, flip: None }],
            };
            if let Some(der) = build(&spec) {
                v.push(BaseCert { der, peer: pool[host as usize].public().to_peer_id(), label });
            }
        }
        v
    })
}

#[derive(Clone, Debug, Serialize, Deserialize)]
pub struct MutCase {
    /// hex of the certificate the mutation applies to (carried in the case so that a replay uses the same bytes)
    cert: String,
    peer: String,
    flips: Vec<(u16, u8)>,
    muts: Vec<Mutation>,
}

fn unhex(s: &str) -> Vec<u8> {
    (0..s.len() / 2).filter_map(|i| u8::from_str_radix(&s[2 * i..2 * i + 2], 16).ok()).collect()
}

fn check_mut(c: &MutCase) -> Outcome {
    let orig = unhex(&c.cert);
    let mut der = orig.clone();
    for (pos, xor) in &c.flips {
        if let Some(b) = der.get_mut(*pos as usize) {
            *b ^= *xor;
        }
    }
    let der = apply_mutations(&der, &c.muts);
    let changed = der != orig;
    let got = match parse(&der) {
        Err(p) => return Outcome::fail("C18:panic-in-certificate-parse", json!({"panic": p, "cert": hex(&der)})),
        Ok(r) => r,
    };
    let mut labels = vec![];
    match got {
        Ok(p) => {
            ensure!(p.to_string() == c.peer, "C18:mutated-certificate-accepted-with-different-peer-id", json!({"original": c.cert, "mutated": hex(&der), "peer": p.to_string(), "expected": c.peer}));
            labels.push(if changed { "mutated-accepted-same-peer" } else { "unchanged-accepted" });
        }
        Err(e) => {
            ensure!(changed, "C18:valid-certificate-rejected", json!({"cert": c.cert, "err": e}));
            labels.push("rejected");
            labels.push(err_label(&e));
        }
    }
    Outcome::pass_l(changed, labels)
}

pub fn run(ctx: &mut Ctx) {
    ctx.assume("certificate validity is judged against the wall clock by the implementation; generated windows keep ≥ 2 h distance from now");
    ctx.assume("'allowed algorithm' = the combinations the implementation documents: P-256/SHA-256, P-384/SHA-384, Ed25519, RSA PKCS#1 SHA-256/384/512 (RSA-PSS not generated)");
    ctx.assume("critical *standard* extensions (basicConstraints, keyUsage, subjectAltName) are don't-care: the statement speaks of unknown critical extensions; unknown = private-arc OIDs");
    ctx.assume("certificate keys of the structural certificates are generated by ring per process (P-256/P-384) — the predicate does not depend on their value; mutation cases carry the certificate bytes");
    let all = !ctx.quick();

    // sanity of the harness builder: the baseline must be accepted (else every 'reject' would be vacuous)
    let certs = base_certs();
    ctx.extra("base_certificates", json!(certs.iter().map(|b| json!({"label": b.label, "len": b.der.len()})).collect::<Vec<_>>()));

    ctx.check::<Spec>(
        "structural",
        "harness-built certificates: baseline valid for every certificate key type, then 0 (15 %), 1 (70 %) or 2 (15 %) violated rules out of {algorithm not allowed / hash mismatch, no libp2p extension, two libp2p extensions, extension signed by other key / over other SPKI / wrong prefix / raw key bits / corrupted, unknown critical extension, expired, not yet valid, inverted window, not self-signed, corrupted outer signature}; extra non-critical unknown and standard extensions in generated positions; non-trivial = exactly one violated rule",
        ctx.n(6_000, 200_000),
        &|| spec().boxed(),
        &check_spec,
    );
    ctx.level = "fault_enumeration";
    let xs: Vec<u8> = if all { (1..=255u8).collect() } else { vec![1, 2, 4, 8, 16, 32, 64, 128, 0xff] };
    ctx.sweep::<MutCase, _>(
        "generated-cert-flips",
        "certificates from certificate::generate for an ed25519 / secp256k1 / ecdsa / rsa host key and two harness-built ones (Ed25519 and P-384 certificate keys): every byte position × xor values (quick: 8 single bits + 0xff; thorough: all 255); Err or the same peer id; every case non-trivial",
        true,
        &|lane| {
            let xs = xs.clone();
            certs.iter().flat_map(move |b| {
                let (h, peer) = (hex(&b.der), b.peer.to_string());
                let xs = xs.clone();
                (0..b.der.len()).flat_map(move |pos| {
                    let (h, peer) = (h.clone(), peer.clone());
                    xs.clone().into_iter().map(move |x| MutCase { cert: h.clone(), peer: peer.clone(), flips: vec![(pos as u16, x)], muts: vec![] })
                })
            })
            .skip(lane)
            .step_by(LANES)
        },
        &check_mut,
    );
    ctx.check::<MutCase>(
        "cert-mutations",
        "the same base certificates with two byte flips or 1..3 structure-aware mutations (flip, set, truncate, duplicate, remove, insert); Err or the same peer id; non-trivial = bytes changed",
        ctx.n(20_000, 600_000),
        &|| {
            let bases: Vec<(String, String, usize)> = base_certs().iter().map(|b| (hex(&b.der), b.peer.to_string(), b.der.len())).collect();
            (proptest::sample::select(bases), any::<bool>(), (any::<u16>(), 1u8..=255), (any::<u16>(), 1u8..=255), proptest::collection::vec(mutation(), 1..4))
                .prop_map(|((cert, peer, len), double_flip, f1, f2, muts)| {
                    if double_flip {
                        MutCase { cert, peer, flips: vec![(vcore::pick(f1.0, len) as u16, f1.1), (vcore::pick(f2.0, len) as u16, f2.1)], muts: vec![] }
                    } else {
                        MutCase { cert, peer, flips: vec![], muts }
                    }
                })
                .boxed()
        },
        &check_mut,
    );
}
