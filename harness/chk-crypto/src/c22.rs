//! C22 — global-only transport never dials non-global IPs.
//!
//! Oracle: the IANA IPv4 / IPv6 special-purpose address registries, embedded below as tables, evaluated
//! three-valued:
//!   * must-refuse — the address lies in ≥ 1 registry block and every block containing it is marked
//!     "globally reachable: False" (and was in the registry before 2023);
//!   * must-pass   — the address lies in no registry block at all;
//!   * don't-care  — the address lies in a block marked reachable (True) or N/A (nested exceptions such as
//!     192.0.0.9/32, 2001:3::/32; stand-alone reachable blocks such as 192.31.196.0/24; 6to4, Teredo) or in a
//!     block added to the registry in/after 2023 (3fff::/20, 5f00::/16, 100:0:0:1::/64, 2001:30::/28,
//!     2001:1::3/128).
//! Every probe goes through `libp2p_core::transport::global_only::Transport::dial` wrapping a recording
//! inner transport.
use futures::future::{ready, Ready};
use futures::FutureExt;
use libp2p_core::transport::{global_only, DialOpts, ListenerId, PortUse, TransportError, TransportEvent};
use libp2p_core::{Endpoint, Transport};
use multiaddr::{Multiaddr, Protocol};
use proptest::prelude::*;
use serde::{Deserialize, Serialize};
use serde_json::json;
use std::cell::Cell;
use std::net::{Ipv4Addr, Ipv6Addr};
use std::pin::Pin;
use std::rc::Rc;
use std::sync::atomic::{AtomicU64, Ordering};
use std::sync::OnceLock;
use std::task::{Context, Poll};
use vcore::gen::{build_addr, Comp};
use vcore::runner::LANES;
use vcore::{Ctx, Outcome};

// ---------------------------------------------------------------------------------------------
// registry tables

#[derive(Clone, Copy, PartialEq, Eq, Debug)]
enum Reach {
    No,
    Yes,
    NA,
}
use Reach::*;

struct B4 {
    net: [u8; 4],
    len: u8,
    name: &'static str,
    reach: Reach,
    recent: bool,
}

const fn b4(net: [u8; 4], len: u8, name: &'static str, reach: Reach) -> B4 {
    B4 { net, len, name, reach, recent: false }
}

/// IANA IPv4 Special-Purpose Address Registry
const V4: &[B4] = &[
    b4([0, 0, 0, 0], 8, "this-network", No),
    b4([0, 0, 0, 0], 32, "this-host", No),
    b4([10, 0, 0, 0], 8, "private-use-10", No),
    b4([100, 64, 0, 0], 10, "shared-address-space", No),
    b4([127, 0, 0, 0], 8, "loopback", No),
    b4([169, 254, 0, 0], 16, "link-local", No),
    b4([172, 16, 0, 0], 12, "private-use-172.16", No),
    b4([192, 0, 0, 0], 24, "ietf-protocol-assignments", No),
    b4([192, 0, 0, 0], 29, "ipv4-service-continuity", No),
    b4([192, 0, 0, 8], 32, "ipv4-dummy-address", No),
    b4([192, 0, 0, 9], 32, "pcp-anycast", Yes),
    b4([192, 0, 0, 10], 32, "turn-anycast", Yes),
    b4([192, 0, 0, 170], 32, "nat64-dns64-discovery-170", No),
    b4([192, 0, 0, 171], 32, "nat64-dns64-discovery-171", No),
    b4([192, 0, 2, 0], 24, "test-net-1", No),
    b4([192, 31, 196, 0], 24, "as112-v4", Yes),
    b4([192, 52, 193, 0], 24, "amt", Yes),
    b4([192, 88, 99, 0], 24, "deprecated-6to4-relay-anycast", NA),
    b4([192, 168, 0, 0], 16, "private-use-192.168", No),
    b4([192, 175, 48, 0], 24, "direct-delegation-as112", Yes),
    b4([198, 18, 0, 0], 15, "benchmarking", No),
    b4([198, 51, 100, 0], 24, "test-net-2", No),
    b4([203, 0, 113, 0], 24, "test-net-3", No),
    b4([240, 0, 0, 0], 4, "reserved", No),
    b4([255, 255, 255, 255], 32, "limited-broadcast", No),
];

struct B6 {
    net: [u16; 8],
    len: u8,
    name: &'static str,
    reach: Reach,
    recent: bool,
}

const fn b6(net: [u16; 8], len: u8, name: &'static str, reach: Reach, recent: bool) -> B6 {
    B6 { net, len, name, reach, recent }
}

/// IANA IPv6 Special-Purpose Address Registry
const V6: &[B6] = &[
    b6([0, 0, 0, 0, 0, 0, 0, 1], 128, "loopback", No, false),
    b6([0, 0, 0, 0, 0, 0, 0, 0], 128, "unspecified", No, false),
    b6([0, 0, 0, 0, 0, 0xffff, 0, 0], 96, "ipv4-mapped", No, false),
    b6([0x64, 0xff9b, 0, 0, 0, 0, 0, 0], 96, "ipv4-ipv6-translation-wkp", Yes, false),
    b6([0x64, 0xff9b, 1, 0, 0, 0, 0, 0], 48, "ipv4-ipv6-translation-local", No, false),
    b6([0x100, 0, 0, 0, 0, 0, 0, 0], 64, "discard-only", No, false),
    b6([0x100, 0, 0, 1, 0, 0, 0, 0], 64, "dummy-ipv6-prefix", No, true),
    b6([0x2001, 0, 0, 0, 0, 0, 0, 0], 23, "ietf-protocol-assignments", No, false),
    b6([0x2001, 0, 0, 0, 0, 0, 0, 0], 32, "teredo", NA, false),
    b6([0x2001, 1, 0, 0, 0, 0, 0, 1], 128, "pcp-anycast", Yes, false),
    b6([0x2001, 1, 0, 0, 0, 0, 0, 2], 128, "turn-anycast", Yes, false),
    b6([0x2001, 1, 0, 0, 0, 0, 0, 3], 128, "dns-sd-srp-anycast", Yes, true),
    b6([0x2001, 2, 0, 0, 0, 0, 0, 0], 48, "benchmarking", No, false),
    b6([0x2001, 3, 0, 0, 0, 0, 0, 0], 32, "amt", Yes, false),
    b6([0x2001, 4, 0x112, 0, 0, 0, 0, 0], 48, "as112-v6", Yes, false),
    b6([0x2001, 0x10, 0, 0, 0, 0, 0, 0], 28, "deprecated-orchid", NA, false),
    b6([0x2001, 0x20, 0, 0, 0, 0, 0, 0], 28, "orchidv2", Yes, false),
    b6([0x2001, 0x30, 0, 0, 0, 0, 0, 0], 28, "drip-entity-tags", Yes, true),
    b6([0x2001, 0xdb8, 0, 0, 0, 0, 0, 0], 32, "documentation", No, false),
    b6([0x2002, 0, 0, 0, 0, 0, 0, 0], 16, "6to4", NA, false),
    b6([0x2620, 0x4f, 0x8000, 0, 0, 0, 0, 0], 48, "direct-delegation-as112", Yes, false),
    b6([0x3fff, 0, 0, 0, 0, 0, 0, 0], 20, "documentation-3fff", No, true),
    b6([0x5f00, 0, 0, 0, 0, 0, 0, 0], 16, "srv6-sids", No, true),
    b6([0xfc00, 0, 0, 0, 0, 0, 0, 0], 7, "unique-local", No, false),
    b6([0xfe80, 0, 0, 0, 0, 0, 0, 0], 10, "link-local-unicast", No, false),
];

#[derive(Clone, Copy, PartialEq, Eq, Debug)]
enum Class {
    MustRefuse,
    MustPass,
    DontCare,
}

fn v4_range(b: &B4) -> (u32, u32) {
    let net = u32::from_be_bytes(b.net);
    let mask = if b.len == 0 { 0 } else { u32::MAX << (32 - b.len as u32) };
    (net & mask, (net & mask) | !mask)
}

fn v6_range(b: &B6) -> (u128, u128) {
    let net = u128::from(Ipv6Addr::new(b.net[0], b.net[1], b.net[2], b.net[3], b.net[4], b.net[5], b.net[6], b.net[7]));
    let mask = if b.len == 0 { 0 } else { u128::MAX << (128 - b.len as u32) };
    (net & mask, (net & mask) | !mask)
}

/// direct evaluation over the table: (class, name of the most specific containing block)
fn class_v4(a: u32) -> (Class, &'static str) {
    let (mut any, mut dc, mut best, mut best_len) = (false, false, "none", 0u8);
    for b in V4 {
        let (lo, hi) = v4_range(b);
        if a >= lo && a <= hi {
            any = true;
            if b.reach != No || b.recent {
                dc = true;
            }
            if b.len >= best_len {
                best = b.name;
                best_len = b.len;
            }
        }
    }
    (if !any { Class::MustPass } else if dc { Class::DontCare } else { Class::MustRefuse }, best)
}

fn class_v6(a: u128) -> (Class, &'static str) {
    let (mut any, mut dc, mut best, mut best_len) = (false, false, "none", 0u8);
    for b in V6 {
        let (lo, hi) = v6_range(b);
        if a >= lo && a <= hi {
            any = true;
            if b.reach != No || b.recent {
                dc = true;
            }
            if b.len >= best_len {
                best = b.name;
                best_len = b.len;
            }
        }
    }
    (if !any { Class::MustPass } else if dc { Class::DontCare } else { Class::MustRefuse }, best)
}

/// IPv4 segment map derived from the table (sorted segment starts + class), for the bulk sweeps
struct Seg4 {
    starts: Vec<u32>,
    classes: Vec<Class>,
    /// addresses within 1 of a block boundary
    edges: Vec<u32>,
}

fn seg4() -> &'static Seg4 {
    static S: OnceLock<Seg4> = OnceLock::new();
    S.get_or_init(|| {
        let mut starts = vec![0u32];
        let mut edges = vec![];
        for b in V4 {
            let (lo, hi) = v4_range(b);
            starts.push(lo);
            if hi != u32::MAX {
                starts.push(hi + 1);
            }
            for e in [lo.checked_sub(1), Some(lo), Some(hi), hi.checked_add(1)].into_iter().flatten() {
                edges.push(e);
            }
        }
        starts.sort_unstable();
        starts.dedup();
        edges.sort_unstable();
        edges.dedup();
        let classes = starts.iter().map(|s| class_v4(*s).0).collect();
        Seg4 { starts, classes, edges }
    })
}

impl Seg4 {
    fn idx(&self, a: u32) -> usize {
        self.starts.partition_point(|s| *s <= a) - 1
    }
    fn is_edge(&self, a: u32) -> bool {
        self.edges.binary_search(&a).is_ok()
    }
    /// does [lo, hi] contain an address within 1 of a boundary
    fn range_has_edge(&self, lo: u32, hi: u32) -> bool {
        let i = self.edges.partition_point(|e| *e < lo);
        self.edges.get(i).map(|e| *e <= hi).unwrap_or(false)
    }
}

// ---------------------------------------------------------------------------------------------
// recording inner transport + probe

struct Rec {
    calls: Rc<Cell<u64>>,
    fail: bool,
}

type Out = (Multiaddr, Endpoint, PortUse);

impl Transport for Rec {
    type Output = Out;
    type Error = std::io::Error;
    type ListenerUpgrade = Ready<Result<Out, std::io::Error>>;
    type Dial = Ready<Result<Out, std::io::Error>>;

    fn listen_on(&mut self, _id: ListenerId, addr: Multiaddr) -> Result<(), TransportError<Self::Error>> {
        Err(TransportError::MultiaddrNotSupported(addr))
    }
    fn remove_listener(&mut self, _id: ListenerId) -> bool {
        false
    }
    fn dial(&mut self, addr: Multiaddr, opts: DialOpts) -> Result<Self::Dial, TransportError<Self::Error>> {
        self.calls.set(self.calls.get() + 1);
        if self.fail {
            return Err(TransportError::Other(std::io::Error::other("inner transport refuses")));
        }
        Ok(ready(Ok((addr, opts.role, opts.port_use))))
    }
    fn poll(self: Pin<&mut Self>, _cx: &mut Context<'_>) -> Poll<TransportEvent<Self::ListenerUpgrade, Self::Error>> {
        Poll::Pending
    }
}

struct Prober {
    t: global_only::Transport<Rec>,
    calls: Rc<Cell<u64>>,
}

#[derive(Debug, PartialEq, Eq, Clone, Copy)]
enum Got {
    /// Err(MultiaddrNotSupported(same addr)), inner not called
    Refused,
    /// Ok(dial) resolving to exactly (addr, opts); inner called once
    Passed,
    /// inner was called once and its error was propagated
    InnerError,
    Anomaly(&'static str),
}

static DIALS: AtomicU64 = AtomicU64::new(0);

impl Prober {
    fn new(fail: bool) -> Self {
        let calls = Rc::new(Cell::new(0));
        Prober { t: global_only::Transport::new(Rec { calls: calls.clone(), fail }), calls }
    }
    fn probe(&mut self, addr: Multiaddr, opts: DialOpts) -> Got {
        let before = self.calls.get();
        let want = addr.clone();
        let r = self.t.dial(addr, opts);
        let n = self.calls.get() - before;
        match r {
            Err(TransportError::MultiaddrNotSupported(a)) => {
                if n != 0 {
                    Got::Anomaly("C22:inner-called-although-refused")
                } else if a != want {
                    Got::Anomaly("C22:refusal-returns-different-address")
                } else {
                    Got::Refused
                }
            }
            Err(TransportError::Other(_)) => {
                if n == 1 {
                    Got::InnerError
                } else {
                    Got::Anomaly("C22:error-without-inner-call")
                }
            }
            Ok(fut) => {
                if n != 1 {
                    return Got::Anomaly("C22:dial-ok-without-exactly-one-inner-call");
                }
                match fut.now_or_never() {
                    Some(Ok((a, role, pu))) => {
                        if a != want {
                            Got::Anomaly("C22:inner-got-different-address")
                        } else if role != opts.role || pu != opts.port_use {
                            Got::Anomaly("C22:inner-got-different-dial-opts")
                        } else {
                            Got::Passed
                        }
                    }
                    _ => Got::Anomaly("C22:dial-future-not-the-inner-one"),
                }
            }
        }
    }
}

const OPTS: [DialOpts; 4] = [
    DialOpts { role: Endpoint::Dialer, port_use: PortUse::Reuse },
    DialOpts { role: Endpoint::Dialer, port_use: PortUse::New },
    DialOpts { role: Endpoint::Listener, port_use: PortUse::Reuse },
    DialOpts { role: Endpoint::Listener, port_use: PortUse::New },
];

fn with_suffix(head: Protocol<'static>, variant: u32) -> Multiaddr {
    let m = Multiaddr::empty().with(head);
    match variant % 4 {
        0 => m,
        1 => m.with(Protocol::Tcp(4001)),
        2 => m.with(Protocol::Udp(443)).with(Protocol::QuicV1),
        _ => m.with(Protocol::Tcp(1)).with(Protocol::P2p(vcore::gen::peer(0))),
    }
}

fn judge(class: Class, got: Got, inner_fails: bool) -> Result<(), &'static str> {
    match (class, got) {
        (_, Got::Anomaly(s)) => Err(s),
        (Class::MustRefuse, Got::Refused) => Ok(()),
        (Class::MustRefuse, _) => Err("C22:non-global-ip-passed-to-inner-transport"),
        (Class::MustPass, Got::Passed) if !inner_fails => Ok(()),
        (Class::MustPass, Got::InnerError) if inner_fails => Ok(()),
        (Class::MustPass, Got::Refused) => Err("C22:global-ip-refused"),
        (Class::MustPass, _) => Err("C22:inner-result-not-propagated"),
        (Class::DontCare, _) => Ok(()),
    }
}

// ---------------------------------------------------------------------------------------------
// IPv4

#[derive(Clone, Debug, Serialize, Deserialize)]
pub struct V4Block {
    /// upper 24 bits
    p24: u32,
    /// probe all 256 addresses (thorough) or first/last/mid (quick)
    all: bool,
    mid: u8,
}

fn check_v4_addr(p: &mut Prober, a: u32, class: Class) -> Result<(), Outcome> {
    let addr = with_suffix(Protocol::Ip4(Ipv4Addr::from(a)), a ^ (a >> 8));
    let got = p.probe(addr, OPTS[((a >> 3) & 3) as usize]);
    judge(class, got, false).map_err(|sig| {
        let (c2, name) = class_v4(a);
        Outcome::fail(sig, json!({"ip": Ipv4Addr::from(a).to_string(), "class": format!("{class:?}"), "class_by_table": format!("{c2:?}"), "registry_block": name, "observed": format!("{got:?}")}))
    })
}

fn check_v4_block(c: &V4Block) -> Outcome {
    let seg = seg4();
    let base = c.p24 << 8;
    let mut p = Prober::new(false);
    let (i0, i1) = (seg.idx(base), seg.idx(base | 0xff));
    let mut n = 0u64;
    let mut run = |low: u32, p: &mut Prober| -> Result<(), Outcome> {
        let a = base | low;
        let class = if i0 == i1 { seg.classes[i0] } else { seg.classes[seg.idx(a)] };
        n += 1;
        check_v4_addr(p, a, class)
    };
    if c.all {
        for low in 0..=255u32 {
            if let Err(o) = run(low, &mut p) {
                return o;
            }
        }
    } else {
        for low in [0u32, 255, c.mid as u32] {
            if let Err(o) = run(low, &mut p) {
                return o;
            }
        }
    }
    DIALS.fetch_add(n, Ordering::Relaxed);
    let nt = seg.range_has_edge(base, base | 0xff);
    let cl = match seg.classes[i0] {
        Class::MustRefuse => "must-refuse",
        Class::MustPass => "must-pass",
        Class::DontCare => "dont-care",
    };
    if nt {
        Outcome::pass_l(true, vec![cl, "touches-block-boundary"])
    } else {
        Outcome::pass_l(false, vec![cl])
    }
}

fn check_v4_single(a: &u32) -> Outcome {
    // the segment map must agree with the direct table evaluation (harness self-check)
    let seg = seg4();
    let (class, name) = class_v4(*a);
    if seg.classes[seg.idx(*a)] != class {
        return Outcome::Inconclusive(format!("harness segment map disagrees with table at {}", Ipv4Addr::from(*a)));
    }
    let mut p = Prober::new(false);
    DIALS.fetch_add(1, Ordering::Relaxed);
    if let Err(o) = check_v4_addr(&mut p, *a, class) {
        return o;
    }
    let cl = match class {
        Class::MustRefuse => "must-refuse",
        Class::MustPass => "must-pass",
        Class::DontCare => "dont-care",
    };
    let _ = name;
    Outcome::pass_l(seg.is_edge(*a) && class != Class::DontCare, vec![cl])
}

fn mix(seed: u64, x: u64) -> u64 {
    let mut z = seed ^ x.wrapping_mul(0x9E3779B97F4A7C15);
    z = (z ^ (z >> 30)).wrapping_mul(0xBF58476D1CE4E5B9);
    z = (z ^ (z >> 27)).wrapping_mul(0x94D049BB133111EB);
    z ^ (z >> 31)
}

// ---------------------------------------------------------------------------------------------
// IPv6

#[derive(Clone, Debug, Serialize, Deserialize)]
pub struct V6Case {
    segs: [u16; 8],
    variant: u8,
    inner_fails: bool,
}

fn segs_of(a: u128) -> [u16; 8] {
    Ipv6Addr::from(a).segments()
}

fn check_v6(c: &V6Case) -> Outcome {
    let s = c.segs;
    let ip = Ipv6Addr::new(s[0], s[1], s[2], s[3], s[4], s[5], s[6], s[7]);
    let a = u128::from(ip);
    let (class, name) = class_v6(a);
    let mut p = Prober::new(c.inner_fails);
    DIALS.fetch_add(1, Ordering::Relaxed);
    let got = p.probe(with_suffix(Protocol::Ip6(ip), c.variant as u32), OPTS[(c.variant >> 2) as usize & 3]);
    if let Err(sig) = judge(class, got, c.inner_fails) {
        return Outcome::fail(sig, json!({"ip": ip.to_string(), "class": format!("{class:?}"), "registry_block": name, "observed": format!("{got:?}")}));
    }
    let near_edge = V6.iter().any(|b| {
        let (lo, hi) = v6_range(b);
        [lo.checked_sub(1), Some(lo), Some(hi), hi.checked_add(1)].into_iter().flatten().any(|e| e == a)
    });
    let cl = match class {
        Class::MustRefuse => "must-refuse",
        Class::MustPass => "must-pass",
        Class::DontCare => "dont-care",
    };
    let mut labels = vec![cl];
    if near_edge {
        labels.push("within-1-of-boundary");
    }
    if c.inner_fails {
        labels.push("inner-fails");
    }
    Outcome::pass_l(class != Class::DontCare && (near_edge || name != "none"), labels)
}

fn v6_edges() -> Vec<u128> {
    let mut v = vec![];
    for b in V6 {
        let (lo, hi) = v6_range(b);
        for e in [lo.checked_sub(1), Some(lo), lo.checked_add(1), hi.checked_sub(1), Some(hi), hi.checked_add(1)].into_iter().flatten() {
            v.push(e);
        }
        // mid-points and the halves of the enclosing next-shorter prefix
        v.push(lo + (hi - lo) / 2);
    }
    v.extend([0u128, 1, 2, u128::MAX, 0xff02u128 << 112 | 1, 0x2000u128 << 112, 0x2606_4700_4700u128 << 80 | 0x1111]);
    v.sort_unstable();
    v.dedup();
    v
}

fn v6_case() -> impl Strategy<Value = V6Case> {
    let nblocks = V6.len();
    let addr = prop_oneof![
        // inside block i: prefix bits of the block, generated remaining bits
        5 => (0..nblocks, any::<u128>()).prop_map(|(i, r)| {
            let (lo, hi) = v6_range(&V6[i]);
            lo | (r & (hi - lo))
        }),
        // near an edge of block i
        3 => (0..nblocks, any::<bool>(), -3i32..=3).prop_map(|(i, upper, d)| {
            let (lo, hi) = v6_range(&V6[i]);
            let e = if upper { hi } else { lo };
            if d < 0 { e.saturating_sub((-d) as u128) } else { e.saturating_add(d as u128) }
        }),
        // block prefix with a few upper bits of the prefix flipped (siblings of the block)
        3 => (0..nblocks, 0u32..128, any::<u128>()).prop_map(|(i, bit, r)| {
            let b = &V6[i];
            let (lo, hi) = v6_range(b);
            let bit = bit % (b.len as u32).max(1);
            (lo ^ (1u128 << (127 - bit))) | (r & (hi - lo))
        }),
        // global unicast 2000::/3 and anything
        3 => any::<u128>().prop_map(|r| (r >> 3) | (1u128 << 125)),
        2 => any::<u128>(),
        // ipv4-mapped / compatible with generated v4
        1 => any::<u32>().prop_map(|v| (0xffffu128 << 32) | v as u128),
        1 => any::<u32>().prop_map(|v| v as u128),
    ];
    (addr, any::<u8>(), proptest::bool::weighted(0.1)).prop_map(|(a, variant, inner_fails)| V6Case { segs: segs_of(a), variant, inner_fails })
}

// ---------------------------------------------------------------------------------------------
// non-IP heads and free-form addresses

#[derive(Clone, Debug, Serialize, Deserialize)]
pub struct AddrCase {
    comps: Vec<Comp>,
    opts: u8,
    inner_fails: bool,
}

fn check_addr(c: &AddrCase) -> Outcome {
    let addr = build_addr(&c.comps);
    let (class, label) = match c.comps.first() {
        Some(Comp::Ip4(a)) => (class_v4(u32::from_be_bytes(*a)).0, "head:ip4"),
        Some(Comp::Ip6(s)) => (class_v6(u128::from(Ipv6Addr::new(s[0], s[1], s[2], s[3], s[4], s[5], s[6], s[7]))).0, "head:ip6"),
        Some(_) => (Class::MustRefuse, "head:non-ip"),
        None => (Class::MustRefuse, "head:empty"),
    };
    let mut p = Prober::new(c.inner_fails);
    DIALS.fetch_add(1, Ordering::Relaxed);
    let got = p.probe(addr.clone(), OPTS[c.opts as usize & 3]);
    if let Err(sig) = judge(class, got, c.inner_fails) {
        let sig = if label == "head:non-ip" || label == "head:empty" { "C22:address-without-leading-ip-passed-to-inner-transport" } else { sig };
        return Outcome::fail(sig, json!({"addr": addr.to_string(), "class": format!("{class:?}"), "observed": format!("{got:?}")}));
    }
    let later_ip = c.comps.iter().skip(1).any(|c| c.is_ip());
    let mut labels = vec![label];
    if later_ip {
        labels.push("ip-only-later");
    }
    Outcome::pass_l(class != Class::DontCare, labels)
}

fn addr_case() -> impl Strategy<Value = AddrCase> {
    let head = prop_oneof![
        3 => vcore::gen::dns_comp(),
        1 => (0u64..5).prop_map(Comp::Memory),
        1 => Just(Comp::Unix("/tmp/sock".into())),
        1 => (0u8..4).prop_map(Comp::P2p),
        1 => Just(Comp::P2pCircuit),
        1 => vcore::gen::port().prop_map(Comp::Tcp),
        1 => vcore::gen::port().prop_map(Comp::Udp),
        1 => Just(Comp::Ws),
        1 => Just(Comp::Tls),
        1 => Just(Comp::Http),
        1 => Just(Comp::QuicV1),
        3 => vcore::gen::ip_comp(),
        2 => any::<[u8; 4]>().prop_map(Comp::Ip4),
    ];
    let tail_comp = prop_oneof![3 => vcore::gen::any_comp(), 1 => any::<[u8; 4]>().prop_map(Comp::Ip4), 1 => Just(Comp::Ip4([8, 8, 8, 8])), 1 => Just(Comp::Ip6([0x2606, 0x4700, 0, 0, 0, 0, 0, 0x1111]))];
    (proptest::option::weighted(0.97, head), proptest::collection::vec(tail_comp, 0..4), 0u8..4, proptest::bool::weighted(0.1)).prop_map(|(h, tail, opts, inner_fails)| {
        let mut comps = vec![];
        if let Some(h) = h {
            comps.push(h);
            comps.extend(tail);
        }
        AddrCase { comps, opts, inner_fails }
    })
}

pub fn run(ctx: &mut Ctx) {
    ctx.assume("embedded registry tables transcribe the IANA IPv4/IPv6 special-purpose registries (entries first registered in/after 2023 are flagged and treated as don't-care)");
    ctx.assume("addresses in a registry block marked globally reachable True or N/A (also when nested inside a not-reachable block) are don't-care; multicast is not part of the special-purpose registries and counts as outside every block");
    let seed = ctx.seed;
    let all = !ctx.quick();

    // harness self-check of the table-derived segment map (cheap)
    {
        let seg = seg4();
        for e in &seg.edges {
            assert_eq!(seg.classes[seg.idx(*e)], class_v4(*e).0, "segment map");
        }
    }

    ctx.sweep::<u32, _>(
        "ipv4-boundaries",
        "for every IPv4 registry block: first-1, first, last, last+1 (one dial each, compared against the direct table evaluation); non-trivial = decided class",
        true,
        &|lane| seg4().edges.clone().into_iter().skip(lane).step_by(LANES),
        &check_v4_single,
    );
    ctx.sweep::<V4Block, _>(
        "ipv4-space",
        if all {
            "thorough: every one of the 2^32 IPv4 addresses, grouped per /24 (one case = 256 dials); non-trivial = the /24 touches a registry block boundary"
        } else {
            "quick: every /24 of the IPv4 space × {first, last, seeded middle address} (one case = 3 dials); non-trivial = the /24 touches a registry block boundary"
        },
        all,
        &move |lane| {
            (0..(1u32 << 24)).skip(lane).step_by(LANES).map(move |p24| V4Block { p24, all, mid: 1 + (mix(seed, p24 as u64) % 254) as u8 })
        },
        &check_v4_block,
    );
    ctx.sweep::<V6Case, _>(
        "ipv6-boundaries",
        "for every IPv6 registry block: first-1, first, first+1, last-1, last, last+1, midpoint, plus ::, ::1, ::2, ff02::1, 2000::, all-ones — each with 4 address suffix variants; non-trivial = decided class at a boundary or inside a block",
        true,
        &|lane| {
            let e = v6_edges();
            let n = e.len();
            (0..n * 4).skip(lane).step_by(LANES).map(move |i| V6Case { segs: segs_of(e[i / 4]), variant: (i % 4) as u8 | (((i / 4) % 4) as u8) << 2, inner_fails: false })
        },
        &check_v6,
    );
    ctx.check::<V6Case>(
        "ipv6-generated",
        "IPv6: inside every registry block (generated host bits), ±3 around every block edge, sibling prefixes (one prefix bit flipped), 2000::/3, uniform, v4-mapped/compatible; 10 % with a failing inner transport; non-trivial = decided class inside a block or at a boundary",
        ctx.n(400_000, 20_000_000),
        &|| v6_case().boxed(),
        &check_v6,
    );
    ctx.check::<AddrCase>(
        "non-ip-heads",
        "addresses whose first component is dns/dns4/dns6/dnsaddr/memory/unix/p2p/p2p-circuit/tcp/udp/ws/tls/http/quic-v1 or that are empty (with IP components later in the address), and free-form addresses with IP heads; non-trivial = decided class",
        ctx.n(100_000, 3_000_000),
        &|| addr_case().boxed(),
        &check_addr,
    );
    ctx.extra("dials_through_global_only_transport", json!(DIALS.load(Ordering::Relaxed)));
}
