//! C21 — signatures, signed envelopes and peer records are sound.
use crate::util::*;
use libp2p_core::signed_envelope::SignedEnvelope;
use libp2p_core::PeerRecord;
use libp2p_identity::PeerId;
use multiaddr::Multiaddr;
use proptest::prelude::*;
use serde::{Deserialize, Serialize};
use serde_json::json;
use std::sync::OnceLock;
use vcore::gen::{apply_mutations, build_addr, mutation, Comp, Mutation};
use vcore::refcodec::{pb_bytes, pb_parse, pb_varint, read_uvarint};
use vcore::runner::{catch, LANES};
use vcore::{ensure, Ctx, Outcome};

const LEGACY_TYPE: &[u8] = b"/libp2p/routing-state-record";
const LEGACY_DOMAIN: &str = "libp2p-routing-state";
const INTEROP_TYPE: &[u8] = &[0x03, 0x01];
const INTEROP_DOMAIN: &str = "libp2p-peer-record";

// ---------------------------------------------------------------------------------------------
// (1) raw signatures

#[derive(Clone, Debug, Serialize, Deserialize)]
pub struct SigCase {
    key: KeySpec,
    other: KeySpec,
    msg: Vec<u8>,
    msg_muts: Vec<Mutation>,
    sig_muts: Vec<Mutation>,
}

fn sig_case() -> impl Strategy<Value = SigCase> {
    (
        key_spec(),
        key_spec(),
        prop_oneof![3 => proptest::collection::vec(any::<u8>(), 0..200), 1 => proptest::collection::vec(any::<u8>(), 200..3000)],
        proptest::collection::vec(mutation(), 0..3),
        proptest::collection::vec(mutation(), 0..3),
    )
        .prop_map(|(key, other, msg, msg_muts, sig_muts)| SigCase { key, other, msg, msg_muts, sig_muts })
}

fn check_sig(c: &SigCase) -> Outcome {
    let (Some(kp), Some(other)) = (c.key.build(), c.other.build()) else { return Outcome::Discard };
    let pk = kp.public();
    let sig = match kp.sign(&c.msg) {
        Ok(s) => s,
        Err(e) => return Outcome::fail("C21:signing-failed", e.to_string()),
    };
    let mut labels = vec![type_label(&kp)];
    ensure!(pk.verify(&c.msg, &sig), "C21:genuine-signature-rejected", json!({"key": type_label(&kp), "msg_len": c.msg.len()}));
    let m2 = apply_mutations(&c.msg, &c.msg_muts);
    let s2 = apply_mutations(&sig, &c.sig_muts);
    let mut nt = false;
    if m2 != c.msg {
        nt = true;
        labels.push("message-changed");
        let r = catch(|| pk.verify(&m2, &sig));
        ensure!(r == Ok(false), "C21:signature-verifies-for-changed-message", json!({"key": type_label(&kp), "msg": hex(&c.msg), "changed": hex(&m2), "result": format!("{r:?}")}));
    }
    if s2 != sig {
        nt = true;
        labels.push("signature-changed");
        let r = catch(|| pk.verify(&c.msg, &s2));
        ensure!(r == Ok(false), "C21:changed-signature-verifies", json!({"key": type_label(&kp), "sig": hex(&sig), "changed": hex(&s2), "result": format!("{r:?}")}));
        if m2 != c.msg {
            let r = catch(|| pk.verify(&m2, &s2));
            ensure!(r == Ok(false), "C21:changed-signature-verifies-for-changed-message", json!({"key": type_label(&kp)}));
        }
    }
    if other.public() != pk {
        nt = true;
        labels.push("other-key");
        let r = catch(|| other.public().verify(&c.msg, &sig));
        ensure!(r == Ok(false), "C21:signature-verifies-under-other-key", json!({"signer": type_label(&kp), "other": type_label(&other)}));
    }
    Outcome::pass_l(nt, labels)
}

#[derive(Clone, Debug, Serialize, Deserialize)]
pub struct FlipCase {
    base: u8,
    /// false: flip the signature, true: flip the message
    in_msg: bool,
    pos: u16,
    xor: u8,
}

const FLIP_MSG: &[u8] = b"noise-libp2p-static-key:0123456789abcdef0123456789abcdef";

fn pool_sigs() -> &'static Vec<Vec<u8>> {
    static S: OnceLock<Vec<Vec<u8>>> = OnceLock::new();
    S.get_or_init(|| (0..POOL_LEN as u8).map(|i| KeySpec::Pool(i).build().unwrap().sign(FLIP_MSG).unwrap()).collect())
}

fn check_sigflip(c: &FlipCase) -> Outcome {
    let kp = KeySpec::Pool(c.base).build().unwrap();
    let pk = kp.public();
    let sig = &pool_sigs()[c.base as usize % POOL_LEN];
    if c.xor == 0 {
        return Outcome::Discard;
    }
    let r = if c.in_msg {
        let mut m = FLIP_MSG.to_vec();
        let Some(b) = m.get_mut(c.pos as usize) else { return Outcome::Discard };
        *b ^= c.xor;
        catch(|| pk.verify(&m, sig))
    } else {
        let mut s = sig.clone();
        let Some(b) = s.get_mut(c.pos as usize) else { return Outcome::Discard };
        *b ^= c.xor;
        catch(|| pk.verify(FLIP_MSG, &s))
    };
    ensure!(
        r == Ok(false),
        if c.in_msg { "C21:signature-verifies-for-changed-message" } else { "C21:changed-signature-verifies" },
        json!({"key": type_label(&kp), "pos": c.pos, "xor": c.xor, "result": format!("{r:?}")})
    );
    Outcome::pass_l(true, vec![type_label(&kp), if c.in_msg { "flip-in-message" } else { "flip-in-signature" }])
}

fn xors(all: bool) -> Vec<u8> {
    if all {
        (1..=255u8).collect()
    } else {
        vec![1, 2, 4, 8, 16, 32, 64, 128, 0xff]
    }
}

// ---------------------------------------------------------------------------------------------
// (2) envelope bound to (domain, payload type)

#[derive(Clone, Debug, Serialize, Deserialize)]
pub enum Probe {
    Same,
    Domain(String),
    Type(Vec<u8>),
    Both(String, Vec<u8>),
    /// move k leading bytes of the payload type to the end of the domain
    ShiftTypeIntoDomain(u8),
    /// move k trailing bytes of the domain to the front of the payload type
    ShiftDomainIntoType(u8),
    /// rewrite the encoded envelope: move k leading payload bytes to the end of the payload type, and ask for that type
    ShiftPayloadIntoType(u8),
    /// rewrite the encoded envelope: move k trailing type bytes to the front of the payload, and ask for the shortened type
    ShiftTypeIntoPayload(u8),
}

#[derive(Clone, Debug, Serialize, Deserialize)]
pub struct EnvCase {
    key: KeySpec,
    domain: String,
    ptype: Vec<u8>,
    payload: Vec<u8>,
    probe: Probe,
}

fn ascii(max: usize) -> impl Strategy<Value = String> {
    proptest::collection::vec(prop_oneof![4 => 0x61u8..0x7b, 1 => Just(b'-'), 1 => Just(b'/'), 1 => 0x20u8..0x7f], 0..max).prop_map(|v| String::from_utf8(v).unwrap())
}

fn env_case() -> impl Strategy<Value = EnvCase> {
    let domain = prop_oneof![2 => ascii(24), 1 => Just(LEGACY_DOMAIN.to_string()), 1 => Just(INTEROP_DOMAIN.to_string()), 1 => "\\PC{0,8}"];
    let ptype = prop_oneof![3 => ascii(24).prop_map(|s| s.into_bytes()), 1 => Just(LEGACY_TYPE.to_vec()), 1 => Just(INTEROP_TYPE.to_vec()), 1 => proptest::collection::vec(any::<u8>(), 0..12)];
    let probe = prop_oneof![
        2 => Just(Probe::Same),
        2 => ascii(24).prop_map(Probe::Domain),
        2 => ascii(24).prop_map(|s| Probe::Type(s.into_bytes())),
        1 => (ascii(12), ascii(12)).prop_map(|(d, t)| Probe::Both(d, t.into_bytes())),
        2 => (1u8..8).prop_map(Probe::ShiftTypeIntoDomain),
        2 => (1u8..8).prop_map(Probe::ShiftDomainIntoType),
        2 => (1u8..8).prop_map(Probe::ShiftPayloadIntoType),
        2 => (1u8..8).prop_map(Probe::ShiftTypeIntoPayload),
        1 => Just(Probe::Domain(LEGACY_DOMAIN.to_string())),
        1 => Just(Probe::Domain(INTEROP_DOMAIN.to_string())),
        1 => Just(Probe::Type(LEGACY_TYPE.to_vec())),
        1 => Just(Probe::Type(INTEROP_TYPE.to_vec())),
    ];
    (key_spec(), domain, ptype, proptest::collection::vec(any::<u8>(), 0..80), probe).prop_map(|(key, domain, ptype, payload, probe)| EnvCase { key, domain, ptype, payload, probe })
}

/// harness-side envelope encoder (field numbers from envelope.proto)
fn encode_envelope(key_pb: &[u8], ptype: &[u8], payload: &[u8], sig: &[u8]) -> Vec<u8> {
    let mut v = vec![];
    if !key_pb.is_empty() {
        v.extend(pb_bytes(1, key_pb));
    }
    if !ptype.is_empty() {
        v.extend(pb_bytes(2, ptype));
    }
    if !payload.is_empty() {
        v.extend(pb_bytes(3, payload));
    }
    if !sig.is_empty() {
        v.extend(pb_bytes(5, sig));
    }
    v
}

fn envelope_fields(enc: &[u8]) -> Option<[Vec<u8>; 4]> {
    let mut out: [Vec<u8>; 4] = Default::default();
    for (f, w, data) in pb_parse(enc)? {
        if w != 2 {
            return None;
        }
        match f {
            1 => out[0] = data,
            2 => out[1] = data,
            3 => out[2] = data,
            5 => out[3] = data,
            _ => return None,
        }
    }
    Some(out)
}

fn check_env(c: &EnvCase) -> Outcome {
    let Some(kp) = c.key.build() else { return Outcome::Discard };
    let env = match SignedEnvelope::new(&kp, c.domain.clone(), c.ptype.clone(), c.payload.clone()) {
        Ok(e) => e,
        Err(e) => return Outcome::fail("C21:signing-failed", e.to_string()),
    };
    let enc = env.clone().into_protobuf_encoding();
    let mut labels = vec![type_label(&kp)];
    // encoding is what the RFC says (independent parse) and round-trips
    let Some(fields) = envelope_fields(&enc) else { return Outcome::fail("C21:envelope-encoding-not-rfc-shaped", hex(&enc)) };
    ensure!(fields[0] == kp.public().encode_protobuf() && fields[1] == c.ptype && fields[2] == c.payload, "C21:envelope-encoding-fields-differ", hex(&enc));
    let dec = match catch(|| SignedEnvelope::from_protobuf_encoding(&enc)) {
        Err(p) => return Outcome::fail("C21:panic-decoding-own-envelope", p),
        Ok(Err(e)) => return Outcome::fail("C21:own-envelope-rejected", e.to_string()),
        Ok(Ok(d)) => d,
    };
    ensure!(dec == env, "C21:envelope-roundtrip-differs");

    let shift = |k: u8, len: usize| (k as usize).min(len);
    // (envelope to query, domain', type', expected acceptance)
    let (target, d2, t2): (SignedEnvelope, String, Vec<u8>) = match &c.probe {
        Probe::Same => (dec, c.domain.clone(), c.ptype.clone()),
        Probe::Domain(d) => (dec, d.clone(), c.ptype.clone()),
        Probe::Type(t) => (dec, c.domain.clone(), t.clone()),
        Probe::Both(d, t) => (dec, d.clone(), t.clone()),
        Probe::ShiftTypeIntoDomain(k) => {
            let k = shift(*k, c.ptype.len());
            match String::from_utf8([c.domain.as_bytes(), &c.ptype[..k]].concat()) {
                Ok(d) => (dec, d, c.ptype[k..].to_vec()),
                Err(_) => return Outcome::Discard,
            }
        }
        Probe::ShiftDomainIntoType(k) => {
            let k = shift(*k, c.domain.len());
            let cut = c.domain.len() - k;
            if !c.domain.is_char_boundary(cut) {
                return Outcome::Discard;
            }
            (dec, c.domain[..cut].to_string(), [c.domain[cut..].as_bytes(), &c.ptype[..]].concat())
        }
        Probe::ShiftPayloadIntoType(k) => {
            let k = shift(*k, c.payload.len());
            let t = [&c.ptype[..], &c.payload[..k]].concat();
            let enc2 = encode_envelope(&fields[0], &t, &c.payload[k..], &fields[3]);
            match SignedEnvelope::from_protobuf_encoding(&enc2) {
                Ok(e) => (e, c.domain.clone(), t),
                Err(e) => return Outcome::fail("C21:well-formed-envelope-rejected-by-decoder", e.to_string()),
            }
        }
        Probe::ShiftTypeIntoPayload(k) => {
            let k = shift(*k, c.ptype.len());
            let cut = c.ptype.len() - k;
            let t = c.ptype[..cut].to_vec();
            let enc2 = encode_envelope(&fields[0], &t, &[&c.ptype[cut..], &c.payload[..]].concat(), &fields[3]);
            match SignedEnvelope::from_protobuf_encoding(&enc2) {
                Ok(e) => (e, c.domain.clone(), t),
                Err(e) => return Outcome::fail("C21:well-formed-envelope-rejected-by-decoder", e.to_string()),
            }
        }
    };
    let same_envelope = target == env;
    let expect_ok = same_envelope && d2 == c.domain && t2 == c.ptype;
    let r = catch(|| target.payload_and_signing_key(d2.clone(), &t2).map(|(p, k)| (p.to_vec(), k.clone())));
    let r = match r {
        Err(p) => return Outcome::fail("C21:panic-in-payload-and-signing-key", p),
        Ok(r) => r,
    };
    let detail = || json!({"key": type_label(&kp), "domain": c.domain, "type": hex(&c.ptype), "payload": hex(&c.payload), "asked_domain": d2, "asked_type": hex(&t2), "probe": format!("{:?}", c.probe)});
    match (&r, expect_ok) {
        (Ok((p, k)), true) => {
            ensure!(p == &c.payload && k == &kp.public(), "C21:accepted-envelope-yields-other-payload-or-key", detail());
            labels.push("accepted");
        }
        (Err(_), true) => return Outcome::fail("C21:genuine-envelope-rejected", detail()),
        (Ok(_), false) => {
            let sig = if !same_envelope {
                "C21:envelope-with-moved-field-boundary-accepted"
            } else if t2 != c.ptype {
                "C21:envelope-accepted-with-other-payload-type"
            } else {
                "C21:envelope-accepted-with-other-domain"
            };
            return Outcome::fail(sig, detail());
        }
        (Err(_), false) => labels.push("rejected"),
    }
    // `verify` alone only binds the domain
    if same_envelope {
        ensure!(target.verify(d2.clone()) == (d2 == c.domain), "C21:verify-disagrees-with-domain-equality", detail());
    }
    labels.push(match &c.probe {
        Probe::Same => "probe:same",
        Probe::Domain(_) => "probe:domain",
        Probe::Type(_) => "probe:type",
        Probe::Both(..) => "probe:both",
        Probe::ShiftTypeIntoDomain(_) | Probe::ShiftDomainIntoType(_) => "probe:shift-domain-type",
        Probe::ShiftPayloadIntoType(_) | Probe::ShiftTypeIntoPayload(_) => "probe:shift-type-payload",
    });
    Outcome::pass_l(!expect_ok, labels)
}

// ---------------------------------------------------------------------------------------------
// (3) peer records

#[derive(Clone, Copy, Debug, PartialEq, Eq, Serialize, Deserialize)]
pub enum Fmt {
    Legacy,
    Interop,
    Other,
}

fn domain_of(f: Fmt) -> &'static str {
    match f {
        Fmt::Legacy => LEGACY_DOMAIN,
        Fmt::Interop => INTEROP_DOMAIN,
        Fmt::Other => "libp2p-peer-record-v2",
    }
}
fn type_of(f: Fmt) -> &'static [u8] {
    match f {
        Fmt::Legacy => LEGACY_TYPE,
        Fmt::Interop => INTEROP_TYPE,
        Fmt::Other => &[0x03, 0x02],
    }
}

#[derive(Clone, Debug, Serialize, Deserialize)]
pub struct RecCase {
    signer: KeySpec,
    /// key whose peer id is written into the record (None = the signer's)
    claimed: Option<KeySpec>,
    addrs: Vec<Vec<Comp>>,
    seq: u64,
    /// build through PeerRecord::new / new_interop (then `claimed`, `seq`, `dom`, `typ` are implied)
    via_api: bool,
    dom: Fmt,
    typ: Fmt,
    read_interop: bool,
}

fn rec_payload(peer: &PeerId, seq: u64, addrs: &[Multiaddr]) -> Vec<u8> {
    let mut v = pb_bytes(1, &peer.to_bytes());
    if seq != 0 {
        v.extend(pb_varint(2, seq));
    }
    for a in addrs {
        v.extend(pb_bytes(3, &pb_bytes(1, &a.to_vec())));
    }
    v
}

fn rec_case() -> impl Strategy<Value = RecCase> {
    let fmt = prop_oneof![4 => Just(Fmt::Legacy), 4 => Just(Fmt::Interop), 1 => Just(Fmt::Other)];
    (
        key_spec(),
        proptest::option::weighted(0.4, key_spec()),
        proptest::collection::vec(vcore::gen::dial_addr(), 0..4),
        prop_oneof![Just(0u64), Just(1u64), any::<u64>()],
        proptest::bool::weighted(0.3),
        fmt.clone(),
        fmt,
        any::<bool>(),
    )
        .prop_map(|(signer, claimed, addrs, seq, via_api, dom, typ, read_interop)| RecCase { signer, claimed, addrs, seq, via_api, dom, typ, read_interop })
}

fn check_rec(c: &RecCase) -> Outcome {
    let Some(signer) = c.signer.build() else { return Outcome::Discard };
    let signer_id = signer.public().to_peer_id();
    let addrs: Vec<Multiaddr> = c.addrs.iter().map(|a| build_addr(a)).collect();
    let mut labels = vec![type_label(&signer)];
    let (env, claimed_id, seq, dom, typ) = if c.via_api {
        let made_interop = c.dom == Fmt::Interop;
        let rec = if made_interop { PeerRecord::new_interop(&signer, addrs.clone()) } else { PeerRecord::new(&signer, addrs.clone()) };
        let rec = match rec {
            Ok(r) => r,
            Err(e) => return Outcome::fail("C21:signing-failed", e.to_string()),
        };
        ensure!(rec.peer_id() == signer_id && rec.addresses() == &addrs[..], "C21:new-record-differs-from-inputs");
        labels.push("via-api");
        let f = if made_interop { Fmt::Interop } else { Fmt::Legacy };
        (rec.to_signed_envelope(), signer_id, rec.seq(), f, f)
    } else {
        let claimed_id = match &c.claimed {
            None => signer_id,
            Some(k) => match k.build() {
                Some(k) => k.public().to_peer_id(),
                None => return Outcome::Discard,
            },
        };
        let payload = rec_payload(&claimed_id, c.seq, &addrs);
        match SignedEnvelope::new(&signer, domain_of(c.dom).to_string(), type_of(c.typ).to_vec(), payload) {
            Ok(e) => (e, claimed_id, c.seq, c.dom, c.typ),
            Err(e) => return Outcome::fail("C21:signing-failed", e.to_string()),
        }
    };
    // over the wire
    let enc = env.into_protobuf_encoding();
    let env = match SignedEnvelope::from_protobuf_encoding(&enc) {
        Ok(e) => e,
        Err(e) => return Outcome::fail("C21:own-envelope-rejected", e.to_string()),
    };
    let want = if c.read_interop { Fmt::Interop } else { Fmt::Legacy };
    let r = catch(|| if c.read_interop { PeerRecord::from_signed_envelope_interop(env.clone()) } else { PeerRecord::from_signed_envelope(env.clone()) });
    let r = match r {
        Err(p) => return Outcome::fail("C21:panic-in-from-signed-envelope", p),
        Ok(r) => r,
    };
    let expect_ok = dom == want && typ == want && claimed_id == signer_id;
    let detail = || json!({"signer": signer_id.to_string(), "claimed": claimed_id.to_string(), "domain": format!("{dom:?}"), "type": format!("{typ:?}"), "read_as": format!("{want:?}"), "via_api": c.via_api});
    match (r, expect_ok) {
        (Ok(rec), true) => {
            ensure!(rec.peer_id() == signer_id, "C21:record-peer-id-is-not-the-signer", detail());
            ensure!(rec.seq() == seq && rec.addresses() == &addrs[..], "C21:accepted-record-differs-from-signed-content", detail());
            labels.push("accepted");
        }
        (Err(e), true) => return Outcome::fail("C21:genuine-peer-record-rejected", json!({"err": e.to_string(), "case": detail()})),
        (Ok(_), false) => {
            let sig = if claimed_id != signer_id {
                "C21:peer-record-accepted-for-peer-other-than-signer"
            } else if typ != want {
                "C21:peer-record-accepted-with-other-payload-type"
            } else {
                "C21:peer-record-accepted-with-other-domain"
            };
            return Outcome::fail(sig, detail());
        }
        (Err(_), false) => {
            labels.push("rejected");
            if claimed_id != signer_id {
                labels.push("claimed-other-peer");
            }
            if dom != want || typ != want {
                labels.push("format-mismatch");
            }
        }
    }
    Outcome::pass_l(!expect_ok, labels)
}

// ---------------------------------------------------------------------------------------------
// (4) byte mutations of encoded envelopes

struct Base {
    enc: Vec<u8>,
    fields: [Vec<u8>; 4],
    interop: bool,
    peer: PeerId,
    seq: u64,
    addrs: Vec<Multiaddr>,
    key_label: &'static str,
    /// (name, start, end) of the content of each field; everything else is framing
    regions: Vec<(&'static str, usize, usize)>,
}

const N_BASES: usize = POOL_LEN * 2;

fn bases() -> &'static Vec<Base> {
    static B: OnceLock<Vec<Base>> = OnceLock::new();
    B.get_or_init(|| {
        let mut v = vec![];
        for i in 0..N_BASES {
            let kp = KeySpec::Pool((i / 2) as u8).build().unwrap();
            let interop = i % 2 == 1;
            let peer = kp.public().to_peer_id();
            let addrs: Vec<Multiaddr> = vec![
                build_addr(&[Comp::Ip4([192, 0, 2, (i + 1) as u8]), Comp::Tcp(4001)]),
                build_addr(&[Comp::Ip6([0x2001, 0xdb8, 0, 0, 0, 0, 0, i as u16 + 1]), Comp::Udp(443), Comp::QuicV1]),
            ];
            let seq = 1_700_000_000 + i as u64;
            let f = if interop { Fmt::Interop } else { Fmt::Legacy };
            let env = SignedEnvelope::new(&kp, domain_of(f).to_string(), type_of(f).to_vec(), rec_payload(&peer, seq, &addrs)).unwrap();
            let enc = env.into_protobuf_encoding();
            let fields = envelope_fields(&enc).expect("rfc shaped");
            // offsets of the field contents
            let mut regions = vec![];
            let mut off = 0usize;
            while off < enc.len() {
                let (tag, n1) = read_uvarint(&enc[off..]).unwrap();
                let (len, n2) = read_uvarint(&enc[off + n1..]).unwrap();
                let start = off + n1 + n2;
                let name = match tag >> 3 {
                    1 => "in-public-key",
                    2 => "in-payload-type",
                    3 => "in-payload",
                    5 => "in-signature",
                    _ => "in-unknown",
                };
                regions.push((name, start, start + len as usize));
                off = start + len as usize;
            }
            v.push(Base { enc, fields, interop, peer, seq, addrs, key_label: type_label(&kp), regions });
        }
        v
    })
}

fn judge_mutated(b: &Base, bytes: &[u8], mut labels: Vec<&'static str>) -> Outcome {
    let unchanged = bytes == &b.enc[..];
    let env = match catch(|| SignedEnvelope::from_protobuf_encoding(bytes)) {
        Err(p) => return Outcome::fail("C21:panic-decoding-envelope", json!({"panic": p, "bytes": hex(bytes)})),
        Ok(Err(_)) => {
            ensure!(!unchanged, "C21:own-envelope-rejected");
            labels.push("decode-error");
            return Outcome::pass_l(true, labels);
        }
        Ok(Ok(e)) => e,
    };
    // both readers: only the one matching the format may accept, and then only the identical record
    for read_interop in [false, true] {
        let r = catch(|| if read_interop { PeerRecord::from_signed_envelope_interop(env.clone()) } else { PeerRecord::from_signed_envelope(env.clone()) });
        let r = match r {
            Err(p) => return Outcome::fail("C21:panic-in-from-signed-envelope", json!({"panic": p, "bytes": hex(bytes)})),
            Ok(r) => r,
        };
        match r {
            Err(_) => {
                ensure!(!(unchanged && read_interop == b.interop), "C21:genuine-peer-record-rejected");
            }
            Ok(rec) => {
                let same = rec.peer_id() == b.peer && rec.seq() == b.seq && rec.addresses() == &b.addrs[..];
                ensure!(
                    same && read_interop == b.interop,
                    "C21:mutated-envelope-accepted-as-different-record",
                    json!({"key": b.key_label, "original": hex(&b.enc), "mutated": hex(bytes), "peer": rec.peer_id().to_string(), "seq": rec.seq(),
                           "addrs": rec.addresses().iter().map(|a| a.to_string()).collect::<Vec<_>>(), "read_interop": read_interop})
                );
                labels.push("accepted-identical-record");
                labels.push(match labels.iter().find(|l| l.starts_with("in-")).copied() {
                    Some("in-public-key") => "accepted@public-key",
                    Some("in-payload-type") => "accepted@payload-type",
                    Some("in-payload") => "accepted@payload",
                    Some("in-signature") => "accepted@signature",
                    Some("in-framing") => "accepted@framing",
                    _ => "accepted@multi-edit",
                });
            }
        }
    }
    // the generic accessor with the right (domain, type): accepted ⇒ identical payload and key
    let f = if b.interop { Fmt::Interop } else { Fmt::Legacy };
    if let Ok((p, k)) = env.payload_and_signing_key(domain_of(f).to_string(), type_of(f)) {
        ensure!(p == &b.fields[2][..] && k.encode_protobuf() == b.fields[0], "C21:mutated-envelope-accepted-with-different-payload-or-key", json!({"original": hex(&b.enc), "mutated": hex(bytes)}));
    } else {
        labels.push("rejected");
    }
    Outcome::pass_l(!unchanged, labels)
}

#[derive(Clone, Debug, Serialize, Deserialize)]
pub struct EnvFlip {
    base: u8,
    pos: u16,
    xor: u8,
}

fn check_envflip(c: &EnvFlip) -> Outcome {
    let b = &bases()[c.base as usize % N_BASES];
    let mut bytes = b.enc.clone();
    let pos = c.pos as usize;
    if pos >= bytes.len() || c.xor == 0 {
        return Outcome::Discard;
    }
    bytes[pos] ^= c.xor;
    let region = b.regions.iter().find(|(_, s, e)| pos >= *s && pos < *e).map(|r| r.0).unwrap_or("in-framing");
    judge_mutated(b, &bytes, vec![b.key_label, region])
}

#[derive(Clone, Debug, Serialize, Deserialize)]
pub struct EnvMut {
    base: u8,
    muts: Vec<Mutation>,
}

fn check_envmut(c: &EnvMut) -> Outcome {
    let b = &bases()[c.base as usize % N_BASES];
    let bytes = apply_mutations(&b.enc, &c.muts);
    judge_mutated(b, &bytes, vec![b.key_label])
}

#[derive(Clone, Debug, Serialize, Deserialize)]
pub struct Splice {
    a: u8,
    b: u8,
    /// bit i set: field i (key, type, payload, signature) is taken from b instead of a
    mask: u8,
}

fn check_splice(c: &Splice) -> Outcome {
    let (a, b) = (&bases()[c.a as usize % N_BASES], &bases()[c.b as usize % N_BASES]);
    let pick = |i: usize| if c.mask >> i & 1 == 1 { &b.fields[i] } else { &a.fields[i] };
    let f: [&Vec<u8>; 4] = [pick(0), pick(1), pick(2), pick(3)];
    let bytes = encode_envelope(f[0], f[1], f[2], f[3]);
    // the splice is genuine iff it equals one of the bases field by field
    let genuine = bases().iter().find(|x| (0..4).all(|i| &x.fields[i] == f[i]));
    let env = match SignedEnvelope::from_protobuf_encoding(&bytes) {
        Ok(e) => e,
        Err(e) => return Outcome::fail("C21:well-formed-envelope-rejected-by-decoder", e.to_string()),
    };
    let mut labels = vec![];
    for read_interop in [false, true] {
        let r = if read_interop { PeerRecord::from_signed_envelope_interop(env.clone()) } else { PeerRecord::from_signed_envelope(env.clone()) };
        let expect_ok = genuine.map(|g| g.interop == read_interop).unwrap_or(false);
        match (r, expect_ok) {
            (Ok(rec), true) => {
                let g = genuine.unwrap();
                ensure!(rec.peer_id() == g.peer && rec.seq() == g.seq && rec.addresses() == &g.addrs[..], "C21:accepted-record-differs-from-signed-content");
                labels.push("genuine-accepted");
            }
            (Err(e), true) => return Outcome::fail("C21:genuine-peer-record-rejected", e.to_string()),
            (Ok(rec), false) => {
                return Outcome::fail(
                    "C21:spliced-envelope-accepted",
                    json!({"key_from": if c.mask & 1 == 1 { b.key_label } else { a.key_label }, "a": c.a, "b": c.b, "mask": c.mask, "peer": rec.peer_id().to_string(), "read_interop": read_interop}),
                )
            }
            (Err(_), false) => {}
        }
    }
    if genuine.is_none() {
        labels.push("forged-rejected");
    }
    Outcome::pass_l(genuine.is_none(), labels)
}

pub fn run(ctx: &mut Ctx) {
    ctx.assume("ECDSA (r, n-s) malleability is a property of the signature scheme and is not probed; byte-level changes (flip, truncate, extend, insert, remove) of signatures are");
    ctx.assume("RSA keys are sampled in about 5 % of the generated cases; all four key types appear in every exhaustive sweep");
    let all = !ctx.quick();

    ctx.check::<SigCase>(
        "sign-verify",
        "key (pool incl. RSA 5 %, or derived from a generated secret) × message (0..3000 bytes) × 0..2 mutations of message and of signature × second key; non-trivial = an effective change or a distinct second key",
        ctx.n(12_000, 400_000),
        &|| sig_case().boxed(),
        &check_sig,
    );
    let xs = xors(all);
    ctx.sweep::<FlipCase, _>(
        "signature-flips",
        "every pool key × every byte position of its signature over a fixed 56-byte message × xor values (quick: 8 single bits + 0xff; thorough: all 255), and the same for every message byte; every case non-trivial",
        true,
        &|lane| {
            let mut v = vec![];
            for base in 0..POOL_LEN as u8 {
                let slen = pool_sigs()[base as usize].len();
                for pos in 0..slen {
                    for &xor in &xs {
                        v.push(FlipCase { base, in_msg: false, pos: pos as u16, xor });
                    }
                }
                for pos in 0..FLIP_MSG.len() {
                    for &xor in &xs {
                        v.push(FlipCase { base, in_msg: true, pos: pos as u16, xor });
                    }
                }
            }
            v.into_iter().skip(lane).step_by(LANES)
        },
        &check_sigflip,
    );
    ctx.check::<EnvCase>(
        "envelope-binding",
        "envelope signed for (domain, type, payload), queried with the same / another domain / another type / both / a shifted domain|type boundary / a re-encoded envelope with a shifted type|payload boundary; non-trivial = the query differs from what was signed",
        ctx.n(12_000, 400_000),
        &|| env_case().boxed(),
        &check_env,
    );
    ctx.check::<RecCase>(
        "peer-record",
        "records made through PeerRecord::new/new_interop or assembled by the harness (claimed peer id = signer or another key; domain and type each legacy/interop/other), sent through the protobuf encoding and read with from_signed_envelope / _interop; non-trivial = must be rejected",
        ctx.n(12_000, 400_000),
        &|| rec_case().boxed(),
        &check_rec,
    );
    ctx.level = "fault_enumeration";
    // quick: all 255 xor values for one key of each type (both formats), single-bit flips for the others
    ctx.sweep::<EnvFlip, _>(
        "envelope-flips",
        "every byte position of the encoded peer-record envelope of every pool key × {legacy, interop} × xor values (thorough: all 255 everywhere; quick: all 255 for one key per key type, 8 single bits + 0xff for the others); result must be decode error, rejection, or the identical record; every case non-trivial (labels: region hit)",
        true,
        &|lane| {
            let mut v = vec![];
            for (bi, b) in bases().iter().enumerate() {
                let key = bi / 2;
                let full = all || matches!(key, 0 | 4 | 7 | 10);
                let xs = xors(full);
                for pos in 0..b.enc.len() {
                    for &xor in &xs {
                        v.push(EnvFlip { base: bi as u8, pos: pos as u16, xor });
                    }
                }
            }
            v.into_iter().skip(lane).step_by(LANES)
        },
        &check_envflip,
    );
    ctx.sweep::<Splice, _>(
        "envelope-splices",
        "all 24×24×16 recombinations of (public key, payload type, payload, signature) taken from two genuine envelopes (every key type, legacy/interop); accepted iff the recombination equals a genuine envelope; non-trivial = forged",
        true,
        &|lane| {
            (0..N_BASES * N_BASES * 16).skip(lane).step_by(LANES).map(|i| Splice { a: (i / (16 * N_BASES)) as u8, b: ((i / 16) % N_BASES) as u8, mask: (i % 16) as u8 })
        },
        &check_splice,
    );
    ctx.check::<EnvMut>(
        "envelope-mutations",
        "1..4 structure-aware mutations (flip, set, truncate, duplicate, remove, insert) of a genuine encoded envelope; same oracle as envelope-flips; non-trivial = bytes changed",
        ctx.n(30_000, 1_000_000),
        &|| (0u8..N_BASES as u8, proptest::collection::vec(mutation(), 1..4)).prop_map(|(base, muts)| EnvMut { base, muts }).boxed(),
        &check_envmut,
    );
    ctx.fuzz(&crate::fuzzapi::ENVELOPE, 30_000, 600_000, crate::fuzzapi::ENVELOPE_RUNS_PER_JOB, crate::fuzzapi::FUZZ_JOBS);
}

// ---------------------------------------------------------------------------------------------
// byte-level entry for the fuzz target `envelope`: the mutation oracle of `judge_mutated`, stated
// relative to the whole set of genuinely signed envelopes (the fuzzer splices seeds, so "the"
// original of an input is not known): whatever is accepted must be one of the genuine records,
// through the reader of its own format only.

/// Ok(non-trivial): the bytes decoded as an envelope that is not byte-identical to a genuine one.
pub fn fuzz_entry(bytes: &[u8]) -> Result<bool, (String, serde_json::Value)> {
    let fail = |sig: &str, d: serde_json::Value| Err((sig.to_string(), d));
    let genuine_bytes = bases().iter().any(|b| b.enc == bytes);
    let env = match catch(|| SignedEnvelope::from_protobuf_encoding(bytes)) {
        Err(p) => return fail("C21:panic-decoding-envelope", json!({"panic": p, "bytes": hex(bytes)})),
        Ok(Err(_)) => {
            if genuine_bytes {
                return fail("C21:own-envelope-rejected", json!({"bytes": hex(bytes)}));
            }
            return Ok(false);
        }
        Ok(Ok(e)) => e,
    };
    for read_interop in [false, true] {
        let r = catch(|| if read_interop { PeerRecord::from_signed_envelope_interop(env.clone()) } else { PeerRecord::from_signed_envelope(env.clone()) });
        let r = match r {
            Err(p) => return fail("C21:panic-in-from-signed-envelope", json!({"panic": p, "bytes": hex(bytes)})),
            Ok(r) => r,
        };
        match r {
            Err(_) => {
                if bases().iter().any(|b| b.enc == bytes && b.interop == read_interop) {
                    return fail("C21:genuine-peer-record-rejected", json!({"bytes": hex(bytes)}));
                }
            }
            Ok(rec) => {
                let same = bases().iter().any(|b| b.interop == read_interop && rec.peer_id() == b.peer && rec.seq() == b.seq && rec.addresses() == &b.addrs[..]);
                if !same {
                    return fail(
                        "C21:mutated-envelope-accepted-as-different-record",
                        json!({"mutated": hex(bytes), "peer": rec.peer_id().to_string(), "seq": rec.seq(), "addrs": rec.addresses().iter().map(|a| a.to_string()).collect::<Vec<_>>(), "read_interop": read_interop}),
                    );
                }
            }
        }
    }
    for f in [Fmt::Legacy, Fmt::Interop] {
        if let Ok((p, k)) = env.payload_and_signing_key(domain_of(f).to_string(), type_of(f)) {
            let kpb = k.encode_protobuf();
            let interop = matches!(f, Fmt::Interop);
            if !bases().iter().any(|b| b.interop == interop && p == &b.fields[2][..] && kpb == b.fields[0]) {
                return fail("C21:mutated-envelope-accepted-with-different-payload-or-key", json!({"mutated": hex(bytes)}));
            }
        }
    }
    Ok(!genuine_bytes)
}

/// golden seeds: the genuinely signed envelopes (every pool key × legacy / interop format)
pub fn fuzz_seed_inputs() -> Vec<(String, Vec<u8>)> {
    bases().iter().enumerate().map(|(i, b)| (format!("{}-{}-{i}", b.key_label.trim_start_matches("key:"), if b.interop { "interop" } else { "legacy" }), b.enc.clone())).collect()
}
