//! C21 — signatures, signed envelopes and peer records are sound.
use crate::util::*;
use libp2p_core::signed_envelope::SignedEnvelope;
use libp2p_core::PeerRecord;
use libp2p_identity::PeerId;
use multiaddr::Multiaddr;
use proptest::prelude::*;
use serde::{Deserialize, Serialize};
use serde_json::json;
use std::sync::OnceLock;
use vcore::gen::{apply_mutations, build_addr, mutation, Comp, Mutation};
use vcore::refcodec::{lp, pb_bytes, pb_parse, pb_varint, read_uvarint, uvarint};
use vcore::runner::{catch, LANES};
use vcore::{ensure, Ctx, Outcome};

const LEGACY_TYPE: &[u8] = b"/libp2p/routing-state-record";
const LEGACY_DOMAIN: &str = "libp2p-routing-state";
const INTEROP_TYPE: &[u8] = &[0x03, 0x01];
const INTEROP_DOMAIN: &str = "libp2p-peer-record";

// ---------------------------------------------------------------------------------------------
// (1) raw signatures

#[derive(Clone, Debug, Serialize, Deserialize)]
pub struct SigCase {
    key: KeySpec,
    other: KeySpec,
    msg: Vec<u8>,
    msg_muts: Vec<Mutation>,
    sig_muts: Vec<Mutation>,
}

fn sig_case() -> impl Strategy<Value = SigCase> {
    (
        key_spec(),
        key_spec(),
        prop_oneof![3 => proptest::collection::vec(any::<u8>(), 0..200), 1 => proptest::collection::vec(any::<u8>(), 200..3000)],
        proptest::collection::vec(mutation(), 0..3),
        proptest::collection::vec(mutation(), 0..3),
    )
        .prop_map(|(key, other, msg, msg_muts, sig_muts)| SigCase { key, other, msg, msg_muts, sig_muts })
}

fn check_sig(c: &SigCase) -> Outcome {
    let (Some(kp), Some(other)) = (c.key.build(), c.other.build()) else { return Outcome::Discard };
    let pk = kp.public();
    let sig = match kp.sign(&c.msg) {
        Ok(s) => s,
        Err(e) => return Outcome::fail("C21:signing-failed", e.to_string()),
    };
    let mut labels = vec![type_label(&kp)];
    ensure!(pk.verify(&c.msg, &sig), "C21:genuine-signature-rejected", json!({"key": type_label(&kp), "msg_len": c.msg.len()}));
    let m2 = apply_mutations(&c.msg, &c.msg_muts);
    let s2 = apply_mutations(&sig, &c.sig_muts);
    let mut nt = false;
    if m2 != c.msg {
        nt = true;
        labels.push("message-changed");
        let r = catch(|| pk.verify(&m2, &sig));
        ensure!(r == Ok(false), "C21:signature-verifies-for-changed-message", json!({"key": type_label(&kp), "msg": hex(&c.msg), "changed": hex(&m2), "result": format!("{r:?}")}));
    }
    if s2 != sig {
        nt = true;
        labels.push("signature-changed");
        let r = catch(|| pk.verify(&c.msg, &s2));
        ensure!(r == Ok(false), "C21:changed-signature-verifies", json!({"key": type_label(&kp), "sig": hex(&sig), "changed": hex(&s2), "result": format!("{r:?}")}));
        if m2 != c.msg {
            let r = catch(|| pk.verify(&m2, &s2));
            ensure!(r == Ok(false), "C21:changed-signature-verifies-for-changed-message", json!({"key": type_label(&kp)}));
        }
    }
    if other.public() != pk {
        nt = true;
        labels.push("other-key");
        let r = catch(|| other.public().verify(&c.msg, &sig));
        ensure!(r == Ok(false), "C21:signature-verifies-under-other-key", json!({"signer": type_label(&kp), "other": type_label(&other)}));
    }
    Outcome::pass_l(nt, labels)
}

#[derive(Clone, Debug, Serialize, Deserialize)]
pub struct FlipCase {
    base: u8,
    /// false: flip the signature, true: flip the message
    in_msg: bool,
    pos: u16,
    xor: u8,
}

const FLIP_MSG: &[u8] = b"noise-libp2p-static-key:0123456789abcdef0123456789abcdef";

fn pool_sigs() -> &'static Vec<Vec<u8>> {
    static S: OnceLock<Vec<Vec<u8>>> = OnceLock::new();
    S.get_or_init(|| (0..POOL_LEN as u8).map(|i| KeySpec::Pool(i).build().unwrap().sign(FLIP_MSG).unwrap()).collect())
}

fn check_sigflip(c: &FlipCase) -> Outcome {
    let kp = KeySpec::Pool(c.base).build().unwrap();
    let pk = kp.public();
    let sig = &pool_sigs()[c.base as usize % POOL_LEN];
    if c.xor == 0 {
        return Outcome::Discard;
    }
    let r = if c.in_msg {
        let mut m = FLIP_MSG.to_vec();
        let Some(b) = m.get_mut(c.pos as usize) else { return Outcome::Discard };
        *b ^= c.xor;
        catch(|| pk.verify(&m, sig))
    } else {
        let mut s = sig.clone();
        let Some(b) = s.get_mut(c.pos as usize) else { return Outcome::Discard };
        *b ^= c.xor;
        catch(|| pk.verify(FLIP_MSG, &s))
    };
    ensure!(
        r == Ok(false),
        if c.in_msg { "C21:signature-verifies-for-changed-message" } else { "C21:changed-signature-verifies" },
        json!({"key": type_label(&kp), "pos": c.pos, "xor": c.xor, "result": format!("{r:?}")})
    );
    Outcome::pass_l(true, vec![type_label(&kp), if c.in_msg { "flip-in-message" } else { "flip-in-signature" }])
}

fn xors(all: bool) -> Vec<u8> {
    if all {
        (1..=255u8).collect()
    } else {
        vec![1, 2, 4, 8, 16, 32, 64, 128, 0xff]
    }
}

// ---------------------------------------------------------------------------------------------
// (2) envelope bound to (domain, payload type)

#[derive(Clone, Debug, Serialize, Deserialize)]
pub enum Probe {
    Same,
    Domain(String),
    Type(Vec<u8>),
    Both(String, Vec<u8>),
    /// move k leading bytes of the payload type to the end of the domain
    ShiftTypeIntoDomain(u8),
    /// move k trailing bytes of the domain to the front of the payload type
    ShiftDomainIntoType(u8),
    /// rewrite the encoded envelope: move k leading payload bytes to the end of the payload type, and ask for that type
    ShiftPayloadIntoType(u8),
    /// rewrite the encoded envelope: move k trailing type bytes to the front of the payload, and ask for the shortened type
    ShiftTypeIntoPayload(u8),
}

#[derive(Clone, Debug, Serialize, Deserialize)]
pub struct EnvCase {
    key: KeySpec,
    domain: String,
    ptype: Vec<u8>,
    payload: Vec<u8>,
    probe: Probe,
}

fn ascii(max: usize) -> impl Strategy<Value = String> {
    proptest::collection::vec(prop_oneof![4 => 0x61u8..0x7b, 1 => Just(b'-'), 1 => Just(b'/'), 1 => 0x20u8..0x7f], 0..max).prop_map(|v| String::from_utf8(v).unwrap())
}

/// ASCII string whose length lies around the 1-byte | 2-byte boundary of the unsigned-varint length prefix
fn ascii_around_128() -> impl Strategy<Value = String> {
    proptest::collection::vec(prop_oneof![4 => 0x61u8..0x7b, 1 => Just(b'-'), 1 => Just(b'/')], 120..137).prop_map(|v| String::from_utf8(v).unwrap())
}

fn env_case() -> impl Strategy<Value = EnvCase> {
    let domain = prop_oneof![4 => ascii(24), 2 => Just(LEGACY_DOMAIN.to_string()), 2 => Just(INTEROP_DOMAIN.to_string()), 2 => "\\PC{0,8}", 1 => ascii_around_128()];
    let ptype = prop_oneof![
        6 => ascii(24).prop_map(|s| s.into_bytes()),
        2 => Just(LEGACY_TYPE.to_vec()),
        2 => Just(INTEROP_TYPE.to_vec()),
        2 => proptest::collection::vec(any::<u8>(), 0..12),
        1 => proptest::collection::vec(any::<u8>(), 120..137),
    ];
    let payload = prop_oneof![6 => proptest::collection::vec(any::<u8>(), 0..80), 1 => proptest::collection::vec(any::<u8>(), 120..137)];
    let probe = prop_oneof![
        2 => Just(Probe::Same),
        2 => ascii(24).prop_map(Probe::Domain),
        2 => ascii(24).prop_map(|s| Probe::Type(s.into_bytes())),
        1 => (ascii(12), ascii(12)).prop_map(|(d, t)| Probe::Both(d, t.into_bytes())),
        2 => (1u8..8).prop_map(Probe::ShiftTypeIntoDomain),
        2 => (1u8..8).prop_map(Probe::ShiftDomainIntoType),
        2 => (1u8..8).prop_map(Probe::ShiftPayloadIntoType),
        2 => (1u8..8).prop_map(Probe::ShiftTypeIntoPayload),
        1 => Just(Probe::Domain(LEGACY_DOMAIN.to_string())),
        1 => Just(Probe::Domain(INTEROP_DOMAIN.to_string())),
        1 => Just(Probe::Type(LEGACY_TYPE.to_vec())),
        1 => Just(Probe::Type(INTEROP_TYPE.to_vec())),
    ];
    (key_spec(), domain, ptype, payload, probe).prop_map(|(key, domain, ptype, payload, probe)| EnvCase { key, domain, ptype, payload, probe })
}

/// harness-side envelope encoder (field numbers from envelope.proto)
fn encode_envelope(key_pb: &[u8], ptype: &[u8], payload: &[u8], sig: &[u8]) -> Vec<u8> {
    let mut v = vec![];
    if !key_pb.is_empty() {
        v.extend(pb_bytes(1, key_pb));
    }
    if !ptype.is_empty() {
        v.extend(pb_bytes(2, ptype));
    }
    if !payload.is_empty() {
        v.extend(pb_bytes(3, payload));
    }
    if !sig.is_empty() {
        v.extend(pb_bytes(5, sig));
    }
    v
}

fn envelope_fields(enc: &[u8]) -> Option<[Vec<u8>; 4]> {
    let mut out: [Vec<u8>; 4] = Default::default();
    for (f, w, data) in pb_parse(enc)? {
        if w != 2 {
            return None;
        }
        match f {
            1 => out[0] = data,
            2 => out[1] = data,
            3 => out[2] = data,
            5 => out[3] = data,
            _ => return None,
        }
    }
    Some(out)
}

fn check_env(c: &EnvCase) -> Outcome {
    let Some(kp) = c.key.build() else { return Outcome::Discard };
    let env = match SignedEnvelope::new(&kp, c.domain.clone(), c.ptype.clone(), c.payload.clone()) {
        Ok(e) => e,
        Err(e) => return Outcome::fail("C21:signing-failed", e.to_string()),
    };
    let enc = env.clone().into_protobuf_encoding();
    let mut labels = vec![type_label(&kp)];
    // encoding is what the RFC says (independent parse) and round-trips
    let Some(fields) = envelope_fields(&enc) else { return Outcome::fail("C21:envelope-encoding-not-rfc-shaped", hex(&enc)) };
    ensure!(fields[0] == kp.public().encode_protobuf() && fields[1] == c.ptype && fields[2] == c.payload, "C21:envelope-encoding-fields-differ", hex(&enc));
    let dec = match catch(|| SignedEnvelope::from_protobuf_encoding(&enc)) {
        Err(p) => return Outcome::fail("C21:panic-decoding-own-envelope", p),
        Ok(Err(e)) => return Outcome::fail("C21:own-envelope-rejected", e.to_string()),
        Ok(Ok(d)) => d,
    };
    ensure!(dec == env, "C21:envelope-roundtrip-differs");

    let shift = |k: u8, len: usize| (k as usize).min(len);
    // (envelope to query, domain', type', expected acceptance)
    let (target, d2, t2): (SignedEnvelope, String, Vec<u8>) = match &c.probe {
        Probe::Same => (dec, c.domain.clone(), c.ptype.clone()),
        Probe::Domain(d) => (dec, d.clone(), c.ptype.clone()),
        Probe::Type(t) => (dec, c.domain.clone(), t.clone()),
        Probe::Both(d, t) => (dec, d.clone(), t.clone()),
        Probe::ShiftTypeIntoDomain(k) => {
            let k = shift(*k, c.ptype.len());
            match String::from_utf8([c.domain.as_bytes(), &c.ptype[..k]].concat()) {
                Ok(d) => (dec, d, c.ptype[k..].to_vec()),
                Err(_) => return Outcome::Discard,
            }
        }
        Probe::ShiftDomainIntoType(k) => {
            let k = shift(*k, c.domain.len());
            let cut = c.domain.len() - k;
            if !c.domain.is_char_boundary(cut) {
                return Outcome::Discard;
            }
            (dec, c.domain[..cut].to_string(), [c.domain[cut..].as_bytes(), &c.ptype[..]].concat())
        }
        Probe::ShiftPayloadIntoType(k) => {
            let k = shift(*k, c.payload.len());
            let t = [&c.ptype[..], &c.payload[..k]].concat();
            let enc2 = encode_envelope(&fields[0], &t, &c.payload[k..], &fields[3]);
            match SignedEnvelope::from_protobuf_encoding(&enc2) {
                Ok(e) => (e, c.domain.clone(), t),
                Err(e) => return Outcome::fail("C21:well-formed-envelope-rejected-by-decoder", e.to_string()),
            }
        }
        Probe::ShiftTypeIntoPayload(k) => {
            let k = shift(*k, c.ptype.len());
            let cut = c.ptype.len() - k;
            let t = c.ptype[..cut].to_vec();
            let enc2 = encode_envelope(&fields[0], &t, &[&c.ptype[cut..], &c.payload[..]].concat(), &fields[3]);
            match SignedEnvelope::from_protobuf_encoding(&enc2) {
                Ok(e) => (e, c.domain.clone(), t),
                Err(e) => return Outcome::fail("C21:well-formed-envelope-rejected-by-decoder", e.to_string()),
            }
        }
    };
    let same_envelope = target == env;
    let expect_ok = same_envelope && d2 == c.domain && t2 == c.ptype;
    let r = catch(|| target.payload_and_signing_key(d2.clone(), &t2).map(|(p, k)| (p.to_vec(), k.clone())));
    let r = match r {
        Err(p) => return Outcome::fail("C21:panic-in-payload-and-signing-key", p),
        Ok(r) => r,
    };
    let detail = || json!({"key": type_label(&kp), "domain": c.domain, "type": hex(&c.ptype), "payload": hex(&c.payload), "asked_domain": d2, "asked_type": hex(&t2), "probe": format!("{:?}", c.probe)});
    match (&r, expect_ok) {
        (Ok((p, k)), true) => {
            ensure!(p == &c.payload && k == &kp.public(), "C21:accepted-envelope-yields-other-payload-or-key", detail());
            labels.push("accepted");
        }
        (Err(_), true) => return Outcome::fail("C21:genuine-envelope-rejected", detail()),
        (Ok(_), false) => {
            let sig = if !same_envelope {
                "C21:envelope-with-moved-field-boundary-accepted"
            } else if t2 != c.ptype {
                "C21:envelope-accepted-with-other-payload-type"
            } else {
                "C21:envelope-accepted-with-other-domain"
            };
            return Outcome::fail(sig, detail());
        }
        (Err(_), false) => labels.push("rejected"),
    }
    // `verify` alone only binds the domain
    if same_envelope {
        ensure!(target.verify(d2.clone()) == (d2 == c.domain), "C21:verify-disagrees-with-domain-equality", detail());
    }
    if [c.domain.len(), c.ptype.len(), c.payload.len()].iter().any(|l| (120..137).contains(l)) {
        labels.push("field-len-120..136");
    }
    labels.push(match &c.probe {
        Probe::Same => "probe:same",
        Probe::Domain(_) => "probe:domain",
        Probe::Type(_) => "probe:type",
        Probe::Both(..) => "probe:both",
        Probe::ShiftTypeIntoDomain(_) | Probe::ShiftDomainIntoType(_) => "probe:shift-domain-type",
        Probe::ShiftPayloadIntoType(_) | Probe::ShiftTypeIntoPayload(_) => "probe:shift-type-payload",
    });
    Outcome::pass_l(!expect_ok, labels)
}

// ---------------------------------------------------------------------------------------------
// (3) peer records

#[derive(Clone, Copy, Debug, PartialEq, Eq, Serialize, Deserialize)]
pub enum Fmt {
    Legacy,
    Interop,
    Other,
}

fn domain_of(f: Fmt) -> &'static str {
    match f {
        Fmt::Legacy => LEGACY_DOMAIN,
        Fmt::Interop => INTEROP_DOMAIN,
        Fmt::Other => "libp2p-peer-record-v2",
    }
}
fn type_of(f: Fmt) -> &'static [u8] {
    match f {
        Fmt::Legacy => LEGACY_TYPE,
        Fmt::Interop => INTEROP_TYPE,
        Fmt::Other => &[0x03, 0x02],
    }
}

#[derive(Clone, Debug, Serialize, Deserialize)]
pub struct RecCase {
    signer: KeySpec,
    /// key whose peer id is written into the record (None = the signer's)
    claimed: Option<KeySpec>,
    addrs: Vec<Vec<Comp>>,
    seq: u64,
    /// build through PeerRecord::new / new_interop (then `claimed`, `seq`, `dom`, `typ` are implied)
    via_api: bool,
    dom: Fmt,
    typ: Fmt,
    read_interop: bool,
}

fn rec_payload(peer: &PeerId, seq: u64, addrs: &[Multiaddr]) -> Vec<u8> {
    let mut v = pb_bytes(1, &peer.to_bytes());
    if seq != 0 {
        v.extend(pb_varint(2, seq));
    }
    for a in addrs {
        v.extend(pb_bytes(3, &pb_bytes(1, &a.to_vec())));
    }
    v
}

fn rec_case() -> impl Strategy<Value = RecCase> {
    let fmt = prop_oneof![4 => Just(Fmt::Legacy), 4 => Just(Fmt::Interop), 1 => Just(Fmt::Other)];
    (
        key_spec(),
        proptest::option::weighted(0.4, key_spec()),
        proptest::collection::vec(vcore::gen::dial_addr(), 0..4),
        prop_oneof![Just(0u64), Just(1u64), any::<u64>()],
        proptest::bool::weighted(0.3),
        fmt.clone(),
        fmt,
        any::<bool>(),
    )
        .prop_map(|(signer, claimed, addrs, seq, via_api, dom, typ, read_interop)| RecCase { signer, claimed, addrs, seq, via_api, dom, typ, read_interop })
}

fn check_rec(c: &RecCase) -> Outcome {
    let Some(signer) = c.signer.build() else { return Outcome::Discard };
    let signer_id = signer.public().to_peer_id();
    let addrs: Vec<Multiaddr> = c.addrs.iter().map(|a| build_addr(a)).collect();
    let mut labels = vec![type_label(&signer)];
    let (env, claimed_id, seq, dom, typ) = if c.via_api {
        let made_interop = c.dom == Fmt::Interop;
        let rec = if made_interop { PeerRecord::new_interop(&signer, addrs.clone()) } else { PeerRecord::new(&signer, addrs.clone()) };
        let rec = match rec {
            Ok(r) => r,
            Err(e) => return Outcome::fail("C21:signing-failed", e.to_string()),
        };
        ensure!(rec.peer_id() == signer_id && rec.addresses() == &addrs[..], "C21:new-record-differs-from-inputs");
        labels.push("via-api");
        let f = if made_interop { Fmt::Interop } else { Fmt::Legacy };
        (rec.to_signed_envelope(), signer_id, rec.seq(), f, f)
    } else {
        let claimed_id = match &c.claimed {
            None => signer_id,
            Some(k) => match k.build() {
                Some(k) => k.public().to_peer_id(),
                None => return Outcome::Discard,
            },
        };
        let payload = rec_payload(&claimed_id, c.seq, &addrs);
        match SignedEnvelope::new(&signer, domain_of(c.dom).to_string(), type_of(c.typ).to_vec(), payload) {
            Ok(e) => (e, claimed_id, c.seq, c.dom, c.typ),
            Err(e) => return Outcome::fail("C21:signing-failed", e.to_string()),
        }
    };
    // over the wire
    let enc = env.into_protobuf_encoding();
    let env = match SignedEnvelope::from_protobuf_encoding(&enc) {
        Ok(e) => e,
        Err(e) => return Outcome::fail("C21:own-envelope-rejected", e.to_string()),
    };
    let want = if c.read_interop { Fmt::Interop } else { Fmt::Legacy };
    let r = catch(|| if c.read_interop { PeerRecord::from_signed_envelope_interop(env.clone()) } else { PeerRecord::from_signed_envelope(env.clone()) });
    let r = match r {
        Err(p) => return Outcome::fail("C21:panic-in-from-signed-envelope", p),
        Ok(r) => r,
    };
    let expect_ok = dom == want && typ == want && claimed_id == signer_id;
    let detail = || json!({"signer": signer_id.to_string(), "claimed": claimed_id.to_string(), "domain": format!("{dom:?}"), "type": format!("{typ:?}"), "read_as": format!("{want:?}"), "via_api": c.via_api});
    match (r, expect_ok) {
        (Ok(rec), true) => {
            ensure!(rec.peer_id() == signer_id, "C21:record-peer-id-is-not-the-signer", detail());
            ensure!(rec.seq() == seq && rec.addresses() == &addrs[..], "C21:accepted-record-differs-from-signed-content", detail());
            labels.push("accepted");
        }
        (Err(e), true) => return Outcome::fail("C21:genuine-peer-record-rejected", json!({"err": e.to_string(), "case": detail()})),
        (Ok(_), false) => {
            let sig = if claimed_id != signer_id {
                "C21:peer-record-accepted-for-peer-other-than-signer"
            } else if typ != want {
                "C21:peer-record-accepted-with-other-payload-type"
            } else {
                "C21:peer-record-accepted-with-other-domain"
            };
            return Outcome::fail(sig, detail());
        }
        (Err(_), false) => {
            labels.push("rejected");
            if claimed_id != signer_id {
                labels.push("claimed-other-peer");
            }
            if dom != want || typ != want {
                labels.push("format-mismatch");
            }
        }
    }
    Outcome::pass_l(!expect_ok, labels)
}

// ---------------------------------------------------------------------------------------------
// (3b) byte layout of the signed buffer (differential against an independent RFC0002 construction)
//      and sequences of queries on one envelope object

/// RFC0002 signature buffer, built with the harness' own varint writer:
/// varint(len(domain)) ‖ domain ‖ varint(len(payload_type)) ‖ payload_type ‖ varint(len(payload)) ‖ payload
fn rfc0002_buffer(domain: &str, ptype: &[u8], payload: &[u8]) -> Vec<u8> {
    let mut v = lp(domain.as_bytes());
    v.extend(lp(ptype));
    v.extend(lp(payload));
    v
}

/// `len` bytes: `pat` repeated (empty pattern = zeros)
#[derive(Clone, Debug, PartialEq, Eq, Serialize, Deserialize)]
pub struct Fill {
    len: u32,
    pat: Vec<u8>,
}

impl Fill {
    fn bytes(&self) -> Vec<u8> {
        if self.pat.is_empty() {
            vec![0; self.len as usize]
        } else {
            self.pat.iter().cycle().take(self.len as usize).copied().collect()
        }
    }
}

/// a string of exactly `len` bytes: the characters of `pat` repeated while they fit, then 'x'
#[derive(Clone, Debug, PartialEq, Eq, Serialize, Deserialize)]
pub struct DomFill {
    len: u32,
    pat: String,
}

impl DomFill {
    fn string(&self) -> String {
        let len = self.len as usize;
        let chars: Vec<char> = self.pat.chars().collect();
        let mut s = String::with_capacity(len);
        if !chars.is_empty() {
            let mut i = 0;
            loop {
                let ch = chars[i % chars.len()];
                if s.len() + ch.len_utf8() > len {
                    break;
                }
                s.push(ch);
                i += 1;
            }
        }
        while s.len() < len {
            s.push('x');
        }
        s
    }
}

#[derive(Clone, Debug, Serialize, Deserialize)]
pub enum DomSpec {
    Fill(DomFill),
    Legacy,
    Interop,
}

#[derive(Clone, Debug, Serialize, Deserialize)]
pub enum TypeSpec {
    Fill(Fill),
    Legacy,
    Interop,
}

#[derive(Clone, Debug, Serialize, Deserialize)]
pub enum PayloadSpec {
    Raw(Fill),
    /// a peer-record payload; `pad_to`: pad with an unknown protobuf field (15) to exactly that many bytes if possible
    Record { claimed: Option<KeySpec>, seq: u64, addrs: Vec<Vec<Comp>>, pad_to: Option<u32> },
}

#[derive(Clone, Copy, Debug, PartialEq, Eq, Serialize, Deserialize)]
pub enum Origin {
    /// `SignedEnvelope::new`
    Api,
    /// signed by the harness over its own RFC0002 buffer, protobuf-encoded by the harness, decoded by the code under test
    Reference,
}

#[derive(Clone, Copy, Debug, PartialEq, Eq, Serialize, Deserialize)]
pub enum Target {
    /// the one envelope object that lives through the whole sequence
    Object,
    /// a clone of that object taken right now
    CloneNow,
    /// a second long-lived object: a clone taken before the first query
    EarlyClone,
    /// the object encoded to protobuf and decoded again right now
    Reencoded,
}

#[derive(Clone, Copy, Debug, PartialEq, Eq, Serialize, Deserialize)]
pub enum Method {
    Payload,
    Verify,
    RecordLegacy,
    RecordInterop,
}

#[derive(Clone, Debug, Serialize, Deserialize)]
pub enum DomAsk {
    Signed,
    Legacy,
    Interop,
    Fill(DomFill),
    /// the signed domain without its last character
    DropLast,
    /// the signed domain followed by one letter
    Append(u8),
}

#[derive(Clone, Debug, Serialize, Deserialize)]
pub enum TypeAsk {
    Signed,
    Legacy,
    Interop,
    Fill(Fill),
    DropLast,
    Append(u8),
}

#[derive(Clone, Debug, Serialize, Deserialize)]
pub struct Query {
    target: Target,
    method: Method,
    /// used by Payload and Verify
    dom: DomAsk,
    /// used by Payload
    typ: TypeAsk,
}

#[derive(Clone, Debug, Serialize, Deserialize)]
pub struct SeqCase {
    key: KeySpec,
    origin: Origin,
    domain: DomSpec,
    ptype: TypeSpec,
    payload: PayloadSpec,
    queries: Vec<Query>,
}

/// field lengths: small, and around the points where the unsigned-varint length prefix grows (127|128, 16383|16384)
fn field_len() -> impl Strategy<Value = u32> {
    prop_oneof![
        1 => Just(0u32),
        4 => 0u32..40,
        4 => 126u32..=129,
        1 => 40u32..126,
        1 => 130u32..700,
        1 => 16382u32..=16385,
    ]
}

fn fill() -> impl Strategy<Value = Fill> {
    (field_len(), prop_oneof![4 => proptest::collection::vec(any::<u8>(), 1..6), 1 => Just(vec![])]).prop_map(|(len, pat)| Fill { len, pat })
}

fn dom_fill() -> impl Strategy<Value = DomFill> {
    (field_len(), prop_oneof![3 => "[a-z/-]{1,4}", 1 => "\\PC{1,3}"]).prop_map(|(len, pat)| DomFill { len, pat })
}

/// `recordish`: the envelope is (nearly) a peer-record envelope — domain and type mostly the legacy or the interop
/// constants (mostly of the same format), payload a record, and the record readers asked more often
fn seq_case_with(recordish: bool) -> BoxedStrategy<SeqCase> {
    let pad = proptest::option::weighted(0.5, prop_oneof![4 => 126u32..=130, 1 => 130u32..400, 1 => 16382u32..=16386]);
    let record = (proptest::option::weighted(0.25, key_spec()), prop_oneof![Just(0u64), Just(1u64), any::<u64>()], proptest::collection::vec(vcore::gen::dial_addr(), 0..4), pad)
        .prop_map(|(claimed, seq, addrs, pad_to)| PayloadSpec::Record { claimed, seq, addrs, pad_to });
    let signed: BoxedStrategy<(DomSpec, TypeSpec, PayloadSpec)> = if recordish {
        // (format, how the domain is chosen, how the type is chosen): 0..6 = of the format, 6..8 = of the other format, 8..10 = arbitrary
        (any::<bool>(), 0u8..10, 0u8..10, dom_fill(), fill(), prop_oneof![1 => fill().prop_map(PayloadSpec::Raw), 9 => record])
            .prop_map(|(interop, dc, tc, df, tf, payload)| {
                let domain = match dc {
                    0..=5 => if interop { DomSpec::Interop } else { DomSpec::Legacy },
                    6..=7 => if interop { DomSpec::Legacy } else { DomSpec::Interop },
                    _ => DomSpec::Fill(df),
                };
                let ptype = match tc {
                    0..=5 => if interop { TypeSpec::Interop } else { TypeSpec::Legacy },
                    6..=7 => if interop { TypeSpec::Legacy } else { TypeSpec::Interop },
                    _ => TypeSpec::Fill(tf),
                };
                (domain, ptype, payload)
            })
            .boxed()
    } else {
        (
            prop_oneof![4 => dom_fill().prop_map(DomSpec::Fill), 1 => Just(DomSpec::Legacy), 1 => Just(DomSpec::Interop)],
            prop_oneof![4 => fill().prop_map(TypeSpec::Fill), 1 => Just(TypeSpec::Legacy), 1 => Just(TypeSpec::Interop)],
            prop_oneof![3 => fill().prop_map(PayloadSpec::Raw), 2 => record],
        )
            .boxed()
    };
    let target = prop_oneof![5 => Just(Target::Object), 2 => Just(Target::CloneNow), 1 => Just(Target::EarlyClone), 1 => Just(Target::Reencoded)];
    let rec_w = if recordish { 3 } else { 1 };
    let method = prop_oneof![4 => Just(Method::Payload), 3 => Just(Method::Verify), rec_w => Just(Method::RecordLegacy), rec_w => Just(Method::RecordInterop)];
    let dom = prop_oneof![
        5 => Just(DomAsk::Signed),
        1 => Just(DomAsk::Legacy),
        1 => Just(DomAsk::Interop),
        2 => dom_fill().prop_map(DomAsk::Fill),
        1 => Just(DomAsk::DropLast),
        1 => any::<u8>().prop_map(DomAsk::Append),
    ];
    let typ = prop_oneof![
        6 => Just(TypeAsk::Signed),
        1 => Just(TypeAsk::Legacy),
        1 => Just(TypeAsk::Interop),
        1 => fill().prop_map(TypeAsk::Fill),
        1 => Just(TypeAsk::DropLast),
        1 => any::<u8>().prop_map(TypeAsk::Append),
    ];
    let query = (target, method, dom, typ).prop_map(|(target, method, dom, typ)| Query { target, method, dom, typ });
    (key_spec(), prop_oneof![Just(Origin::Api), Just(Origin::Reference)], signed, proptest::collection::vec(query, 2..5))
        .prop_map(|(key, origin, (domain, ptype, payload), queries)| SeqCase { key, origin, domain, ptype, payload, queries })
        .boxed()
}

fn seq_case() -> impl Strategy<Value = SeqCase> {
    prop_oneof![3 => seq_case_with(false), 2 => seq_case_with(true)]
}

/// append an unknown length-delimited field (number 15) so that the message is exactly `target` bytes long, if that is possible
fn pad_record(mut v: Vec<u8>, target: usize) -> (Vec<u8>, bool) {
    if target < v.len() {
        return (v, false);
    }
    let room = target - v.len();
    for hdr in [2usize, 3, 4] {
        if room < hdr {
            continue;
        }
        let n = room - hdr;
        if 1 + uvarint(n as u64).len() == hdr {
            v.extend(pb_bytes(15, &vec![0xaa; n]));
            return (v, true);
        }
    }
    (v, false)
}

/// what the harness knows about the payload when it is read as a peer record
enum RecTruth {
    /// random bytes: almost certainly not a record; if one is accepted its peer id must still be the signer's
    Raw,
    Record { claimed: PeerId, seq: u64, addrs: Vec<Multiaddr>, padded: bool },
}

#[derive(Clone, Copy, Debug, PartialEq, Eq)]
enum Exp {
    Accept,
    Reject,
    /// acceptance is not required (a record carrying an unknown field); an accepted answer must still carry the signed content
    AcceptOptional,
}

/// the answer of the code under test to one query, reduced to what the oracle compares
#[derive(Debug, PartialEq, Eq)]
enum Answer {
    Rejected,
    Verified,
    Payload(Vec<u8>, libp2p_identity::PublicKey),
    Record(PeerId, u64, Vec<Multiaddr>),
}

/// ask one question; for an accepted record also hands back the envelope the record carries
fn ask(env: &SignedEnvelope, m: Method, d: &str, t: &[u8]) -> Result<(Answer, Option<SignedEnvelope>), String> {
    catch(|| match m {
        Method::Verify => (if env.verify(d.to_string()) { Answer::Verified } else { Answer::Rejected }, None),
        Method::Payload => match env.payload_and_signing_key(d.to_string(), t) {
            Ok((p, k)) => (Answer::Payload(p.to_vec(), k.clone()), None),
            Err(_) => (Answer::Rejected, None),
        },
        Method::RecordLegacy | Method::RecordInterop => {
            let r = if m == Method::RecordLegacy { PeerRecord::from_signed_envelope(env.clone()) } else { PeerRecord::from_signed_envelope_interop(env.clone()) };
            match r {
                Ok(rec) => (Answer::Record(rec.peer_id(), rec.seq(), rec.addresses().to_vec()), Some(rec.into_signed_envelope())),
                Err(_) => (Answer::Rejected, None),
            }
        }
    })
}

fn short(s: &str) -> String {
    if s.len() <= 48 {
        s.to_string()
    } else {
        let cut = (0..=40).rev().find(|i| s.is_char_boundary(*i)).unwrap_or(0);
        format!("{}… ({} bytes)", &s[..cut], s.len())
    }
}

fn short_hex(b: &[u8]) -> String {
    if b.len() <= 40 {
        hex(b)
    } else {
        format!("{}… ({} bytes)", hex(&b[..32]), b.len())
    }
}

fn check_seq(c: &SeqCase) -> Outcome {
    let Some(kp) = c.key.build() else { return Outcome::Discard };
    let pk = kp.public();
    let pk_pb = pk.encode_protobuf();
    let signer_id = pk.to_peer_id();
    let domain = match &c.domain {
        DomSpec::Fill(f) => f.string(),
        DomSpec::Legacy => LEGACY_DOMAIN.to_string(),
        DomSpec::Interop => INTEROP_DOMAIN.to_string(),
    };
    let ptype = match &c.ptype {
        TypeSpec::Fill(f) => f.bytes(),
        TypeSpec::Legacy => LEGACY_TYPE.to_vec(),
        TypeSpec::Interop => INTEROP_TYPE.to_vec(),
    };
    let (payload, truth) = match &c.payload {
        PayloadSpec::Raw(f) => (f.bytes(), RecTruth::Raw),
        PayloadSpec::Record { claimed, seq, addrs, pad_to } => {
            let claimed = match claimed {
                None => signer_id,
                Some(k) => match k.build() {
                    Some(k) => k.public().to_peer_id(),
                    None => return Outcome::Discard,
                },
            };
            let addrs: Vec<Multiaddr> = addrs.iter().map(|a| build_addr(a)).collect();
            let (bytes, padded) = match pad_to {
                Some(t) => pad_record(rec_payload(&claimed, *seq, &addrs), *t as usize),
                None => (rec_payload(&claimed, *seq, &addrs), false),
            };
            (bytes, RecTruth::Record { claimed, seq: *seq, addrs, padded })
        }
    };
    let mut labels = vec![type_label(&kp)];
    for (l, at128, ge128) in [(domain.len(), "domain-len-128", "domain-len>=128"), (ptype.len(), "type-len-128", "type-len>=128"), (payload.len(), "payload-len-128", "payload-len>=128")] {
        labels.push(match l {
            0 => "field-len-0",
            127 => "field-len-127",
            128 => "field-len-128",
            129 => "field-len-129",
            16383 => "field-len-16383",
            16384 => "field-len-16384",
            _ => "field-len-other",
        });
        if l == 128 {
            labels.push(at128);
        }
        if l >= 128 {
            labels.push(ge128);
        }
    }
    if let RecTruth::Record { padded, claimed, .. } = &truth {
        labels.push("payload:record");
        if *padded {
            labels.push("payload:record-padded");
        }
        if *claimed != signer_id {
            labels.push("payload:record-claims-other-peer");
        }
    }
    let base = || json!({"key": type_label(&kp), "domain": short(&domain), "domain_len": domain.len(), "type": short_hex(&ptype), "type_len": ptype.len(), "payload": short_hex(&payload), "payload_len": payload.len()});

    // --- layout differential --------------------------------------------------------------------
    let ref_buf = rfc0002_buffer(&domain, &ptype, &payload);
    // (a) what SignedEnvelope::new signs is the RFC0002 buffer
    let api_env = match SignedEnvelope::new(&kp, domain.clone(), ptype.clone(), payload.clone()) {
        Ok(e) => e,
        Err(e) => return Outcome::fail("C21:signing-failed", e.to_string()),
    };
    let api_enc = api_env.clone().into_protobuf_encoding();
    let Some(fields) = envelope_fields(&api_enc) else { return Outcome::fail("C21:envelope-encoding-not-rfc-shaped", short_hex(&api_enc)) };
    ensure!(fields[0] == pk_pb && fields[1] == ptype && fields[2] == payload, "C21:envelope-encoding-fields-differ", base());
    ensure!(pk.verify(&ref_buf, &fields[3]), "C21:envelope-signature-not-over-rfc0002-buffer", base());
    // (b) an envelope signed over the RFC0002 buffer by someone else's code is accepted with exactly (domain, type)
    let ref_sig = match kp.sign(&ref_buf) {
        Ok(s) => s,
        Err(e) => return Outcome::fail("C21:signing-failed", e.to_string()),
    };
    let ref_enc = encode_envelope(&pk_pb, &ptype, &payload, &ref_sig);
    let decode = |bytes: &[u8]| match catch(|| SignedEnvelope::from_protobuf_encoding(bytes)) {
        Err(p) => Err(Outcome::fail("C21:panic-decoding-envelope", p)),
        Ok(Err(e)) => Err(Outcome::fail("C21:well-formed-envelope-rejected-by-decoder", json!({"err": e.to_string(), "case": base()}))),
        Ok(Ok(e)) => Ok(e),
    };
    let ref_env = match decode(&ref_enc) {
        Ok(e) => e,
        Err(o) => return o,
    };
    match ask(&ref_env, Method::Payload, &domain, &ptype) {
        Err(p) => return Outcome::fail("C21:panic-in-payload-and-signing-key", p),
        Ok((Answer::Payload(p, k), _)) => ensure!(p == payload && k == pk, "C21:accepted-envelope-yields-other-payload-or-key", base()),
        Ok(_) => return Outcome::fail("C21:rfc0002-conforming-envelope-rejected", base()),
    }

    // --- query sequence on one object -----------------------------------------------------------
    // the object has not been queried yet (the differential above used its own decoded instance)
    let (mut obj, signed_enc) = match c.origin {
        Origin::Api => (api_env, api_enc),
        Origin::Reference => match decode(&ref_enc) {
            Ok(e) => (e, ref_enc),
            Err(o) => return o,
        },
    };
    labels.push(if c.origin == Origin::Api { "origin:api" } else { "origin:reference" });
    let early = obj.clone();
    // history of each long-lived object: was a query accepted / rejected before?
    let (mut obj_ok, mut obj_rej, mut early_ok, mut early_rej) = (false, false, false, false);
    let mut history: Vec<String> = vec![];
    let mut any_reject = false;
    for (i, q) in c.queries.iter().enumerate() {
        let d2 = match &q.dom {
            DomAsk::Signed => domain.clone(),
            DomAsk::Legacy => LEGACY_DOMAIN.to_string(),
            DomAsk::Interop => INTEROP_DOMAIN.to_string(),
            DomAsk::Fill(f) => f.string(),
            DomAsk::DropLast => {
                let mut d = domain.clone();
                d.pop();
                d
            }
            DomAsk::Append(b) => format!("{domain}{}", (b'a' + b % 26) as char),
        };
        let t2 = match &q.typ {
            TypeAsk::Signed => ptype.clone(),
            TypeAsk::Legacy => LEGACY_TYPE.to_vec(),
            TypeAsk::Interop => INTEROP_TYPE.to_vec(),
            TypeAsk::Fill(f) => f.bytes(),
            TypeAsk::DropLast => ptype[..ptype.len().saturating_sub(1)].to_vec(),
            TypeAsk::Append(b) => [&ptype[..], &[*b]].concat(),
        };
        // the reference: decided from what was signed alone, never from earlier answers
        let record_fmt = |f: Fmt| domain == domain_of(f) && ptype == type_of(f);
        let exp = match q.method {
            Method::Verify => {
                if d2 == domain {
                    Exp::Accept
                } else {
                    Exp::Reject
                }
            }
            Method::Payload => {
                if d2 == domain && t2 == ptype {
                    Exp::Accept
                } else {
                    Exp::Reject
                }
            }
            Method::RecordLegacy | Method::RecordInterop => {
                let f = if q.method == Method::RecordLegacy { Fmt::Legacy } else { Fmt::Interop };
                match &truth {
                    _ if !record_fmt(f) => Exp::Reject,
                    RecTruth::Record { claimed, .. } if *claimed != signer_id => Exp::Reject,
                    RecTruth::Record { padded: false, .. } => Exp::Accept,
                    _ => Exp::AcceptOptional,
                }
            }
        };
        let want = match (q.method, &truth) {
            (Method::Verify, _) => Some(Answer::Verified),
            (Method::Payload, _) => Some(Answer::Payload(payload.clone(), pk.clone())),
            (_, RecTruth::Record { claimed, seq, addrs, .. }) => Some(Answer::Record(*claimed, *seq, addrs.clone())),
            (_, RecTruth::Raw) => None,
        };
        let conforms = |a: &Answer| match (a, exp) {
            (Answer::Rejected, Exp::Reject | Exp::AcceptOptional) => true,
            (Answer::Rejected, Exp::Accept) | (_, Exp::Reject) => false,
            // accepted: must carry exactly the signed content (random bytes that happen to parse as a record: at least the signer's id)
            (a, _) => match &want {
                Some(w) => a == w,
                None => matches!(a, Answer::Record(p, ..) if *p == signer_id),
            },
        };
        let (prior_ok, prior_rej) = match q.target {
            Target::Object | Target::CloneNow => (obj_ok, obj_rej),
            Target::EarlyClone => (early_ok, early_rej),
            Target::Reencoded => (false, false),
        };
        let scratch;
        let tgt: &SignedEnvelope = match q.target {
            Target::Object => &obj,
            Target::EarlyClone => &early,
            Target::CloneNow => {
                scratch = obj.clone();
                &scratch
            }
            Target::Reencoded => {
                let enc = obj.clone().into_protobuf_encoding();
                ensure!(enc == signed_enc, "C21:envelope-encoding-changed-by-queries", base());
                scratch = match decode(&enc) {
                    Ok(e) => e,
                    Err(o) => return o,
                };
                &scratch
            }
        };
        let (ans, carried) = match ask(tgt, q.method, &d2, &t2) {
            Ok(a) => a,
            Err(p) => return Outcome::fail(if matches!(q.method, Method::RecordLegacy | Method::RecordInterop) { "C21:panic-in-from-signed-envelope" } else { "C21:panic-in-payload-and-signing-key" }, p),
        };
        let accepted = ans != Answer::Rejected;
        if !conforms(&ans) {
            // the same question put to a freshly decoded envelope: does the wrong answer come from the history of the object?
            let fresh_ok = decode(&signed_enc).ok().and_then(|e| ask(&e, q.method, &d2, &t2).ok()).map(|(a, _)| conforms(&a)).unwrap_or(false);
            let is_rec = matches!(q.method, Method::RecordLegacy | Method::RecordInterop);
            let sig = if fresh_ok {
                "C21:envelope-answer-depends-on-earlier-queries"
            } else if !accepted {
                if is_rec {
                    "C21:genuine-peer-record-rejected"
                } else if q.method == Method::Verify {
                    "C21:verify-disagrees-with-domain-equality"
                } else {
                    "C21:genuine-envelope-rejected"
                }
            } else if exp != Exp::Reject {
                if is_rec {
                    "C21:accepted-record-differs-from-signed-content"
                } else {
                    "C21:accepted-envelope-yields-other-payload-or-key"
                }
            } else if is_rec {
                let f = if q.method == Method::RecordLegacy { Fmt::Legacy } else { Fmt::Interop };
                if ptype != type_of(f) {
                    "C21:peer-record-accepted-with-other-payload-type"
                } else if domain != domain_of(f) {
                    "C21:peer-record-accepted-with-other-domain"
                } else {
                    "C21:peer-record-accepted-for-peer-other-than-signer"
                }
            } else if q.method == Method::Verify {
                "C21:verify-disagrees-with-domain-equality"
            } else if t2 != ptype {
                "C21:envelope-accepted-with-other-payload-type"
            } else {
                "C21:envelope-accepted-with-other-domain"
            };
            return Outcome::fail(
                sig,
                json!({"signed": base(), "origin": format!("{:?}", c.origin), "query_index": i, "target": format!("{:?}", q.target), "method": format!("{:?}", q.method),
                       "asked_domain": short(&d2), "asked_type": short_hex(&t2), "expected": format!("{exp:?}"), "accepted": accepted,
                       "same_query_on_fresh_envelope_is_right": fresh_ok, "earlier_queries": history}),
            );
        }
        // labels: what the sequence exercised
        labels.push(match q.method {
            Method::Verify => "query:verify",
            Method::Payload => "query:payload",
            _ => "query:record",
        });
        labels.push(match q.target {
            Target::Object => "target:object",
            Target::CloneNow => "target:clone-now",
            Target::EarlyClone => "target:early-clone",
            Target::Reencoded => "target:reencoded",
        });
        if exp == Exp::Reject {
            any_reject = true;
        }
        if prior_ok {
            labels.push("query-after-successful-verify");
            if exp == Exp::Reject {
                labels.push("must-reject-after-successful-verify");
                match q.method {
                    Method::Verify | Method::Payload => {
                        if d2 != domain {
                            labels.push("wrong-domain-after-successful-verify");
                        }
                        if q.method == Method::Payload && t2 != ptype {
                            labels.push("wrong-type-after-successful-verify");
                        }
                    }
                    _ => {
                        labels.push("wrong-format-or-peer-record-after-successful-verify");
                        let f = if q.method == Method::RecordLegacy { Fmt::Legacy } else { Fmt::Interop };
                        if ptype == type_of(f) && domain != domain_of(f) && matches!(&truth, RecTruth::Record { claimed, .. } if *claimed == signer_id) {
                            labels.push("own-record-of-other-domain-read-after-successful-verify");
                        }
                    }
                }
            } else if accepted {
                labels.push("accepted-again-after-successful-verify");
            }
        }
        if prior_rej && accepted {
            labels.push("accepted-after-rejection");
        }
        if let Answer::Record(..) = ans {
            labels.push("record-accepted-in-sequence");
            if matches!(truth, RecTruth::Record { padded: true, .. }) {
                labels.push("padded-record-accepted");
            }
        }
        history.push(format!("{:?} {:?} domain={:?} type={} -> {}", q.target, q.method, short(&d2), short_hex(&t2), if accepted { "accepted" } else { "rejected" }));
        match q.target {
            Target::Object => {
                if accepted {
                    obj_ok = true;
                } else {
                    obj_rej = true;
                }
                // an accepted record carries "the original instance" of the envelope: keep using that one
                if let Some(e) = carried {
                    ensure!(e == obj, "C21:record-carries-other-envelope", base());
                    obj = e;
                }
            }
            Target::EarlyClone => {
                if accepted {
                    early_ok = true;
                } else {
                    early_rej = true;
                }
            }
            Target::CloneNow | Target::Reencoded => {
                if let Some(e) = carried {
                    ensure!(e == obj, "C21:record-carries-other-envelope", base());
                }
            }
        }
    }
    labels.push(match c.queries.len() {
        0 | 1 => "queries:1",
        2 => "queries:2",
        3 => "queries:3",
        _ => "queries:4+",
    });
    labels.sort_unstable();
    labels.dedup();
    Outcome::pass_l(any_reject, labels)
}

// ---------------------------------------------------------------------------------------------
// (4) byte mutations of encoded envelopes

struct Base {
    enc: Vec<u8>,
    fields: [Vec<u8>; 4],
    interop: bool,
    peer: PeerId,
    seq: u64,
    addrs: Vec<Multiaddr>,
    key_label: &'static str,
    /// (name, start, end) of the content of each field; everything else is framing
    regions: Vec<(&'static str, usize, usize)>,
}

const N_BASES: usize = POOL_LEN * 2;

fn bases() -> &'static Vec<Base> {
    static B: OnceLock<Vec<Base>> = OnceLock::new();
    B.get_or_init(|| {
        let mut v = vec![];
        for i in 0..N_BASES {
            let kp = KeySpec::Pool((i / 2) as u8).build().unwrap();
            let interop = i % 2 == 1;
            let peer = kp.public().to_peer_id();
            let addrs: Vec<Multiaddr> = vec![
                build_addr(&[Comp::Ip4([192, 0, 2, (i + 1) as u8]), Comp::Tcp(4001)]),
                build_addr(&[Comp::Ip6([0x2001, 0xdb8, 0, 0, 0, 0, 0, i as u16 + 1]), Comp::Udp(443), Comp::QuicV1]),
            ];
            let seq = 1_700_000_000 + i as u64;
            let f = if interop { Fmt::Interop } else { Fmt::Legacy };
            let env = SignedEnvelope::new(&kp, domain_of(f).to_string(), type_of(f).to_vec(), rec_payload(&peer, seq, &addrs)).unwrap();
            let enc = env.into_protobuf_encoding();
            let fields = envelope_fields(&enc).expect("rfc shaped");
            // offsets of the field contents
            let mut regions = vec![];
            let mut off = 0usize;
            while off < enc.len() {
                let (tag, n1) = read_uvarint(&enc[off..]).unwrap();
                let (len, n2) = read_uvarint(&enc[off + n1..]).unwrap();
                let start = off + n1 + n2;
                let name = match tag >> 3 {
                    1 => "in-public-key",
                    2 => "in-payload-type",
                    3 => "in-payload",
                    5 => "in-signature",
                    _ => "in-unknown",
                };
                regions.push((name, start, start + len as usize));
                off = start + len as usize;
            }
            v.push(Base { enc, fields, interop, peer, seq, addrs, key_label: type_label(&kp), regions });
        }
        v
    })
}

fn judge_mutated(b: &Base, bytes: &[u8], mut labels: Vec<&'static str>) -> Outcome {
    let unchanged = bytes == &b.enc[..];
    let env = match catch(|| SignedEnvelope::from_protobuf_encoding(bytes)) {
        Err(p) => return Outcome::fail("C21:panic-decoding-envelope", json!({"panic": p, "bytes": hex(bytes)})),
        Ok(Err(_)) => {
            ensure!(!unchanged, "C21:own-envelope-rejected");
            labels.push("decode-error");
            return Outcome::pass_l(true, labels);
        }
        Ok(Ok(e)) => e,
    };
    // both readers: only the one matching the format may accept, and then only the identical record
    for read_interop in [false, true] {
        let r = catch(|| if read_interop { PeerRecord::from_signed_envelope_interop(env.clone()) } else { PeerRecord::from_signed_envelope(env.clone()) });
        let r = match r {
            Err(p) => return Outcome::fail("C21:panic-in-from-signed-envelope", json!({"panic": p, "bytes": hex(bytes)})),
            Ok(r) => r,
        };
        match r {
            Err(_) => {
                ensure!(!(unchanged && read_interop == b.interop), "C21:genuine-peer-record-rejected");
            }
            Ok(rec) => {
                let same = rec.peer_id() == b.peer && rec.seq() == b.seq && rec.addresses() == &b.addrs[..];
                ensure!(
                    same && read_interop == b.interop,
                    "C21:mutated-envelope-accepted-as-different-record",
                    json!({"key": b.key_label, "original": hex(&b.enc), "mutated": hex(bytes), "peer": rec.peer_id().to_string(), "seq": rec.seq(),
                           "addrs": rec.addresses().iter().map(|a| a.to_string()).collect::<Vec<_>>(), "read_interop": read_interop})
                );
                labels.push("accepted-identical-record");
                labels.push(match labels.iter().find(|l| l.starts_with("in-")).copied() {
                    Some("in-public-key") => "accepted@public-key",
                    Some("in-payload-type") => "accepted@payload-type",
                    Some("in-payload") => "accepted@payload",
                    Some("in-signature") => "accepted@signature",
                    Some("in-framing") => "accepted@framing",
                    _ => "accepted@multi-edit",
                });
            }
        }
    }
    // the generic accessor with the right (domain, type): accepted ⇒ identical payload and key
    let f = if b.interop { Fmt::Interop } else { Fmt::Legacy };
    if let Ok((p, k)) = env.payload_and_signing_key(domain_of(f).to_string(), type_of(f)) {
        ensure!(p == &b.fields[2][..] && k.encode_protobuf() == b.fields[0], "C21:mutated-envelope-accepted-with-different-payload-or-key", json!({"original": hex(&b.enc), "mutated": hex(bytes)}));
    } else {
        labels.push("rejected");
    }
    Outcome::pass_l(!unchanged, labels)
}

#[derive(Clone, Debug, Serialize, Deserialize)]
pub struct EnvFlip {
    base: u8,
    pos: u16,
    xor: u8,
}

fn check_envflip(c: &EnvFlip) -> Outcome {
    let b = &bases()[c.base as usize % N_BASES];
    let mut bytes = b.enc.clone();
    let pos = c.pos as usize;
    if pos >= bytes.len() || c.xor == 0 {
        return Outcome::Discard;
    }
    bytes[pos] ^= c.xor;
    let region = b.regions.iter().find(|(_, s, e)| pos >= *s && pos < *e).map(|r| r.0).unwrap_or("in-framing");
    judge_mutated(b, &bytes, vec![b.key_label, region])
}

#[derive(Clone, Debug, Serialize, Deserialize)]
pub struct EnvMut {
    base: u8,
    muts: Vec<Mutation>,
}

fn check_envmut(c: &EnvMut) -> Outcome {
    let b = &bases()[c.base as usize % N_BASES];
    let bytes = apply_mutations(&b.enc, &c.muts);
    judge_mutated(b, &bytes, vec![b.key_label])
}

#[derive(Clone, Debug, Serialize, Deserialize)]
pub struct Splice {
    a: u8,
    b: u8,
    /// bit i set: field i (key, type, payload, signature) is taken from b instead of a
    mask: u8,
}

fn check_splice(c: &Splice) -> Outcome {
    let (a, b) = (&bases()[c.a as usize % N_BASES], &bases()[c.b as usize % N_BASES]);
    let pick = |i: usize| if c.mask >> i & 1 == 1 { &b.fields[i] } else { &a.fields[i] };
    let f: [&Vec<u8>; 4] = [pick(0), pick(1), pick(2), pick(3)];
    let bytes = encode_envelope(f[0], f[1], f[2], f[3]);
    // the splice is genuine iff it equals one of the bases field by field
    let genuine = bases().iter().find(|x| (0..4).all(|i| &x.fields[i] == f[i]));
    let env = match SignedEnvelope::from_protobuf_encoding(&bytes) {
        Ok(e) => e,
        Err(e) => return Outcome::fail("C21:well-formed-envelope-rejected-by-decoder", e.to_string()),
    };
    let mut labels = vec![];
    for read_interop in [false, true] {
        let r = if read_interop { PeerRecord::from_signed_envelope_interop(env.clone()) } else { PeerRecord::from_signed_envelope(env.clone()) };
        let expect_ok = genuine.map(|g| g.interop == read_interop).unwrap_or(false);
        match (r, expect_ok) {
            (Ok(rec), true) => {
                let g = genuine.unwrap();
                ensure!(rec.peer_id() == g.peer && rec.seq() == g.seq && rec.addresses() == &g.addrs[..], "C21:accepted-record-differs-from-signed-content");
                labels.push("genuine-accepted");
            }
            (Err(e), true) => return Outcome::fail("C21:genuine-peer-record-rejected", e.to_string()),
            (Ok(rec), false) => {
                return Outcome::fail(
                    "C21:spliced-envelope-accepted",
                    json!({"key_from": if c.mask & 1 == 1 { b.key_label } else { a.key_label }, "a": c.a, "b": c.b, "mask": c.mask, "peer": rec.peer_id().to_string(), "read_interop": read_interop}),
                )
            }
            (Err(_), false) => {}
        }
    }
    if genuine.is_none() {
        labels.push("forged-rejected");
    }
    Outcome::pass_l(genuine.is_none(), labels)
}

pub fn run(ctx: &mut Ctx) {
    ctx.assume("ECDSA (r, n-s) malleability is a property of the signature scheme and is not probed; byte-level changes (flip, truncate, extend, insert, remove) of signatures are");
    ctx.assume("RSA keys are sampled in about 5 % of the generated cases; all four key types appear in every exhaustive sweep");
    let all = !ctx.quick();

    ctx.check::<SigCase>(
        "sign-verify",
        "key (pool incl. RSA 5 %, or derived from a generated secret) × message (0..3000 bytes) × 0..2 mutations of message and of signature × second key; non-trivial = an effective change or a distinct second key",
        ctx.n(12_000, 400_000),
        &|| sig_case().boxed(),
        &check_sig,
    );
    let xs = xors(all);
    ctx.sweep::<FlipCase, _>(
        "signature-flips",
        "every pool key × every byte position of its signature over a fixed 56-byte message × xor values (quick: 8 single bits + 0xff; thorough: all 255), and the same for every message byte; every case non-trivial",
        true,
        &|lane| {
            let mut v = vec![];
            for base in 0..POOL_LEN as u8 {
                let slen = pool_sigs()[base as usize].len();
                for pos in 0..slen {
                    for &xor in &xs {
                        v.push(FlipCase { base, in_msg: false, pos: pos as u16, xor });
                    }
                }
                for pos in 0..FLIP_MSG.len() {
                    for &xor in &xs {
                        v.push(FlipCase { base, in_msg: true, pos: pos as u16, xor });
                    }
                }
            }
            v.into_iter().skip(lane).step_by(LANES)
        },
        &check_sigflip,
    );
    ctx.check::<EnvCase>(
        "envelope-binding",
        "envelope signed for (domain, type, payload), queried with the same / another domain / another type / both / a shifted domain|type boundary / a re-encoded envelope with a shifted type|payload boundary; non-trivial = the query differs from what was signed",
        ctx.n(12_000, 400_000),
        &|| env_case().boxed(),
        &check_env,
    );
    ctx.check::<SeqCase>(
        "envelope-layout-and-query-sequences",
        "key × (domain, payload type, payload) with byte lengths small and around the varint boundaries 127|128 and 16383|16384 (payload: bytes or a peer record, optionally padded to such a length) . (a) the signature made by SignedEnvelope::new must verify over the harness' own RFC0002 buffer, (b) an envelope signed by the harness over that buffer must be accepted with exactly (domain, type); then 2..4 queries (payload_and_signing_key / verify / PeerRecord::from_signed_envelope[_interop]; signed / other / near-miss domain and type) in generated order on one envelope object (made by the API or from the reference encoding), its clones and re-encodings: every answer must be what the signed (domain, type, payload, signer) alone predicts; non-trivial = at least one query of the sequence must be rejected",
        ctx.n(16_000, 400_000),
        &|| seq_case().boxed(),
        &check_seq,
    );
    ctx.check::<RecCase>(
        "peer-record",
        "records made through PeerRecord::new/new_interop or assembled by the harness (claimed peer id = signer or another key; domain and type each legacy/interop/other), sent through the protobuf encoding and read with from_signed_envelope / _interop; non-trivial = must be rejected",
        ctx.n(12_000, 400_000),
        &|| rec_case().boxed(),
        &check_rec,
    );
    ctx.level = "fault_enumeration";
    // quick: all 255 xor values for one key of each type (both formats), single-bit flips for the others
    ctx.sweep::<EnvFlip, _>(
        "envelope-flips",
        "every byte position of the encoded peer-record envelope of every pool key × {legacy, interop} × xor values (thorough: all 255 everywhere; quick: all 255 for one key per key type, 8 single bits + 0xff for the others); result must be decode error, rejection, or the identical record; every case non-trivial (labels: region hit)",
        true,
        &|lane| {
            let mut v = vec![];
            for (bi, b) in bases().iter().enumerate() {
                let key = bi / 2;
                let full = all || matches!(key, 0 | 4 | 7 | 10);
                let xs = xors(full);
                for pos in 0..b.enc.len() {
                    for &xor in &xs {
                        v.push(EnvFlip { base: bi as u8, pos: pos as u16, xor });
                    }
                }
            }
            v.into_iter().skip(lane).step_by(LANES)
        },
        &check_envflip,
    );
    ctx.sweep::<Splice, _>(
        "envelope-splices",
        "all 24×24×16 recombinations of (public key, payload type, payload, signature) taken from two genuine envelopes (every key type, legacy/interop); accepted iff the recombination equals a genuine envelope; non-trivial = forged",
        true,
        &|lane| {
            (0..N_BASES * N_BASES * 16).skip(lane).step_by(LANES).map(|i| Splice { a: (i / (16 * N_BASES)) as u8, b: ((i / 16) % N_BASES) as u8, mask: (i % 16) as u8 })
        },
        &check_splice,
    );
    ctx.check::<EnvMut>(
        "envelope-mutations",
        "1..4 structure-aware mutations (flip, set, truncate, duplicate, remove, insert) of a genuine encoded envelope; same oracle as envelope-flips; non-trivial = bytes changed",
        ctx.n(30_000, 1_000_000),
        &|| (0u8..N_BASES as u8, proptest::collection::vec(mutation(), 1..4)).prop_map(|(base, muts)| EnvMut { base, muts }).boxed(),
        &check_envmut,
    );
    ctx.fuzz(&crate::fuzzapi::ENVELOPE, 30_000, 600_000, crate::fuzzapi::ENVELOPE_RUNS_PER_JOB, crate::fuzzapi::FUZZ_JOBS);
}

// ---------------------------------------------------------------------------------------------
// byte-level entry for the fuzz target `envelope`: the mutation oracle of `judge_mutated`, stated
// relative to the whole set of genuinely signed envelopes (the fuzzer splices seeds, so "the"
// original of an input is not known): whatever is accepted must be one of the genuine records,
// through the reader of its own format only.

/// Ok(non-trivial): the bytes decoded as an envelope that is not byte-identical to a genuine one.
pub fn fuzz_entry(bytes: &[u8]) -> Result<bool, (String, serde_json::Value)> {
    let fail = |sig: &str, d: serde_json::Value| Err((sig.to_string(), d));
    let genuine_bytes = bases().iter().any(|b| b.enc == bytes);
    let env = match catch(|| SignedEnvelope::from_protobuf_encoding(bytes)) {
        Err(p) => return fail("C21:panic-decoding-envelope", json!({"panic": p, "bytes": hex(bytes)})),
        Ok(Err(_)) => {
            if genuine_bytes {
                return fail("C21:own-envelope-rejected", json!({"bytes": hex(bytes)}));
            }
            return Ok(false);
        }
        Ok(Ok(e)) => e,
    };
    for read_interop in [false, true] {
        let r = catch(|| if read_interop { PeerRecord::from_signed_envelope_interop(env.clone()) } else { PeerRecord::from_signed_envelope(env.clone()) });
        let r = match r {
            Err(p) => return fail("C21:panic-in-from-signed-envelope", json!({"panic": p, "bytes": hex(bytes)})),
            Ok(r) => r,
        };
        match r {
            Err(_) => {
                if bases().iter().any(|b| b.enc == bytes && b.interop == read_interop) {
                    return fail("C21:genuine-peer-record-rejected", json!({"bytes": hex(bytes)}));
                }
            }
            Ok(rec) => {
                let same = bases().iter().any(|b| b.interop == read_interop && rec.peer_id() == b.peer && rec.seq() == b.seq && rec.addresses() == &b.addrs[..]);
                if !same {
                    return fail(
                        "C21:mutated-envelope-accepted-as-different-record",
                        json!({"mutated": hex(bytes), "peer": rec.peer_id().to_string(), "seq": rec.seq(), "addrs": rec.addresses().iter().map(|a| a.to_string()).collect::<Vec<_>>(), "read_interop": read_interop}),
                    );
                }
            }
        }
    }
    for f in [Fmt::Legacy, Fmt::Interop] {
        if let Ok((p, k)) = env.payload_and_signing_key(domain_of(f).to_string(), type_of(f)) {
            let kpb = k.encode_protobuf();
            let interop = matches!(f, Fmt::Interop);
            if !bases().iter().any(|b| b.interop == interop && p == &b.fields[2][..] && kpb == b.fields[0]) {
                return fail("C21:mutated-envelope-accepted-with-different-payload-or-key", json!({"mutated": hex(bytes)}));
            }
        }
    }
    Ok(!genuine_bytes)
}

/// golden seeds: the genuinely signed envelopes (every pool key × legacy / interop format)
pub fn fuzz_seed_inputs() -> Vec<(String, Vec<u8>)> {
    bases().iter().enumerate().map(|(i, b)| (format!("{}-{}-{i}", b.key_label.trim_start_matches("key:"), if b.interop { "interop" } else { "legacy" }), b.enc.clone())).collect()
}
