//! Helpers shared by the chk-crypto checks (harness-side reference code; nothing here is code under test).
use libp2p_identity::{self as identity, Keypair};
use proptest::prelude::*;
use serde::{Deserialize, Serialize};
use vcore::gen::keys;

/// Serialisable description of an identity key.
#[derive(Clone, Debug, PartialEq, Eq, Serialize, Deserialize)]
pub enum KeySpec {
    /// index into `vcore::gen::keys().all()` (ed25519 ×4, secp256k1 ×3, ecdsa ×3, rsa ×2)
    Pool(u8),
    Ed([u8; 32]),
    Secp([u8; 32]),
    Ecdsa([u8; 32]),
}

pub const POOL_LEN: usize = 12;
pub const POOL_CHEAP: usize = 10;

impl KeySpec {
    pub fn build(&self) -> Option<Keypair> {
        match self {
            KeySpec::Pool(i) => {
                let all = keys().all();
                all.get(*i as usize % all.len()).map(|k| (*k).clone())
            }
            KeySpec::Ed(s) => Keypair::ed25519_from_bytes(*s).ok(),
            KeySpec::Secp(s) => identity::secp256k1::SecretKey::try_from_bytes(*s).ok().map(|sk| Keypair::from(identity::secp256k1::Keypair::from(sk))),
            KeySpec::Ecdsa(s) => identity::ecdsa::SecretKey::try_from_bytes(*s).ok().map(|sk| Keypair::from(identity::ecdsa::Keypair::from(sk))),
        }
    }
    pub fn is_rsa(&self) -> bool {
        matches!(self, KeySpec::Pool(i) if (*i as usize % POOL_LEN) >= POOL_CHEAP)
    }
}

pub fn type_label(k: &Keypair) -> &'static str {
    match k.key_type() {
        identity::KeyType::Ed25519 => "key:ed25519",
        identity::KeyType::RSA => "key:rsa",
        identity::KeyType::Secp256k1 => "key:secp256k1",
        identity::KeyType::Ecdsa => "key:ecdsa",
    }
}

/// pool key index: cheap keys mostly, RSA in ~`rsa_pct` % of the draws
pub fn pool_idx(rsa_pct: u32) -> impl Strategy<Value = u8> {
    prop_oneof![
        (100 - rsa_pct) => 0u8..POOL_CHEAP as u8,
        rsa_pct => POOL_CHEAP as u8..POOL_LEN as u8,
    ]
}

/// key spec: pool keys (RSA ~5 %) and freshly derived keys from generated 32-byte seeds
pub fn key_spec() -> impl Strategy<Value = KeySpec> {
    prop_oneof![
        4 => pool_idx(5).prop_map(KeySpec::Pool),
        2 => any::<[u8; 32]>().prop_map(KeySpec::Ed),
        2 => any::<[u8; 32]>().prop_map(KeySpec::Secp),
        2 => any::<[u8; 32]>().prop_map(KeySpec::Ecdsa),
    ]
}

pub fn hex(b: &[u8]) -> String {
    let mut s = String::with_capacity(b.len() * 2);
    for x in b {
        s.push_str(&format!("{x:02x}"));
    }
    s
}

/// strict unsigned-varint reader: (value, consumed, minimal?)  Err = unterminated / longer than 10 bytes / overflow
pub fn read_varint(b: &[u8]) -> Result<(u64, usize, bool), ()> {
    let mut v: u64 = 0;
    for (i, &x) in b.iter().enumerate() {
        if i >= 10 {
            return Err(());
        }
        if i == 9 && x > 1 {
            return Err(());
        }
        v |= ((x & 0x7f) as u64) << (7 * i);
        if x & 0x80 == 0 {
            let minimal = !(x == 0 && i > 0);
            return Ok((v, i + 1, minimal));
        }
    }
    Err(())
}

/// independent base58btc decoder (bitcoin alphabet); None = invalid character
pub fn b58_decode(s: &str) -> Option<Vec<u8>> {
    const ALPHA: &[u8] = b"123456789ABCDEFGHJKLMNPQRSTUVWXYZabcdefghijkmnopqrstuvwxyz";
    let mut num: Vec<u8> = vec![]; // big-endian base-256 digits
    let mut zeros = 0usize;
    let mut leading = true;
    for ch in s.bytes() {
        let d = ALPHA.iter().position(|&a| a == ch)? as u32;
        if leading && d == 0 {
            zeros += 1;
            continue;
        }
        leading = false;
        let mut carry = d;
        for x in num.iter_mut().rev() {
            let t = (*x as u32) * 58 + carry;
            *x = (t & 0xff) as u8;
            carry = t >> 8;
        }
        while carry > 0 {
            num.insert(0, (carry & 0xff) as u8);
            carry >>= 8;
        }
    }
    let mut out = vec![0u8; zeros];
    out.extend(num);
    Some(out)
}

/// independent base58btc encoder
pub fn b58_encode(b: &[u8]) -> String {
    const ALPHA: &[u8] = b"123456789ABCDEFGHJKLMNPQRSTUVWXYZabcdefghijkmnopqrstuvwxyz";
    let zeros = b.iter().take_while(|&&x| x == 0).count();
    let mut digits: Vec<u8> = vec![]; // little-endian base-58
    for &byte in &b[zeros..] {
        let mut carry = byte as u32;
        for d in digits.iter_mut() {
            let t = (*d as u32) * 256 + carry;
            *d = (t % 58) as u8;
            carry = t / 58;
        }
        while carry > 0 {
            digits.push((carry % 58) as u8);
            carry /= 58;
        }
    }
    let mut s = String::new();
    for _ in 0..zeros {
        s.push('1');
    }
    for d in digits.iter().rev() {
        s.push(ALPHA[*d as usize] as char);
    }
    s
}
