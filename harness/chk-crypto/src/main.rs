mod c16;
mod c17;
mod c18;
mod c20;
mod c21;
mod c22;
mod noisekit;
mod util;

fn main() {
    vcore::runner::main(&[("C16", c16::run), ("C17", c17::run), ("C18", c18::run), ("C20", c20::run), ("C21", c21::run), ("C22", c22::run)])
}
