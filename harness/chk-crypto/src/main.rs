mod c20;
mod c21;
mod c22;
mod util;

fn main() {
    vcore::runner::main(&[("C20", c20::run), ("C21", c21::run), ("C22", c22::run)])
}
