fn main() {
    vcore::runner::main(&[])
}
