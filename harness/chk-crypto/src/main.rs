use chk_crypto::*;

fn main() {
    // `chk-crypto --write-seeds <dir>`: (re)generate the golden seed corpora of the fuzz targets
    let args: Vec<String> = std::env::args().collect();
    if args.get(1).map(|s| s == "--write-seeds").unwrap_or(false) {
        let dir = std::path::PathBuf::from(args.get(2).cloned().unwrap_or_else(|| "/verif/fuzz/seeds".into()));
        match fuzzapi::write_seeds(&dir) {
            Ok(n) => {
                println!("{n} seed files written under {}", dir.display());
                return;
            }
            Err(e) => {
                eprintln!("cannot write seeds: {e}");
                std::process::exit(2);
            }
        }
    }
    vcore::runner::main(&[("C16", c16::run), ("C17", c17::run), ("C18", c18::run), ("C20", c20::run), ("C21", c21::run), ("C22", c22::run)])
}
