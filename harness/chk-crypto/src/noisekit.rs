//! Shared plumbing for the Noise checks (C16, C17): running libp2p-noise upgrades on the simulation
//! executor over vcore::simio pipes.
use futures::future::BoxFuture;
use libp2p_core::upgrade::{InboundConnectionUpgrade, OutboundConnectionUpgrade};
use libp2p_identity::PeerId;
use libp2p_noise as noise;
use vcore::simio::Duplex;

pub type Out = noise::Output<Duplex>;
pub type HsResult = Result<(PeerId, Out), noise::Error>;

pub fn upgrade(cfg: noise::Config, sock: Duplex, initiator: bool) -> BoxFuture<'static, HsResult> {
    if initiator {
        cfg.upgrade_outbound(sock, "/noise")
    } else {
        cfg.upgrade_inbound(sock, "/noise")
    }
}

pub fn err_label(e: &noise::Error) -> &'static str {
    match e {
        noise::Error::Io(_) => "err:io",
        noise::Error::Noise(_) => "err:noise",
        noise::Error::InvalidKey(_) => "err:invalid-key",
        noise::Error::InvalidLength => "err:invalid-length",
        noise::Error::UnexpectedKey => "err:unexpected-key",
        noise::Error::BadSignature => "err:bad-signature",
        noise::Error::AuthenticationFailed => "err:authentication-failed",
        noise::Error::InvalidPayload(_) => "err:invalid-payload",
        noise::Error::SigningError(_) => "err:signing",
        _ => "err:other",
    }
}

/// split a byte stream into complete 2-byte big-endian length-prefixed frames; returns (frames incl. prefix, rest)
pub fn split_frames(buf: &[u8]) -> (Vec<Vec<u8>>, Vec<u8>) {
    let mut out = vec![];
    let mut off = 0;
    while buf.len() - off >= 2 {
        let l = u16::from_be_bytes([buf[off], buf[off + 1]]) as usize;
        if buf.len() - off - 2 < l {
            break;
        }
        out.push(buf[off..off + 2 + l].to_vec());
        off += 2 + l;
    }
    (out, buf[off..].to_vec())
}

pub fn frame(body: &[u8]) -> Vec<u8> {
    let mut v = (body.len() as u16).to_be_bytes().to_vec();
    v.extend_from_slice(body);
    v
}
