mod c45;
mod c46;
mod c47;

fn main() {
    vcore::runner::main(&[("C45", c45::run), ("C46", c46::run), ("C47", c47::run)])
}
