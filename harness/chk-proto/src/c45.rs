//! C45 — request-response: every outbound request id gets exactly one of {Response, OutboundFailure},
//! every inbound request delivered to the application gets exactly one of {ResponseSent,
//! InboundFailure}; request ids are unique.
//!
//! World: 2..3 real `Swarm<request_response::Behaviour<FaultyCodec>>` over the simulated transport
//! and muxer of `simswarm::net`; every connection task runs on the harness executor, so the
//! harness owns the interleaving of swarm polls and connection-task polls, and decides when (real)
//! time passes (`Sleep` ops; the request timeout is a real `futures_timer::Delay`).
//! The codec's behaviour per message is a pure function of the message bytes (the fault plan
//! travels inside the request), so a case is deterministic up to real-time effects.
use futures::channel::oneshot;
use futures::io::{AsyncRead, AsyncReadExt, AsyncWrite, AsyncWriteExt};
use futures::task::{waker, ArcWake};
use futures::Stream as _;
use libp2p_core::transport::{ListenerId, Transport};
use libp2p_core::Multiaddr;
use libp2p_identity::PeerId;
use libp2p_request_response as rr;
use libp2p_swarm::dial_opts::DialOpts;
use libp2p_swarm::{Config, ConnectionId, StreamProtocol, Swarm, SwarmEvent};
use multiaddr::Protocol;
use proptest::prelude::*;
use serde::{Deserialize, Serialize};
use serde_json::{json, Value};
use simswarm::net::{self, mux_pair, ConnResult, MuxCtl, NetState, SimMuxer, SimTransport};
use std::collections::BTreeMap;
use std::io;
use std::num::NonZeroUsize;
use std::future::Future as _;
use std::pin::Pin;
use std::sync::atomic::{AtomicBool, Ordering};
use std::sync::{Arc, Mutex};
use std::task::{Context, Poll};
use std::time::{Duration, Instant};
use vcore::simexec::Exec;
use vcore::{gen, pick, Ctx, Outcome};

/// request timeout of every behaviour in the world (real time)
const TIMEOUT_MS: u64 = 40;
/// hard cap on the real time the wind-down waits for timer-driven outcomes
const WINDDOWN_MS: u64 = 8000;
/// canary timers (see `wind_down`) that must fire in a row before the wind-down gives up
const CANARY_ROUNDS: u32 = 3;

// ---------------------------------------------------------------------------------------------
// codec

/// What a codec method does with one message. Encoded in one byte of the message itself.
/// 0 = succeed, 1 = fail before doing I/O, 2 = fail after (partial, for writes) I/O,
/// 3 = stall forever before I/O, 4 = stall forever after the I/O.
fn act(b: u8) -> u8 {
    b % 5
}

/// Message layout: [write_request, read_request, write_response, read_response, app, tag..]
#[derive(Clone, Debug, PartialEq, Eq)]
pub struct Msg(Vec<u8>);

#[derive(Clone, Default)]
pub struct FaultyCodec;

async fn stall<T>() -> T {
    futures::future::pending::<T>().await
}

fn scripted(what: &str) -> io::Error {
    io::Error::other(format!("scripted codec failure: {what}"))
}

async fn read_msg<T: AsyncRead + Unpin + Send>(io: &mut T, slot: usize, what: &'static str) -> io::Result<Msg> {
    let mut buf = vec![];
    io.take(64).read_to_end(&mut buf).await?;
    if buf.len() < 6 {
        return Err(io::Error::new(io::ErrorKind::UnexpectedEof, "short message"));
    }
    match act(buf[slot]) {
        1 | 2 => Err(scripted(what)),
        3 | 4 => stall().await,
        _ => Ok(Msg(buf)),
    }
}

async fn write_msg<T: AsyncWrite + Unpin + Send>(io: &mut T, m: Msg, slot: usize, what: &'static str) -> io::Result<()> {
    match act(m.0[slot]) {
        1 => Err(scripted(what)),
        2 => {
            io.write_all(&m.0[..2]).await?;
            io.flush().await?;
            Err(scripted(what))
        }
        3 => stall().await,
        4 => {
            io.write_all(&m.0).await?;
            io.flush().await?;
            stall().await
        }
        _ => {
            io.write_all(&m.0).await?;
            Ok(())
        }
    }
}

impl rr::Codec for FaultyCodec {
    type Protocol = StreamProtocol;
    type Request = Msg;
    type Response = Msg;

    async fn read_request<T>(&mut self, _: &Self::Protocol, io: &mut T) -> io::Result<Msg>
    where
        T: AsyncRead + Unpin + Send,
    {
        read_msg(io, 1, "read_request").await
    }
    async fn read_response<T>(&mut self, _: &Self::Protocol, io: &mut T) -> io::Result<Msg>
    where
        T: AsyncRead + Unpin + Send,
    {
        read_msg(io, 3, "read_response").await
    }
    async fn write_request<T>(&mut self, _: &Self::Protocol, io: &mut T, req: Msg) -> io::Result<()>
    where
        T: AsyncWrite + Unpin + Send,
    {
        write_msg(io, req, 0, "write_request").await
    }
    async fn write_response<T>(&mut self, _: &Self::Protocol, io: &mut T, res: Msg) -> io::Result<()>
    where
        T: AsyncWrite + Unpin + Send,
    {
        write_msg(io, res, 2, "write_response").await
    }
}

type Beh = rr::Behaviour<FaultyCodec>;

// ---------------------------------------------------------------------------------------------
// case

#[derive(Clone, Copy, Debug, Serialize, Deserialize, PartialEq, Eq)]
pub struct Plan {
    /// codec decisions: write_request, read_request, write_response, read_response (see `act`)
    pub wreq: u8,
    pub rreq: u8,
    pub wresp: u8,
    pub rresp: u8,
    /// what the receiving application does: 0 respond at once, 1 drop the channel at once, 2 hold it
    pub app: u8,
}

#[derive(Clone, Debug, Serialize, Deserialize)]
pub enum Op {
    /// `send_request_with_addresses` from node n. `to`: 0 next node, 1 the node after, 2 n itself,
    /// 3 a peer that is no node. `addr`: 0 none, 1 the target's listen address (for a non-node: an
    /// address nobody listens on).
    Send { n: u8, to: u8, addr: u8, plan: Plan },
    /// `Swarm::add_peer_address(to, listen address of to)` on node n
    AddAddr { n: u8, to: u8 },
    /// explicit `Swarm::dial` from n to another node, transport + upgrade resolved at once
    Connect { n: u8, to: u8, settle: bool },
    /// resolve an open transport dial of node n: how 0 = ok (remote node sees the inbound
    /// connection; `both` = its upgrade finishes at once), 1 = error, 2 = ok but authenticated as a
    /// different peer
    ResolveDial { n: u8, pick: u16, how: u8, both: bool },
    /// finish a pending inbound upgrade
    ResolveIn { pick: u16, ok: bool },
    Close { n: u8, pick: u16 },
    Disconnect { n: u8, to: u8 },
    /// the remote end of a link closes / the muxer of one side fails
    RemoteClose { pick: u16, side: bool },
    Fault { pick: u16, side: bool },
    /// application answers / drops a held response channel
    Respond { n: u8, pick: u16 },
    DropChan { n: u8, pick: u16 },
    /// poll the picked runnable things (connection tasks and, unless `tasks_only`, woken swarms),
    /// one per entry
    Step { picks: Vec<u16>, tasks_only: bool },
    /// let real time pass without polling anything
    Sleep { ms: u8 },
    Settle,
}

#[derive(Clone, Debug, Serialize, Deserialize)]
pub struct Case {
    pub nodes: u8,
    pub max_streams: u8,
    pub notify_buf: u8,
    pub event_buf: u8,
    /// per node: 0 full, 1 inbound only, 2 outbound only
    pub support: Vec<u8>,
    pub ops: Vec<Op>,
}

// ---------------------------------------------------------------------------------------------
// world

struct WakeFlag(AtomicBool);
impl ArcWake for WakeFlag {
    fn wake_by_ref(a: &Arc<Self>) {
        a.0.store(true, Ordering::SeqCst);
    }
}

enum Chan {
    Held(rr::ResponseChannel<Msg>),
    /// send_response returned Ok
    Responded,
    /// send_response returned Err: the channel was already closed
    RespondRefused,
    DroppedOpen,
    DroppedClosed,
}

struct InReq {
    peer: PeerId,
    conn: ConnectionId,
    chan: Chan,
    terminals: Vec<String>,
}

struct OutReq {
    peer: PeerId,
    terminals: Vec<String>,
}

struct Node {
    swarm: Swarm<Beh>,
    net: Arc<Mutex<NetState>>,
    peer: PeerId,
    flag: Arc<WakeFlag>,
    listener: Option<ListenerId>,
    est: BTreeMap<ConnectionId, PeerId>,
    out: BTreeMap<rr::OutboundRequestId, OutReq>,
    inb: BTreeMap<rr::InboundRequestId, InReq>,
    /// ids of held channels in delivery order
    held: Vec<rr::InboundRequestId>,
}

struct Link {
    a: MuxCtl,
    b: MuxCtl,
}

struct PendingIn {
    tx: Option<oneshot::Sender<ConnResult>>,
    muxer: Option<SimMuxer>,
    auth: PeerId,
}

#[derive(Default)]
struct Stats {
    labels: std::collections::BTreeSet<&'static str>,
    out_fail: u32,
    in_fail: u32,
    closed_in_flight: u32,
    sends: u32,
    delivered: u32,
}

struct World {
    exec: Exec,
    nodes: Vec<Node>,
    links: Vec<Link>,
    incoming: Vec<PendingIn>,
    fail: Option<(String, Value)>,
    st: Stats,
    tag: u16,
}

fn node_peer(j: usize) -> PeerId {
    gen::peer(j)
}
fn listen_addr(j: usize) -> Multiaddr {
    Multiaddr::empty().with(Protocol::Memory(1000 + j as u64))
}
fn strip_p2p(a: &Multiaddr) -> Multiaddr {
    a.iter().filter(|p| !matches!(p, Protocol::P2p(_))).collect()
}
fn proto() -> StreamProtocol {
    StreamProtocol::new("/c45/1")
}

impl World {
    fn new(case: &Case) -> World {
        let nn = case.nodes.clamp(2, 3) as usize;
        let exec = Exec::new();
        let mut nodes = vec![];
        for i in 0..nn {
            let (t, netst) = SimTransport::new();
            let ex = exec.clone();
            let config = Config::with_executor(move |f| ex.spawn_named("conn", f))
                .with_idle_connection_timeout(Duration::from_secs(3600))
                .with_notify_handler_buffer_size(NonZeroUsize::new(case.notify_buf.clamp(1, 8) as usize).unwrap())
                .with_per_connection_event_buffer_size(case.event_buf.clamp(1, 8) as usize);
            let support = match case.support.get(i).copied().unwrap_or(0) % 3 {
                1 => rr::ProtocolSupport::Inbound,
                2 => rr::ProtocolSupport::Outbound,
                _ => rr::ProtocolSupport::Full,
            };
            let cfg = rr::Config::default()
                .with_request_timeout(Duration::from_millis(TIMEOUT_MS))
                .with_max_concurrent_streams(case.max_streams.clamp(1, 6) as usize);
            let beh = Beh::with_codec(FaultyCodec, [(proto(), support)], cfg);
            let mut swarm = Swarm::new(t.boxed(), beh, node_peer(i), config);
            let listener = swarm.listen_on(listen_addr(i)).ok();
            nodes.push(Node {
                swarm,
                net: netst,
                peer: node_peer(i),
                flag: Arc::new(WakeFlag(AtomicBool::new(true))),
                listener,
                est: BTreeMap::new(),
                out: BTreeMap::new(),
                inb: BTreeMap::new(),
                held: vec![],
            });
        }
        World { exec, nodes, links: vec![], incoming: vec![], fail: None, st: Stats::default(), tag: 0 }
    }

    fn fail(&mut self, sig: &str, detail: Value) {
        if self.fail.is_none() {
            self.fail = Some((sig.to_string(), detail));
        }
    }

    fn label(&mut self, l: &'static str) {
        self.st.labels.insert(l);
    }

    fn woken(&self, i: usize) -> bool {
        self.nodes[i].flag.0.load(Ordering::SeqCst)
    }

    /// Poll swarm i once and interpret the event.
    fn poll(&mut self, i: usize) -> bool {
        let ev = {
            let n = &mut self.nodes[i];
            n.flag.0.store(false, Ordering::SeqCst);
            let w = waker(n.flag.clone());
            let mut cx = Context::from_waker(&w);
            match Pin::new(&mut n.swarm).poll_next(&mut cx) {
                Poll::Ready(Some(e)) => {
                    n.flag.0.store(true, Ordering::SeqCst);
                    e
                }
                _ => return false,
            }
        };
        self.on_event(i, ev);
        true
    }

    fn on_event(&mut self, i: usize, ev: SwarmEvent<rr::Event<Msg, Msg>>) {
        match ev {
            SwarmEvent::ConnectionEstablished { peer_id, connection_id, .. } => {
                self.nodes[i].est.insert(connection_id, peer_id);
                let same = self.nodes[i].est.values().filter(|p| **p == peer_id).count();
                if same >= 2 {
                    self.label("two_connections_to_one_peer");
                }
            }
            SwarmEvent::ConnectionClosed { connection_id, .. } => {
                self.nodes[i].est.remove(&connection_id);
                self.label("connection_closed");
            }
            SwarmEvent::OutgoingConnectionError { .. } => self.label("dial_error"),
            SwarmEvent::Behaviour(e) => self.on_rr_event(i, e),
            _ => {}
        }
    }

    fn out_terminal(&mut self, i: usize, id: rr::OutboundRequestId, what: String) {
        match self.nodes[i].out.get_mut(&id) {
            None => self.fail("C45:outcome-for-unknown-outbound-request-id", json!({"node": i, "request_id": id.to_string(), "event": what})),
            Some(r) => {
                r.terminals.push(what);
                if r.terminals.len() > 1 {
                    let t = r.terminals.clone();
                    self.fail("C45:outbound-request-more-than-one-outcome", json!({"node": i, "request_id": id.to_string(), "events": t}));
                }
            }
        }
    }

    fn in_terminal(&mut self, i: usize, id: rr::InboundRequestId, what: String) {
        match self.nodes[i].inb.get_mut(&id) {
            // the statement only speaks about requests that were delivered to the application
            None => self.label("inbound_outcome_for_undelivered_request"),
            Some(r) => {
                r.terminals.push(what);
                if r.terminals.len() > 1 {
                    let t = r.terminals.clone();
                    self.fail("C45:inbound-request-more-than-one-outcome", json!({"node": i, "request_id": id.to_string(), "events": t}));
                }
            }
        }
    }

    fn on_rr_event(&mut self, i: usize, e: rr::Event<Msg, Msg>) {
        match e {
            rr::Event::Message { peer, connection_id, message } => match message {
                rr::Message::Request { request_id, request, channel } => {
                    self.st.delivered += 1;
                    if self.nodes[i].inb.contains_key(&request_id) {
                        self.fail("C45:inbound-request-id-reused", json!({"node": i, "request_id": request_id.to_string()}));
                        return;
                    }
                    let open = channel.is_open();
                    if !open {
                        self.label("request_delivered_with_closed_channel");
                    }
                    let chan = match request.0.get(4).copied().unwrap_or(0) % 3 {
                        0 => match self.nodes[i].swarm.behaviour_mut().send_response(channel, request.clone()) {
                            Ok(()) => Chan::Responded,
                            Err(_) => {
                                self.label("send_response_refused");
                                Chan::RespondRefused
                            }
                        },
                        1 => {
                            drop(channel);
                            if open {
                                Chan::DroppedOpen
                            } else {
                                Chan::DroppedClosed
                            }
                        }
                        _ => {
                            self.nodes[i].held.push(request_id);
                            Chan::Held(channel)
                        }
                    };
                    self.nodes[i].inb.insert(request_id, InReq { peer, conn: connection_id, chan, terminals: vec![] });
                }
                rr::Message::Response { request_id, .. } => {
                    self.label("out_response");
                    self.out_terminal(i, request_id, "Response".into());
                }
            },
            rr::Event::OutboundFailure { request_id, error, .. } => {
                self.st.out_fail += 1;
                let l = match error {
                    rr::OutboundFailure::DialFailure => "out_fail_dial",
                    rr::OutboundFailure::Timeout => "out_fail_timeout",
                    rr::OutboundFailure::ConnectionClosed => {
                        self.st.closed_in_flight += 1;
                        "out_fail_connection_closed"
                    }
                    rr::OutboundFailure::UnsupportedProtocols => "out_fail_unsupported",
                    rr::OutboundFailure::Io(_) => "out_fail_io",
                };
                self.label(l);
                self.out_terminal(i, request_id, format!("OutboundFailure({l})"));
            }
            rr::Event::InboundFailure { request_id, error, .. } => {
                let l = match error {
                    rr::InboundFailure::Timeout => "in_fail_timeout",
                    rr::InboundFailure::ConnectionClosed => "in_fail_connection_closed",
                    rr::InboundFailure::UnsupportedProtocols => "in_fail_unsupported",
                    rr::InboundFailure::ResponseOmission => "in_fail_omission",
                    rr::InboundFailure::Io(_) => "in_fail_io",
                };
                if self.nodes[i].inb.contains_key(&request_id) {
                    self.st.in_fail += 1;
                    if l == "in_fail_connection_closed" {
                        self.st.closed_in_flight += 1;
                    }
                    self.label(l);
                }
                self.in_terminal(i, request_id, format!("InboundFailure({l})"));
            }
            rr::Event::ResponseSent { request_id, .. } => {
                self.label("in_response_sent");
                self.in_terminal(i, request_id, "ResponseSent".into());
            }
        }
    }

    /// everything that could be polled now: connection tasks first, then woken swarms
    fn step(&mut self, p: u16, tasks_only: bool) -> bool {
        let tasks = self.exec.runnable();
        let swarms: Vec<usize> = (0..self.nodes.len()).filter(|i| !tasks_only && self.woken(*i)).collect();
        let total = tasks.len() + swarms.len();
        if total == 0 {
            return false;
        }
        let k = pick(p, total);
        if k < tasks.len() {
            self.exec.poll_task(tasks[k]);
        } else {
            self.poll(swarms[k - tasks.len()]);
        }
        true
    }

    /// run everything until nothing can make progress without time passing
    fn settle(&mut self) -> bool {
        for _ in 0..400 {
            let mut progressed = false;
            if !self.exec.runnable().is_empty() {
                self.exec.drain(64);
                progressed = true;
            }
            for i in 0..self.nodes.len() {
                let mut k = 0;
                while self.woken(i) && k < 64 {
                    k += 1;
                    progressed = true;
                    self.poll(i);
                    if self.fail.is_some() {
                        return true;
                    }
                }
            }
            if !progressed {
                return true;
            }
        }
        false
    }

    fn open_dials(&self, i: usize) -> Vec<usize> {
        let s = self.nodes[i].net.lock().unwrap();
        s.dials.iter().enumerate().filter(|(_, r)| r.tx.is_some() && !r.dropped.load(Ordering::SeqCst)).map(|(k, _)| k).collect()
    }

    fn resolve_dial(&mut self, i: usize, d: usize, how: u8, both: bool) {
        let (tx, addr) = {
            let mut s = self.nodes[i].net.lock().unwrap();
            let Some(r) = s.dials.get_mut(d) else { return };
            (r.tx.take(), r.addr.clone())
        };
        let Some(tx) = tx else { return };
        let bare = strip_p2p(&addr);
        let target = (0..self.nodes.len()).find(|j| listen_addr(*j) == bare && self.nodes[*j].listener.is_some());
        let refuse = |tx: oneshot::Sender<ConnResult>| {
            let _ = tx.send(Err(io::Error::new(io::ErrorKind::ConnectionRefused, "scripted dial failure")));
        };
        let Some(j) = target else {
            refuse(tx);
            return;
        };
        if how % 3 == 1 {
            refuse(tx);
            return;
        }
        let auth = if how % 3 == 2 { gen::peer(7) } else { self.nodes[j].peer };
        let ((ma, ca), (mb, cb)) = mux_pair();
        let lid = self.nodes[j].listener.unwrap();
        let send_back = Multiaddr::empty().with(Protocol::Memory(5000 + self.links.len() as u64));
        let itx = self.nodes[j].net.lock().unwrap().incoming(lid, listen_addr(j), send_back);
        let dialer_peer = self.nodes[i].peer;
        if both {
            let _ = itx.send(Ok((dialer_peer, net::boxed(mb))));
        } else {
            self.incoming.push(PendingIn { tx: Some(itx), muxer: Some(mb), auth: dialer_peer });
        }
        let _ = tx.send(Ok((auth, net::boxed(ma))));
        self.links.push(Link { a: ca, b: cb });
    }

    fn resolve_incoming(&mut self, k: usize, ok: bool) {
        let Some(p) = self.incoming.get_mut(k) else { return };
        let Some(tx) = p.tx.take() else { return };
        match (ok, p.muxer.take()) {
            (true, Some(m)) => {
                let _ = tx.send(Ok((p.auth, net::boxed(m))));
            }
            _ => {
                let _ = tx.send(Err(io::Error::new(io::ErrorKind::InvalidData, "scripted handshake failure")));
            }
        }
    }

    /// `to`: 0 = the next node, 1 = the one after (the next one again in a 2-node world), 2 = the node
    /// itself, 3 = a peer that is no node
    fn target_peer(&self, from: usize, to: u8) -> (PeerId, Option<usize>) {
        let nn = self.nodes.len();
        let t = match to % 4 {
            0 => (from + 1) % nn,
            1 => {
                let t = (from + 2) % nn;
                if t == from {
                    (from + 1) % nn
                } else {
                    t
                }
            }
            2 => from,
            _ => return (gen::peer(6), None),
        };
        (self.nodes[t].peer, Some(t))
    }

    fn exec_op(&mut self, op: &Op) {
        let nn = self.nodes.len();
        match op {
            Op::Send { n, to, addr, plan } => {
                let i = *n as usize % nn;
                let (peer, node) = self.target_peer(i, *to);
                self.tag = self.tag.wrapping_add(1);
                let msg = Msg(vec![plan.wreq, plan.rreq, plan.wresp, plan.rresp, plan.app, (self.tag & 0xff) as u8, (self.tag >> 8) as u8]);
                let addrs = if addr % 2 == 1 {
                    vec![match node {
                        Some(j) => listen_addr(j),
                        None => Multiaddr::empty().with(Protocol::Memory(2000)),
                    }]
                } else {
                    vec![]
                };
                let connected = self.nodes[i].swarm.is_connected(&peer);
                let id = self.nodes[i].swarm.behaviour_mut().send_request_with_addresses(&peer, msg, addrs);
                self.st.sends += 1;
                self.label(if connected { "send_connected" } else { "send_not_connected" });
                if node == Some(i) {
                    self.label("send_to_self");
                }
                if self.nodes[i].out.contains_key(&id) {
                    self.fail("C45:outbound-request-id-reused", json!({"node": i, "request_id": id.to_string()}));
                    return;
                }
                self.nodes[i].out.insert(id, OutReq { peer, terminals: vec![] });
                // the behaviour has something to hand to the swarm
                self.nodes[i].flag.0.store(true, Ordering::SeqCst);
            }
            Op::AddAddr { n, to } => {
                let i = *n as usize % nn;
                let j = (i + 1 + *to as usize % (nn - 1)) % nn;
                if i != j {
                    let p = self.nodes[j].peer;
                    self.nodes[i].swarm.add_peer_address(p, listen_addr(j));
                    self.nodes[i].flag.0.store(true, Ordering::SeqCst);
                }
            }
            Op::Connect { n, to, settle } => {
                let i = *n as usize % nn;
                let j = (i + 1 + *to as usize % (nn - 1)) % nn;
                if i == j {
                    return;
                }
                let before: Vec<usize> = self.open_dials(i);
                let opts = DialOpts::peer_id(self.nodes[j].peer).condition(libp2p_swarm::dial_opts::PeerCondition::Always).addresses(vec![listen_addr(j)]).build();
                if self.nodes[i].swarm.dial(opts).is_err() {
                    return;
                }
                self.nodes[i].flag.0.store(true, Ordering::SeqCst);
                let new: Vec<usize> = self.open_dials(i).into_iter().filter(|d| !before.contains(d)).collect();
                if let Some(d) = new.first() {
                    self.resolve_dial(i, *d, 0, true);
                }
                if *settle {
                    self.settle();
                }
            }
            Op::ResolveDial { n, pick: p, how, both } => {
                let i = *n as usize % nn;
                let open = self.open_dials(i);
                if open.is_empty() {
                    return;
                }
                let d = open[pick(*p, open.len())];
                self.resolve_dial(i, d, *how, *both);
            }
            Op::ResolveIn { pick: p, ok } => {
                let open: Vec<usize> = self.incoming.iter().enumerate().filter(|(_, x)| x.tx.is_some()).map(|(k, _)| k).collect();
                if open.is_empty() {
                    return;
                }
                let k = open[pick(*p, open.len())];
                self.resolve_incoming(k, *ok);
            }
            Op::Close { n, pick: p } => {
                let i = *n as usize % nn;
                let ids: Vec<ConnectionId> = self.nodes[i].est.keys().copied().collect();
                if ids.is_empty() {
                    return;
                }
                let id = ids[pick(*p, ids.len())];
                self.nodes[i].swarm.close_connection(id);
                self.nodes[i].flag.0.store(true, Ordering::SeqCst);
            }
            Op::Disconnect { n, to } => {
                let i = *n as usize % nn;
                let (peer, _) = self.target_peer(i, *to);
                let _ = self.nodes[i].swarm.disconnect_peer_id(peer);
                self.nodes[i].flag.0.store(true, Ordering::SeqCst);
            }
            Op::RemoteClose { pick: p, side } => {
                if self.links.is_empty() {
                    return;
                }
                let l = &self.links[pick(*p, self.links.len())];
                if *side {
                    l.a.remote_close()
                } else {
                    l.b.remote_close()
                }
            }
            Op::Fault { pick: p, side } => {
                if self.links.is_empty() {
                    return;
                }
                let l = &self.links[pick(*p, self.links.len())];
                if *side {
                    l.a.inject_fault(io::ErrorKind::BrokenPipe)
                } else {
                    l.b.inject_fault(io::ErrorKind::BrokenPipe)
                }
            }
            Op::Respond { n, pick: p } | Op::DropChan { n, pick: p } => {
                let i = *n as usize % nn;
                if self.nodes[i].held.is_empty() {
                    return;
                }
                let k = pick(*p, self.nodes[i].held.len());
                let id = self.nodes[i].held.remove(k);
                let node = &mut self.nodes[i];
                let Some(r) = node.inb.get_mut(&id) else { return };
                let Chan::Held(ch) = std::mem::replace(&mut r.chan, Chan::Responded) else { return };
                let open = ch.is_open();
                let mut refused = false;
                r.chan = if matches!(op, Op::Respond { .. }) {
                    match node.swarm.behaviour_mut().send_response(ch, Msg(vec![0, 0, 0, 0, 0, 0xee, 0xee])) {
                        Ok(()) => Chan::Responded,
                        Err(_) => {
                            refused = true;
                            Chan::RespondRefused
                        }
                    }
                } else {
                    drop(ch);
                    if open {
                        Chan::DroppedOpen
                    } else {
                        Chan::DroppedClosed
                    }
                };
                if refused {
                    self.label("send_response_refused");
                }
                self.label("late_app_decision");
            }
            Op::Step { picks, tasks_only } => {
                for p in picks {
                    if !self.step(*p, *tasks_only) || self.fail.is_some() {
                        break;
                    }
                }
            }
            Op::Sleep { ms } => {
                std::thread::sleep(Duration::from_millis(*ms as u64));
                self.label("sleep");
            }
            Op::Settle => {
                self.settle();
            }
        }
    }

    fn missing(&self) -> (usize, usize) {
        let mut o = 0;
        let mut n = 0;
        for node in &self.nodes {
            o += node.out.values().filter(|r| r.terminals.is_empty()).count();
            n += node.inb.values().filter(|r| r.terminals.is_empty()).count();
        }
        (o, n)
    }

    /// Wind-down: the environment answers everything it still owes (open dials fail, pending
    /// upgrades finish), then we wait — bounded, real time — for timer-driven outcomes.
    /// Returns Some(reason) when outcomes are still missing and no time-independent witness shows
    /// that they can never arrive.
    fn wind_down(&mut self) -> Option<String> {
        self.settle();
        for i in 0..self.nodes.len() {
            for d in self.open_dials(i) {
                self.resolve_dial(i, d, 1, true);
            }
        }
        for k in 0..self.incoming.len() {
            self.resolve_incoming(k, true);
        }
        // Waiting for timer-driven outcomes must not depend on how fast this machine is: the timers
        // of the code under test (request timeout) are fired, in deadline order, by the timer
        // thread of `futures_timer`. A canary `Delay` armed at a quiescent point with a longer
        // duration than the request timeout fires after every request timer that existed at that
        // point. Only when CANARY_ROUNDS canaries in a row have fired, each armed at a quiescent
        // point after the previous one fired, and outcomes are still missing, do we give up
        // (Inconclusive). WINDDOWN_MS is a hard cap on the total wait.
        let start = Instant::now();
        let mut canary: Option<futures_timer::Delay> = None;
        let mut rounds = 0;
        loop {
            let settled = self.settle();
            if self.fail.is_some() {
                return None;
            }
            // a dial started by the behaviour during settle (e.g. a request queued behind a closing connection)
            for i in 0..self.nodes.len() {
                for d in self.open_dials(i) {
                    self.resolve_dial(i, d, 1, true);
                }
            }
            let quiet = settled && self.exec.runnable().is_empty() && (0..self.nodes.len()).all(|i| !self.woken(i)) && (0..self.nodes.len()).all(|i| self.open_dials(i).is_empty());
            if quiet {
                if self.missing() == (0, 0) {
                    return None;
                }
                // Outcomes are missing at a quiescent point: every event that was on its way has
                // been delivered. The witnesses below are facts about the state, not about time.
                self.witnesses();
                if self.fail.is_some() {
                    return None;
                }
                let fired = match canary.as_mut() {
                    None => true,
                    Some(d) => {
                        let w = futures::task::noop_waker();
                        let mut cx = Context::from_waker(&w);
                        Pin::new(d).poll(&mut cx).is_ready()
                    }
                };
                if fired {
                    if canary.is_some() {
                        rounds += 1;
                        if rounds >= CANARY_ROUNDS {
                            break;
                        }
                    }
                    canary = Some(futures_timer::Delay::new(Duration::from_millis(TIMEOUT_MS + 20)));
                }
            }
            if start.elapsed() >= Duration::from_millis(WINDDOWN_MS) {
                break;
            }
            std::thread::sleep(Duration::from_millis(2));
        }
        let (o, n) = self.missing();
        let mut diag = vec![];
        {
            // diagnosis only: would a spurious poll of everything make progress (= a lost wake-up)?
            let alive = self.exec.alive();
            let runnable = self.exec.runnable();
            diag.push(format!("tasks alive={} runnable={}", alive.len(), runnable.len()));
            for t in alive {
                self.exec.poll_task(t);
            }
            for i in 0..self.nodes.len() {
                self.poll(i);
            }
            self.settle();
            let (o2, n2) = self.missing();
            diag.push(format!("after spurious polls of every task and swarm: {o2} outbound / {n2} inbound missing"));
            std::thread::sleep(Duration::from_millis(100));
            self.settle();
            let (o3, n3) = self.missing();
            diag.push(format!("after 100 more ms: {o3} outbound / {n3} inbound missing"));
        }
        for (i, node) in self.nodes.iter().enumerate() {
            for (id, r) in node.out.iter().filter(|(_, r)| r.terminals.is_empty()) {
                let sw = &node.swarm;
                diag.push(format!(
                    "out n{i} id{id} tracked={} beh_connected={} swarm_connected={} pending_out={} est={}",
                    sw.behaviour().is_pending_outbound(&r.peer, id),
                    sw.behaviour().is_connected(&r.peer),
                    sw.is_connected(&r.peer),
                    sw.network_info().connection_counters().num_pending_outgoing(),
                    node.est.len()
                ));
            }
            for (id, r) in node.inb.iter().filter(|(_, r)| r.terminals.is_empty()) {
                let ch = match &r.chan {
                    Chan::Held(c) => {
                        if c.is_open() {
                            "held-open"
                        } else {
                            "held-closed"
                        }
                    }
                    Chan::Responded => "responded",
                    Chan::RespondRefused => "refused",
                    Chan::DroppedOpen => "dropped-open",
                    Chan::DroppedClosed => "dropped-closed",
                };
                diag.push(format!("in n{i} id{id} chan={ch} tracked={} conn_est={}", node.swarm.behaviour().is_pending_inbound(&r.peer, id), node.est.contains_key(&r.conn)));
            }
        }
        Some(format!("{o} outbound / {n} inbound requests without outcome after {rounds} canary timers / {} ms of real waiting (no time-independent witness): {}", start.elapsed().as_millis(), diag.join("; ")))
    }

    /// Called at a quiescent point (nothing runnable, every swarm polled until Pending, no open
    /// transport dial) while outcomes are missing: looks for evidence, independent of timers, that
    /// a missing outcome can never arrive.
    fn witnesses(&mut self) {
        for i in 0..self.nodes.len() {
            let outs: Vec<(rr::OutboundRequestId, PeerId)> = self.nodes[i].out.iter().filter(|(_, r)| r.terminals.is_empty()).map(|(k, r)| (*k, r.peer)).collect();
            for (id, peer) in outs {
                let sw = &self.nodes[i].swarm;
                if sw.behaviour().is_pending_outbound(&peer, &id) && !sw.behaviour().is_connected(&peer) && !sw.is_connected(&peer) && sw.network_info().connection_counters().num_pending_outgoing() == 0 {
                    self.fail(
                        "C45:outbound-request-waits-for-a-connection-nobody-is-dialing",
                        json!({"node": i, "request_id": id.to_string(), "why": "the request is still queued for a not-connected peer, the swarm has no pending outgoing connection and everything is quiescent: no Response/OutboundFailure can arrive"}),
                    );
                    return;
                }
                if !self.nodes[i].swarm.behaviour().is_pending_outbound(&peer, &id) {
                    self.fail(
                        "C45:outbound-request-forgotten-without-outcome",
                        json!({"node": i, "request_id": id.to_string(), "why": "no Response/OutboundFailure was emitted and the behaviour no longer tracks the request (is_pending_outbound == false) at quiescence"}),
                    );
                    return;
                }
            }
            let ins: Vec<rr::InboundRequestId> = self.nodes[i].inb.iter().filter(|(_, r)| r.terminals.is_empty()).map(|(k, _)| *k).collect();
            for id in ins {
                let (peer, conn, worker_gone, chan) = {
                    let r = &self.nodes[i].inb[&id];
                    let (gone, chan) = match &r.chan {
                        Chan::Held(c) => (!c.is_open(), "held"),
                        Chan::RespondRefused => (true, "send_response returned Err"),
                        Chan::DroppedClosed => (true, "dropped (already closed)"),
                        Chan::Responded => (false, "responded"),
                        Chan::DroppedOpen => (false, "dropped"),
                    };
                    (r.peer, r.conn, gone, chan)
                };
                let tracked = self.nodes[i].swarm.behaviour().is_pending_inbound(&peer, &id);
                if !tracked {
                    self.fail(
                        "C45:inbound-request-forgotten-without-outcome",
                        json!({"node": i, "request_id": id.to_string(), "channel": chan, "why": "no ResponseSent/InboundFailure was emitted and the behaviour no longer tracks the request (is_pending_inbound == false) at quiescence"}),
                    );
                    return;
                }
                if worker_gone && self.nodes[i].est.contains_key(&conn) {
                    self.fail(
                        "C45:inbound-request-delivered-after-its-stream-was-given-up-no-outcome",
                        json!({"node": i, "request_id": id.to_string(), "channel": chan, "connection_still_established": true,
                               "why": "the response channel of the delivered request is closed (the handler already dropped the stream's worker), the behaviour still lists the request as pending, the connection stays open: no ResponseSent/InboundFailure can arrive before the connection closes"}),
                    );
                    return;
                }
            }
        }
    }
}

fn check(case: &Case) -> Outcome {
    let mut w = World::new(case);
    for op in &case.ops {
        w.exec_op(op);
        if w.fail.is_some() {
            break;
        }
    }
    let mut inconclusive = None;
    if w.fail.is_none() {
        inconclusive = w.wind_down();
    }
    let fail = w.fail.take();
    let st = std::mem::take(&mut w.st);
    // tear down: swarms first (drops pending futures), then the tasks
    let exec = w.exec.clone();
    drop(w);
    exec.clear();
    if let Some((sig, detail)) = fail {
        return Outcome::fail(sig, detail);
    }
    if let Some(why) = inconclusive {
        if std::env::var_os("C45_DUMP").is_some() {
            eprintln!("C45_DUMP inconclusive: {why}\n{}", serde_json::to_string(case).unwrap_or_default());
        }
        return Outcome::Inconclusive(why);
    }
    let mut labels: Vec<&'static str> = st.labels.iter().copied().collect();
    if st.sends == 0 {
        labels.push("no_request");
    }
    if st.delivered > 0 {
        labels.push("request_delivered");
    }
    let nontrivial = st.out_fail > 0 && st.in_fail > 0 && st.closed_in_flight > 0;
    if st.out_fail > 0 && st.in_fail > 0 {
        labels.push("failure_on_both_sides");
    }
    if st.closed_in_flight > 0 {
        labels.push("close_with_requests_in_flight");
    }
    Outcome::pass_l(nontrivial, labels)
}

// ---------------------------------------------------------------------------------------------
// generator

fn act_strategy() -> impl Strategy<Value = u8> {
    prop_oneof![12 => Just(0u8), 1 => Just(1u8), 1 => Just(2u8), 1 => Just(3u8), 1 => Just(4u8)]
}

fn plan() -> impl Strategy<Value = Plan> {
    (act_strategy(), act_strategy(), act_strategy(), act_strategy(), prop_oneof![5 => Just(0u8), 2 => Just(1u8), 3 => Just(2u8)])
        .prop_map(|(wreq, rreq, wresp, rresp, app)| Plan { wreq, rreq, wresp, rresp, app })
}

fn target() -> impl Strategy<Value = u8> {
    prop_oneof![14 => Just(0u8), 6 => Just(1u8), 1 => Just(2u8), 1 => Just(3u8)]
}

fn op() -> impl Strategy<Value = Op> {
    prop_oneof![
        30 => (0u8..3, target(), prop_oneof![2 => Just(0u8), 3 => Just(1u8)], plan()).prop_map(|(n, to, addr, plan)| Op::Send { n, to, addr, plan }),
        2 => (0u8..3, 0u8..2).prop_map(|(n, to)| Op::AddAddr { n, to }),
        9 => (0u8..3, 0u8..2, prop::bool::weighted(0.7)).prop_map(|(n, to, settle)| Op::Connect { n, to, settle }),
        8 => (0u8..3, any::<u16>(), prop_oneof![6 => Just(0u8), 2 => Just(1u8), 1 => Just(2u8)], prop::bool::weighted(0.8)).prop_map(|(n, pick, how, both)| Op::ResolveDial { n, pick, how, both }),
        3 => (any::<u16>(), prop::bool::weighted(0.8)).prop_map(|(pick, ok)| Op::ResolveIn { pick, ok }),
        5 => (0u8..3, any::<u16>()).prop_map(|(n, pick)| Op::Close { n, pick }),
        2 => (0u8..3, target()).prop_map(|(n, to)| Op::Disconnect { n, to }),
        2 => (any::<u16>(), any::<bool>()).prop_map(|(pick, side)| Op::RemoteClose { pick, side }),
        2 => (any::<u16>(), any::<bool>()).prop_map(|(pick, side)| Op::Fault { pick, side }),
        4 => (0u8..3, any::<u16>()).prop_map(|(n, pick)| Op::Respond { n, pick }),
        2 => (0u8..3, any::<u16>()).prop_map(|(n, pick)| Op::DropChan { n, pick }),
        22 => (prop::collection::vec(any::<u16>(), 1..24), prop::bool::weighted(0.25)).prop_map(|(picks, tasks_only)| Op::Step { picks, tasks_only }),
        3 => prop_oneof![3 => 1u8..20, 2 => 20u8..60].prop_map(|ms| Op::Sleep { ms }),
        8 => Just(Op::Settle),
    ]
}

fn case_strategy() -> BoxedStrategy<Case> {
    (
        2u8..=3,
        1u8..=6,
        1u8..=4,
        1u8..=7,
        prop::collection::vec(prop_oneof![10 => Just(0u8), 1 => Just(1u8), 1 => Just(2u8)], 3),
        prop::collection::vec(op(), 4..48),
    )
        .prop_map(|(nodes, max_streams, notify_buf, event_buf, support, ops)| Case { nodes, max_streams, notify_buf, event_buf, support, ops })
        .boxed()
}

/// Cases aimed at timing races inside one connection: a connection is up, a burst of requests is
/// sent, the tasks are polled a generated number of times, then real time passes (around one
/// request timeout) while nothing is polled, then everything runs again.
fn starve_strategy() -> BoxedStrategy<Case> {
    let burst = (
        prop::collection::vec((0u8..2, plan(), prop::bool::weighted(0.1)), 1..8),
        // the sender's swarm hands the requests to its connection task, then mostly tasks run
        (0usize..4, prop::collection::vec(any::<u16>(), 0..60), prop::bool::weighted(0.6)),
        prop_oneof![1 => 0u8..30, 3 => 35u8..60],
        (prop::collection::vec(any::<u16>(), 0..12), any::<bool>()),
        prop_oneof![3 => Just(0u8), 1 => 35u8..50],
    );
    (
        prop_oneof![1 => 1u8..=3, 2 => 4u8..=6],
        1u8..=4,
        prop_oneof![3 => 1u8..=2, 1 => 3u8..=7],
        any::<bool>(),
        prop::collection::vec(burst, 1..4),
        prop::option::weighted(0.3, (0u8..2, any::<u16>())),
    )
        .prop_map(|(max_streams, notify_buf, event_buf, second_conn, bursts, close)| {
            let mut ops = vec![Op::Connect { n: 0, to: 0, settle: true }];
            if second_conn {
                ops.push(Op::Connect { n: 1, to: 0, settle: true });
            }
            for (sends, (swarm_polls, picks, tasks_only), ms, (picks2, tasks_only2), ms2) in bursts {
                for (n, plan, settle_between) in sends {
                    ops.push(Op::Send { n, to: 0, addr: 0, plan });
                    if settle_between {
                        ops.push(Op::Settle);
                    }
                }
                if swarm_polls > 0 {
                    // picks of 0xffff select the last runnable thing: a woken swarm if there is one
                    ops.push(Op::Step { picks: vec![0xffff; swarm_polls * 4], tasks_only: false });
                }
                ops.push(Op::Step { picks, tasks_only });
                ops.push(Op::Sleep { ms });
                ops.push(Op::Step { picks: picks2, tasks_only: tasks_only2 });
                if ms2 > 0 {
                    ops.push(Op::Sleep { ms: ms2 });
                }
                ops.push(Op::Settle);
            }
            if let Some((n, pick)) = close {
                ops.push(Op::Close { n, pick });
            }
            Case { nodes: 2, max_streams, notify_buf, event_buf, support: vec![0, 0, 0], ops }
        })
        .boxed()
}

pub fn run(ctx: &mut Ctx) {
    ctx.assume("transport, muxer and scheduling are simulated (simswarm::net, vcore::simexec): connection tasks are polled only when the harness says so; peers are real Swarms with request_response::Behaviour over a scripted codec");
    ctx.assume(&format!("request_timeout = {TIMEOUT_MS} ms of real time (futures_timer). Violations are only reported from facts that do not depend on time: a second outcome event, a reused id, or — at a quiescent point (nothing runnable, all swarms polled to Pending, no open dial) — a request without outcome that the behaviour no longer tracks (is_pending_outbound / is_pending_inbound false), that waits for a connection nobody is dialing, or whose response channel is closed (handler gave the stream up) while the behaviour still lists it and the connection stays established. Otherwise the wind-down waits until {CANARY_ROUNDS} canary timers of {} ms, each armed at a quiescent point, have fired in a row (they fire after every request timer that existed when they were armed), hard cap {WINDDOWN_MS} ms; outcomes still missing then => Inconclusive, never a violation", TIMEOUT_MS + 20));
    ctx.assume("idle_connection_timeout = 1 h, so connections only close when the case closes them; the substream upgrade timeout keeps its default (10 s) and never fires");
    ctx.check::<Case>(
        "world",
        "programs of 4..48 ops over 2..3 swarms: send_request (connected / not connected, with / without address, to self, to an unknown peer), codec fault plan per request (fail/stall in each of the 4 codec methods), application responds / drops / holds the channel, dial resolution ok / error / wrong peer, inbound upgrade ok / error, close_connection, disconnect_peer_id, remote close, muxer fault, real-time sleeps, generated task/swarm poll schedules, max_concurrent_streams 1..6, small handler buffers; non-trivial = >=1 OutboundFailure and >=1 InboundFailure (of a delivered request) and >=1 ConnectionClosed failure (a connection closed with requests in flight); distinct by case hash",
        ctx.n(3000, 100_000),
        &case_strategy,
        &check,
    );
    ctx.check::<Case>(
        "starve",
        "two connected swarms; 1..3 bursts of 1..7 requests with generated fault plans, a generated number of task/swarm polls (often connection tasks only, i.e. the swarms are starved and the connection event channel, capacity 1..7, fills up), a real-time pause of 0..60 ms (request timeout 40 ms) during which nothing is polled, more polls, optional second pause, settle; optional close at the end; non-trivial = >=1 OutboundFailure and >=1 InboundFailure of a delivered request; distinct by case hash",
        ctx.n(1500, 40_000),
        &starve_strategy,
        &|c| match check(c) {
            Outcome::Pass { labels, .. } => {
                let nt = labels.contains(&"failure_on_both_sides");
                Outcome::Pass { nontrivial: nt, labels }
            }
            o => o,
        },
    );
}
