//! C46 — stub, to be implemented.
use vcore::Ctx;
pub fn run(_ctx: &mut Ctx) {}
