//! C46 — Identify only reports authenticated peer information.
//!
//! Statement: "Identify reports information for a connection only if its public key derives the
//! connection's peer id, uses listen addresses from a signed peer record only if that record is
//! validly signed by the same peer, and never reports listen addresses that name a different
//! /p2p peer."
//!
//! Two sub-checks:
//!
//! * `world` — an honest `identify::Behaviour` (wrapped in a transparent spy that copies what the
//!   behaviour hands to the swarm) inside a real `Swarm` over the simulated transport/muxer. The
//!   harness plays every remote peer by hand on raw substreams: it answers the `/ipfs/id/1.0.0`
//!   request and opens `/ipfs/id/push/1.0.0` streams with hand-encoded protobuf messages that
//!   carry generated lies. Every address / agent string carries the index of the message it was
//!   sent in, so each reported datum can be traced to its source.
//! * `parse` — the receive path (`recv_identify` / `recv_push` through the cfg(libp2p_verif)
//!   shim), the handler's acceptance test and the behaviour's address filter driven directly with
//!   many more messages, including byte-mutated and arbitrary ones (must never panic).
//!
//! Oracle (exactly the statement, "only if" direction; plus an acceptance requirement for fully
//! honest messages so that the check cannot pass vacuously):
//!  (1) every `Received { peer_id, info }` has `info.public_key.to_peer_id() == peer_id` == the
//!      peer the transport authenticated on that connection, and nothing that was sent in a
//!      message carrying a decodable *foreign* key is ever reported;
//!  (2) a reported listen address that was sent inside a signed peer record is only reported if
//!      that record is valid for the connection's peer (independent verification: signature over
//!      domain/payload-type/payload by the envelope key, a well-known peer-record domain and
//!      payload type pair, record peer id == signer == connection peer, all addresses parse); a reported
//!      `signed_peer_record` must itself verify for that peer;
//!  (3) no reported listen address (event, `NewExternalAddrOfPeer`, dial cache) has a last
//!      component `/p2p/<X>` with X != the connection's peer (DESIGN §9: relay addresses through
//!      another peer are allowed).

use futures::io::Cursor;
use futures::{AsyncReadExt, AsyncWriteExt, FutureExt};
use libp2p_core::transport::PortUse;
use libp2p_core::{Endpoint, Multiaddr, PeerRecord};
use libp2p_identify as identify;
use libp2p_identity::{Keypair, PeerId, PublicKey};
use libp2p_swarm::dial_opts::{DialOpts, PeerCondition};
use libp2p_swarm::{ConnectionDenied, ConnectionId, FromSwarm, NetworkBehaviour, THandler, THandlerInEvent, THandlerOutEvent, ToSwarm};
use multiaddr::Protocol;
use proptest::prelude::*;
use serde::{Deserialize, Serialize};
use serde_json::json;
use simswarm::net::MuxCtl;
use simswarm::probe::cid;
use simswarm::world::{release_phantoms, Ev, World};
use std::collections::{BTreeSet, VecDeque};
use std::sync::{Arc, Mutex, OnceLock};
use std::task::{Context, Poll};
use vcore::gen::{apply_mutations, keys, mutation, Mutation};
use vcore::refcodec::{lp, pb_bytes, pb_parse, pb_varint, uvarint};
use vcore::simio::Duplex;
use vcore::{pick, Ctx, Outcome};

const LEGACY_DOMAIN: &str = "libp2p-routing-state";
const LEGACY_PTYPE: &[u8] = b"/libp2p/routing-state-record";
const STANDARD_DOMAIN: &str = "libp2p-peer-record";
const STANDARD_PTYPE: &[u8] = &[0x03, 0x01];
const MAX_MSG: usize = 4096;

// ---------------------------------------------------------------------------------------------
// identities

fn local_key() -> &'static Keypair {
    &keys().ed25519[0]
}

/// Remote identities: ed25519 1..3, secp256k1 0..2, ecdsa 0..2 (9 keys, cheap to sign with).
fn pool() -> &'static Vec<Keypair> {
    static P: OnceLock<Vec<Keypair>> = OnceLock::new();
    P.get_or_init(|| {
        let k = keys();
        k.ed25519[1..].iter().chain(&k.secp256k1).chain(&k.ecdsa).cloned().collect()
    })
}

fn pool_peer(i: usize) -> PeerId {
    pool()[i].public().to_peer_id()
}

#[derive(Clone, Debug, PartialEq, Eq, Serialize, Deserialize)]
pub enum Who {
    /// the peer of the connection the message is sent on
    Own,
    /// the i-th *other* identity of the pool (never the connection's peer)
    Other(u8),
}

fn resolve(w: &Who, own: usize) -> usize {
    let n = pool().len();
    match w {
        Who::Own => own,
        Who::Other(i) => (own + 1 + (*i as usize % (n - 1))) % n,
    }
}

// ---------------------------------------------------------------------------------------------
// message description (the generated, serialisable value)

#[derive(Clone, Debug, PartialEq, Eq, Serialize, Deserialize)]
pub enum KeySpec {
    Own,
    Missing,
    Other(u8),
    Empty,
    Garbage(Vec<u8>),
    OwnMutated(Vec<Mutation>),
}

#[derive(Clone, Debug, PartialEq, Eq, Serialize, Deserialize)]
pub enum Tail {
    None,
    P2p(Who),
    /// `/p2p/<relay>/p2p-circuit[/p2p/<dst>]`
    Circuit { relay: Who, dst: Option<Who> },
    /// `/p2p/<who>/tcp/9`: a /p2p component that is not the last one
    P2pMiddle(Who),
}

#[derive(Clone, Debug, PartialEq, Eq, Serialize, Deserialize)]
pub enum Garb {
    No,
    /// cut n+1 bytes off the end of the valid encoding
    Trunc(u8),
    /// unknown protocol code followed by raw bytes
    Raw(Vec<u8>),
}

#[derive(Clone, Debug, PartialEq, Eq, Serialize, Deserialize)]
pub struct AddrSpec {
    pub transport: u8,
    pub tail: Tail,
    pub garb: Garb,
}

#[derive(Clone, Debug, PartialEq, Eq, Serialize, Deserialize)]
pub enum Dom {
    Legacy,
    Standard,
    Empty,
}

#[derive(Clone, Debug, PartialEq, Eq, Serialize, Deserialize)]
pub enum PType {
    Legacy,
    Standard,
    Garbage,
}

#[derive(Clone, Debug, PartialEq, Eq, Serialize, Deserialize)]
pub enum Tamper {
    None,
    /// XOR one payload byte after signing
    Payload { pos: u16, x: u8 },
    /// XOR one signature byte
    Sig { pos: u16, x: u8 },
    /// replace the envelope's public key after signing
    EnvKey(Who),
    /// empty signature
    NoSig,
}

#[derive(Clone, Debug, PartialEq, Eq, Serialize, Deserialize)]
pub struct SignedSpec {
    pub signer: Who,
    pub subject: Who,
    pub dom: Dom,
    pub ptype: PType,
    pub tamper: Tamper,
    pub addrs: Vec<AddrSpec>,
    pub seq: u64,
    /// build through `PeerRecord::new` instead of the hand encoder when the spec is regular
    pub lib_built: bool,
}

#[derive(Clone, Debug, PartialEq, Eq, Serialize, Deserialize)]
pub enum RecSpec {
    None,
    Signed(SignedSpec),
    Garbage(Vec<u8>),
    /// byte mutations of the envelope built from the spec
    Mutated(SignedSpec, Vec<Mutation>),
}

#[derive(Clone, Debug, PartialEq, Eq, Serialize, Deserialize)]
pub struct MsgSpec {
    pub key: KeySpec,
    pub rec: RecSpec,
    pub listen: Vec<AddrSpec>,
    pub agent: bool,
    pub pver: bool,
    pub protocols: u8,
    /// 0 none, 1 valid, 2 unparsable
    pub observed: u8,
    pub unknown_field: bool,
}

// ---------------------------------------------------------------------------------------------
// independent encoders

/// tag = (message index, source: 0 listenAddrs / 1 record / 2 observed, index in list)
fn addr_base(tag: (u8, u8, u8), transport: u8) -> Multiaddr {
    let mut a = Multiaddr::empty();
    a.push(Protocol::Ip4([10, tag.0, tag.1, tag.2].into()));
    match transport % 5 {
        0 => a.push(Protocol::Tcp(4001)),
        1 => {
            a.push(Protocol::Udp(4001));
            a.push(Protocol::QuicV1);
        }
        2 => {
            a.push(Protocol::Tcp(443));
            a.push(Protocol::Tls);
            a.push(Protocol::Ws("/".into()));
        }
        3 => {
            a.push(Protocol::Udp(9));
            a.push(Protocol::WebRTCDirect);
        }
        _ => {}
    }
    a
}

fn addr_bytes(s: &AddrSpec, tag: (u8, u8, u8), own: usize) -> Vec<u8> {
    let mut a = addr_base(tag, s.transport);
    match &s.tail {
        Tail::None => {}
        Tail::P2p(w) => a.push(Protocol::P2p(pool_peer(resolve(w, own)))),
        Tail::Circuit { relay, dst } => {
            a.push(Protocol::P2p(pool_peer(resolve(relay, own))));
            a.push(Protocol::P2pCircuit);
            if let Some(d) = dst {
                a.push(Protocol::P2p(pool_peer(resolve(d, own))));
            }
        }
        Tail::P2pMiddle(w) => {
            a.push(Protocol::P2p(pool_peer(resolve(w, own))));
            a.push(Protocol::Tcp(9));
        }
    }
    let mut b = a.to_vec();
    match &s.garb {
        Garb::No => {}
        Garb::Trunc(n) => {
            let cut = (*n as usize % b.len()) + 1;
            b.truncate(b.len() - cut);
        }
        Garb::Raw(r) => {
            // 0x7f.. is not an assigned multiaddr protocol code
            b = vec![0xff, 0xff, 0x03];
            b.extend_from_slice(r);
        }
    }
    b
}

/// Ground-truth parse used only to know what an unparsable / truncated address denotes.
fn parse_addr(b: &[u8]) -> Option<Multiaddr> {
    Multiaddr::try_from(b.to_vec()).ok()
}

fn names_other_peer(a: &Multiaddr, peer: &PeerId) -> bool {
    matches!(a.iter().last(), Some(Protocol::P2p(x)) if x != *peer)
}

fn sig_buffer(domain: &[u8], ptype: &[u8], payload: &[u8]) -> Vec<u8> {
    let mut b = uvarint(domain.len() as u64);
    b.extend_from_slice(domain);
    b.extend(uvarint(ptype.len() as u64));
    b.extend_from_slice(ptype);
    b.extend(uvarint(payload.len() as u64));
    b.extend_from_slice(payload);
    b
}

struct BuiltRec {
    env: Vec<u8>,
    /// the addresses placed in the record that denote something (parse ground truth)
    addrs: Vec<Multiaddr>,
    /// by construction: signer == subject == connection peer, legacy domain/type, untampered,
    /// every address parses
    regular_own: bool,
}

fn build_signed(s: &SignedSpec, m: u8, own: usize) -> BuiltRec {
    let signer = &pool()[resolve(&s.signer, own)];
    let subject = pool_peer(resolve(&s.subject, own));
    let raw_addrs: Vec<Vec<u8>> = s.addrs.iter().enumerate().map(|(k, a)| addr_bytes(a, (m, 1, k as u8), own)).collect();
    let parsed: Vec<Option<Multiaddr>> = raw_addrs.iter().map(|b| parse_addr(b)).collect();
    let all_parse = parsed.iter().all(|p| p.is_some());
    let addrs: Vec<Multiaddr> = parsed.iter().flatten().cloned().collect();
    let regular = s.signer == s.subject && s.dom == Dom::Legacy && s.ptype == PType::Legacy && s.tamper == Tamper::None && all_parse;
    let regular_own = regular && s.signer == Who::Own;
    if s.lib_built && regular {
        if let Ok(r) = PeerRecord::new(signer, addrs.clone()) {
            return BuiltRec { env: r.into_signed_envelope().into_protobuf_encoding(), addrs, regular_own };
        }
    }
    let mut payload = pb_bytes(1, &subject.to_bytes());
    payload.extend(pb_varint(2, s.seq));
    for a in &raw_addrs {
        payload.extend(pb_bytes(3, &pb_bytes(1, a)));
    }
    let domain: &[u8] = match s.dom {
        Dom::Legacy => LEGACY_DOMAIN.as_bytes(),
        Dom::Standard => STANDARD_DOMAIN.as_bytes(),
        Dom::Empty => b"",
    };
    let ptype: &[u8] = match s.ptype {
        PType::Legacy => LEGACY_PTYPE,
        PType::Standard => STANDARD_PTYPE,
        PType::Garbage => b"/libp2p/routing-state-recorD",
    };
    let mut sig = signer.sign(&sig_buffer(domain, ptype, &payload)).unwrap_or_default();
    let mut env_key = signer.public();
    match &s.tamper {
        Tamper::None => {}
        Tamper::Payload { pos, x } => {
            let i = pick(*pos, payload.len());
            payload[i] ^= (*x).max(1);
        }
        Tamper::Sig { pos, x } => {
            if !sig.is_empty() {
                let i = pick(*pos, sig.len());
                sig[i] ^= (*x).max(1);
            }
        }
        Tamper::EnvKey(w) => env_key = pool()[resolve(w, own)].public(),
        Tamper::NoSig => sig.clear(),
    }
    let mut env = pb_bytes(1, &env_key.encode_protobuf());
    env.extend(pb_bytes(2, ptype));
    env.extend(pb_bytes(3, &payload));
    env.extend(pb_bytes(5, &sig));
    BuiltRec { env, addrs, regular_own }
}

/// Three-valued independent verification of an envelope as a peer record.
#[derive(Clone, Debug, PartialEq, Eq)]
enum RecTruth {
    Valid { peer: PeerId, addrs: Vec<Multiaddr> },
    Invalid,
    /// non-canonical wire structure: the reference does not decide
    Unknown,
}

fn single(fields: &[(u32, u8, Vec<u8>)], n: u32) -> Result<Vec<u8>, ()> {
    let mut it = fields.iter().filter(|f| f.0 == n);
    match (it.next(), it.next()) {
        (None, _) => Ok(vec![]),
        (Some(f), None) if f.1 == 2 => Ok(f.2.clone()),
        _ => Err(()),
    }
}

fn indep_verify(env: &[u8]) -> RecTruth {
    let Some(f) = pb_parse(env) else { return RecTruth::Unknown };
    if f.iter().any(|x| ![1, 2, 3, 5].contains(&x.0)) {
        return RecTruth::Unknown;
    }
    let (Ok(pk), Ok(ptype), Ok(payload), Ok(sig)) = (single(&f, 1), single(&f, 2), single(&f, 3), single(&f, 5)) else { return RecTruth::Unknown };
    let Ok(key) = PublicKey::try_decode_protobuf(&pk) else { return RecTruth::Invalid };
    // "validly signed": under one of the two well-known (domain, payload type) pairs of a peer
    // record (legacy rust-libp2p format, or the standard interop format)
    let domain = if ptype == LEGACY_PTYPE {
        LEGACY_DOMAIN
    } else if ptype == STANDARD_PTYPE {
        STANDARD_DOMAIN
    } else {
        return RecTruth::Invalid;
    };
    if !key.verify(&sig_buffer(domain.as_bytes(), &ptype, &payload), &sig) {
        return RecTruth::Invalid;
    }
    let Some(pf) = pb_parse(&payload) else { return RecTruth::Unknown };
    if pf.iter().any(|x| ![1, 2, 3].contains(&x.0)) || pf.iter().any(|x| (x.0 == 2 && x.1 != 0) || (x.0 == 3 && x.1 != 2)) || pf.iter().filter(|x| x.0 == 2).count() > 1 {
        return RecTruth::Unknown;
    }
    let Ok(pid) = single(&pf, 1) else { return RecTruth::Unknown };
    let Ok(peer) = PeerId::from_bytes(&pid) else { return RecTruth::Invalid };
    if peer != key.to_peer_id() {
        return RecTruth::Invalid;
    }
    let mut addrs = vec![];
    for a in pf.iter().filter(|x| x.0 == 3) {
        let Some(af) = pb_parse(&a.2) else { return RecTruth::Unknown };
        if af.iter().any(|x| x.0 != 1) {
            return RecTruth::Unknown;
        }
        let Ok(b) = single(&af, 1) else { return RecTruth::Unknown };
        match Multiaddr::try_from(b) {
            Ok(m) => addrs.push(m),
            Err(_) => return RecTruth::Invalid,
        }
    }
    RecTruth::Valid { peer, addrs }
}

#[derive(Clone, Debug, PartialEq, Eq)]
enum KeyClass {
    Own,
    Foreign,
    Absent,
    Undecodable,
}

/// Everything the harness knows about a message it built.
struct Built {
    bytes: Vec<u8>,
    key_class: KeyClass,
    listen_parsed: Vec<Multiaddr>,
    listen_all_parse: bool,
    has_rec: bool,
    rec_addrs: Vec<Multiaddr>,
    /// independent verdict on the record bytes, relative to the connection's peer
    rec_valid_own: Option<bool>,
    rec_regular_own: bool,
    rec_env: Vec<u8>,
    agent: Option<String>,
    pver: Option<String>,
    protocols: Vec<String>,
    labels: Vec<&'static str>,
}

fn build_msg(spec: &MsgSpec, m: u8, own: usize) -> Built {
    let own_peer = pool_peer(own);
    let own_key = pool()[own].public().encode_protobuf();
    let mut labels = vec![];
    let key: Option<Vec<u8>> = match &spec.key {
        KeySpec::Own => Some(own_key.clone()),
        KeySpec::Missing => None,
        KeySpec::Other(i) => Some(pool()[resolve(&Who::Other(*i), own)].public().encode_protobuf()),
        KeySpec::Empty => Some(vec![]),
        KeySpec::Garbage(g) => Some(g.clone()),
        KeySpec::OwnMutated(ms) => Some(apply_mutations(&own_key, ms)),
    };
    let key_class = match &key {
        None => KeyClass::Absent,
        Some(k) if *k == own_key => KeyClass::Own,
        Some(k) => match PublicKey::try_decode_protobuf(k) {
            Ok(pk) if pk.to_peer_id() == own_peer => KeyClass::Own,
            Ok(_) => KeyClass::Foreign,
            Err(_) => KeyClass::Undecodable,
        },
    };
    let listen_raw: Vec<Vec<u8>> = spec.listen.iter().enumerate().map(|(k, a)| addr_bytes(a, (m, 0, k as u8), own)).collect();
    let listen_opt: Vec<Option<Multiaddr>> = listen_raw.iter().map(|b| parse_addr(b)).collect();
    let listen_all_parse = listen_opt.iter().all(|x| x.is_some());
    let listen_parsed: Vec<Multiaddr> = listen_opt.into_iter().flatten().collect();
    let (has_rec, rec_env, rec_addrs, rec_regular_own) = match &spec.rec {
        RecSpec::None => (false, vec![], vec![], false),
        RecSpec::Signed(s) => {
            let b = build_signed(s, m, own);
            (true, b.env, b.addrs, b.regular_own)
        }
        RecSpec::Garbage(g) => (true, g.clone(), vec![], false),
        RecSpec::Mutated(s, ms) => {
            let b = build_signed(s, m, own);
            let e = apply_mutations(&b.env, ms);
            let same = e == b.env;
            (true, e, b.addrs, same && b.regular_own)
        }
    };
    let rec_valid_own = if has_rec {
        match indep_verify(&rec_env) {
            RecTruth::Valid { peer, .. } => Some(peer == own_peer),
            RecTruth::Invalid => Some(false),
            RecTruth::Unknown => None,
        }
    } else {
        Some(false)
    };
    let agent = spec.agent.then(|| format!("agent-{m}"));
    let pver = spec.pver.then(|| format!("pver-{m}"));
    let protocols: Vec<String> = (0..spec.protocols % 4).map(|j| format!("/c46/{m}/{j}")).collect();
    let mut v = vec![];
    if let Some(k) = &key {
        v.extend(pb_bytes(1, k));
    }
    for a in &listen_raw {
        v.extend(pb_bytes(2, a));
    }
    for p in &protocols {
        v.extend(pb_bytes(3, p.as_bytes()));
    }
    match spec.observed % 3 {
        1 => v.extend(pb_bytes(4, &addr_base((m, 2, 0), 0).to_vec())),
        2 => v.extend(pb_bytes(4, &[0xff, 0xff, 0x03, 1])),
        _ => {}
    }
    if let Some(s) = &pver {
        v.extend(pb_bytes(5, s.as_bytes()));
    }
    if let Some(s) = &agent {
        v.extend(pb_bytes(6, s.as_bytes()));
    }
    if spec.unknown_field {
        v.extend(pb_varint(15, 7));
    }
    if has_rec {
        v.extend(pb_bytes(8, &rec_env));
    }
    // lie labels
    if let (KeySpec::Other(i), RecSpec::Signed(r)) = (&spec.key, &spec.rec) {
        if r.signer == Who::Other(*i) && r.subject == Who::Other(*i) && r.dom == Dom::Legacy && r.ptype == PType::Legacy && r.tamper == Tamper::None {
            labels.push("lie:consistent-foreign-identity(key+record)");
        }
    }
    match key_class {
        KeyClass::Foreign => labels.push("lie:key-foreign"),
        KeyClass::Absent => labels.push("key:absent"),
        KeyClass::Undecodable => labels.push("key:undecodable"),
        KeyClass::Own => {}
    }
    if let RecSpec::Signed(s) | RecSpec::Mutated(s, _) = &spec.rec {
        if rec_valid_own != Some(true) {
            if s.signer != Who::Own && s.subject == s.signer {
                labels.push("lie:rec-foreign-signer-and-subject");
            } else if s.signer != s.subject {
                labels.push("lie:rec-subject-differs-from-signer");
            }
            match s.tamper {
                Tamper::Payload { .. } => labels.push("lie:rec-tampered-payload"),
                Tamper::Sig { .. } | Tamper::NoSig => labels.push("lie:rec-tampered-signature"),
                Tamper::EnvKey(_) => labels.push("lie:rec-envelope-key-swapped"),
                Tamper::None => {}
            }
            if s.dom != Dom::Legacy {
                labels.push("lie:rec-wrong-domain");
            }
            if s.ptype != PType::Legacy {
                labels.push("lie:rec-wrong-payload-type");
            }
        }
        if matches!(spec.rec, RecSpec::Mutated(..)) {
            labels.push("rec:byte-mutated-envelope");
        }
    }
    if matches!(spec.rec, RecSpec::Garbage(_)) {
        labels.push("lie:rec-garbage-bytes");
    }
    if rec_valid_own == Some(true) {
        labels.push(if rec_regular_own { "rec:valid-own" } else { "rec:valid-own-but-irregular(interop format / same-key swap / harmless mutation)" });
    }
    if listen_parsed.iter().any(|a| names_other_peer(a, &own_peer)) {
        labels.push("lie:listen-addr-names-other-peer");
    }
    if rec_addrs.iter().any(|a| names_other_peer(a, &own_peer)) {
        labels.push("lie:record-addr-names-other-peer");
    }
    if !listen_all_parse {
        labels.push("listen:unparsable-address");
    }
    Built { bytes: v, key_class, listen_parsed, listen_all_parse, has_rec, rec_addrs, rec_valid_own, rec_regular_own, rec_env, agent, pver, protocols, labels }
}

impl Built {
    /// number of lies relative to the connection's peer (as identify reply / as push)
    fn lies(&self, push: bool, own_peer: &PeerId) -> u32 {
        let key_lie = match self.key_class {
            KeyClass::Own => false,
            KeyClass::Foreign => true,
            // a push may omit the key; an identify reply may not
            KeyClass::Absent | KeyClass::Undecodable => !push,
        };
        // pushes do not carry a record as far as the receiver is concerned, but a bad one is still a lie
        let rec_lie = self.has_rec && self.rec_valid_own != Some(true);
        let addr_lie = self.listen_parsed.iter().chain(&self.rec_addrs).any(|a| names_other_peer(a, own_peer));
        key_lie as u32 + rec_lie as u32 + addr_lie as u32
    }
}

// ---------------------------------------------------------------------------------------------
// generators

fn who_other_heavy() -> impl Strategy<Value = Who> {
    prop_oneof![1 => Just(Who::Own), 2 => (0u8..8).prop_map(Who::Other)]
}

fn who_any() -> impl Strategy<Value = Who> {
    prop_oneof![1 => Just(Who::Own), 1 => (0u8..8).prop_map(Who::Other)]
}

fn tail(honest: bool) -> BoxedStrategy<Tail> {
    if honest {
        prop_oneof![
            4 => Just(Tail::None),
            2 => Just(Tail::P2p(Who::Own)),
            1 => (0u8..8).prop_map(|r| Tail::Circuit { relay: Who::Other(r), dst: Some(Who::Own) }),
            1 => (0u8..8).prop_map(|r| Tail::Circuit { relay: Who::Other(r), dst: None }),
            1 => (0u8..8).prop_map(|r| Tail::P2pMiddle(Who::Other(r))),
        ]
        .boxed()
    } else {
        prop_oneof![
            4 => Just(Tail::None),
            2 => Just(Tail::P2p(Who::Own)),
            4 => (0u8..8).prop_map(|r| Tail::P2p(Who::Other(r))),
            2 => (who_any(), proptest::option::of(who_any())).prop_map(|(relay, dst)| Tail::Circuit { relay, dst }),
            1 => who_any().prop_map(Tail::P2pMiddle),
        ]
        .boxed()
    }
}

fn addr_spec(honest: bool) -> BoxedStrategy<AddrSpec> {
    let garb = if honest {
        Just(Garb::No).boxed()
    } else {
        prop_oneof![10 => Just(Garb::No), 1 => (0u8..40).prop_map(Garb::Trunc), 1 => proptest::collection::vec(any::<u8>(), 0..6).prop_map(Garb::Raw)].boxed()
    };
    (0u8..5, tail(honest), garb).prop_map(|(transport, tail, garb)| AddrSpec { transport, tail, garb }).boxed()
}

fn signed_spec(honest: bool) -> BoxedStrategy<SignedSpec> {
    if honest {
        (proptest::collection::vec(addr_spec(true), 0..4), 0u64..1000, any::<bool>())
            .prop_map(|(addrs, seq, lib_built)| SignedSpec { signer: Who::Own, subject: Who::Own, dom: Dom::Legacy, ptype: PType::Legacy, tamper: Tamper::None, addrs, seq, lib_built })
            .boxed()
    } else {
        // start from a valid own record and break (mostly) one thing
        let lie = prop_oneof![
            3 => (0u8..8).prop_map(|i| (Who::Other(i), Who::Other(i), Dom::Legacy, PType::Legacy, Tamper::None)),
            2 => (0u8..8).prop_map(|i| (Who::Other(i), Who::Own, Dom::Legacy, PType::Legacy, Tamper::None)),
            2 => (0u8..8).prop_map(|i| (Who::Own, Who::Other(i), Dom::Legacy, PType::Legacy, Tamper::None)),
            2 => (any::<u16>(), 1u8..=255).prop_map(|(pos, x)| (Who::Own, Who::Own, Dom::Legacy, PType::Legacy, Tamper::Payload { pos, x })),
            2 => (any::<u16>(), 1u8..=255).prop_map(|(pos, x)| (Who::Own, Who::Own, Dom::Legacy, PType::Legacy, Tamper::Sig { pos, x })),
            1 => Just((Who::Own, Who::Own, Dom::Legacy, PType::Legacy, Tamper::NoSig)),
            2 => who_other_heavy().prop_map(|w| (Who::Own, Who::Own, Dom::Legacy, PType::Legacy, Tamper::EnvKey(w))),
            1 => (0u8..8).prop_map(|i| (Who::Other(i), Who::Own, Dom::Legacy, PType::Legacy, Tamper::EnvKey(Who::Own))),
            2 => Just((Who::Own, Who::Own, Dom::Standard, PType::Standard, Tamper::None)),
            1 => Just((Who::Own, Who::Own, Dom::Standard, PType::Legacy, Tamper::None)),
            1 => Just((Who::Own, Who::Own, Dom::Empty, PType::Legacy, Tamper::None)),
            1 => Just((Who::Own, Who::Own, Dom::Legacy, PType::Standard, Tamper::None)),
            1 => Just((Who::Own, Who::Own, Dom::Legacy, PType::Garbage, Tamper::None)),
            2 => Just((Who::Own, Who::Own, Dom::Legacy, PType::Legacy, Tamper::None)),
        ];
        (lie, proptest::collection::vec(addr_spec(false), 0..4), 0u64..1000, any::<bool>())
            .prop_map(|((signer, subject, dom, ptype, tamper), addrs, seq, lib_built)| SignedSpec { signer, subject, dom, ptype, tamper, addrs, seq, lib_built })
            .boxed()
    }
}

fn rec_spec(honest: bool) -> BoxedStrategy<RecSpec> {
    if honest {
        prop_oneof![1 => Just(RecSpec::None), 2 => signed_spec(true).prop_map(RecSpec::Signed)].boxed()
    } else {
        prop_oneof![
            3 => Just(RecSpec::None),
            2 => signed_spec(true).prop_map(RecSpec::Signed),
            8 => signed_spec(false).prop_map(RecSpec::Signed),
            1 => proptest::collection::vec(any::<u8>(), 0..24).prop_map(RecSpec::Garbage),
            1 => (signed_spec(true), proptest::collection::vec(mutation(), 1..3)).prop_map(|(s, m)| RecSpec::Mutated(s, m)),
        ]
        .boxed()
    }
}

fn key_spec(honest: bool, push: bool) -> BoxedStrategy<KeySpec> {
    if honest {
        if push {
            prop_oneof![2 => Just(KeySpec::Own), 1 => Just(KeySpec::Missing)].boxed()
        } else {
            Just(KeySpec::Own).boxed()
        }
    } else {
        prop_oneof![
            12 => Just(KeySpec::Own),
            2 => Just(KeySpec::Missing),
            5 => (0u8..8).prop_map(KeySpec::Other),
            1 => Just(KeySpec::Empty),
            1 => proptest::collection::vec(any::<u8>(), 1..40).prop_map(KeySpec::Garbage),
            2 => proptest::collection::vec(mutation(), 1..3).prop_map(KeySpec::OwnMutated),
        ]
        .boxed()
    }
}

/// `honest` = every dimension honest; otherwise each dimension is drawn from its lying mix
/// independently with the given probability, so that single-lie messages are frequent.
fn msg_spec(push: bool) -> BoxedStrategy<MsgSpec> {
    prop_oneof![12 => msg_spec_mixed(push), 1 => impersonation()].boxed()
}

/// A message that is entirely consistent — for another identity: its key, a valid record signed
/// by and for it, addresses ending in its /p2p (an honest message of peer X replayed on a
/// connection to the peer under test).
fn impersonation() -> BoxedStrategy<MsgSpec> {
    (0u8..8, any::<bool>(), proptest::collection::vec(0u8..5, 0..3), proptest::collection::vec(0u8..5, 0..3), any::<bool>())
        .prop_map(|(i, with_rec, l, r, p2p)| {
            let mk = |t: &u8| AddrSpec { transport: *t, tail: if p2p { Tail::P2p(Who::Other(i)) } else { Tail::None }, garb: Garb::No };
            MsgSpec {
                key: KeySpec::Other(i),
                rec: if with_rec {
                    RecSpec::Signed(SignedSpec { signer: Who::Other(i), subject: Who::Other(i), dom: Dom::Legacy, ptype: PType::Legacy, tamper: Tamper::None, addrs: r.iter().map(mk).collect(), seq: 1, lib_built: true })
                } else {
                    RecSpec::None
                },
                listen: l.iter().map(mk).collect(),
                agent: true,
                pver: true,
                protocols: 2,
                observed: 1,
                unknown_field: false,
            }
        })
        .boxed()
}

fn msg_spec_mixed(push: bool) -> BoxedStrategy<MsgSpec> {
    let dims = (proptest::bool::weighted(0.3), proptest::bool::weighted(0.35), proptest::bool::weighted(0.3), proptest::bool::weighted(0.45));
    dims.prop_flat_map(move |(lie_key, lie_rec, lie_addr, all_honest)| {
        let (lk, lr, la) = if all_honest { (false, false, false) } else { (lie_key, lie_rec, lie_addr) };
        (
            key_spec(!lk, push),
            rec_spec(!lr),
            proptest::collection::vec(addr_spec(!la), 0..4),
            proptest::bool::weighted(0.8),
            any::<bool>(),
            0u8..4,
            prop_oneof![2 => Just(0u8), 3 => Just(1u8), 1 => Just(2u8)],
            proptest::bool::weighted(0.1),
        )
            .prop_map(|(key, rec, listen, agent, pver, protocols, observed, unknown_field)| MsgSpec { key, rec, listen, agent, pver, protocols, observed, unknown_field })
    })
    .boxed()
}

// ---------------------------------------------------------------------------------------------
// world sub-check

#[derive(Clone, Debug, Serialize, Deserialize)]
pub enum Op {
    /// new connection to pool peer `peer`
    Connect { peer: u8, inbound: bool },
    /// send a message on connection `conn`: as the identify reply if the request is unanswered
    /// and `as_push` is false, otherwise as a push
    Msg { conn: u16, as_push: bool, msg: MsgSpec, settle: bool },
    /// the remote closes connection `conn`
    Close { conn: u16 },
}

#[derive(Clone, Debug, Serialize, Deserialize)]
pub struct Case {
    /// 0 = peer cache disabled
    pub cache: u8,
    pub signed_local: bool,
    pub ops: Vec<Op>,
}

fn op() -> BoxedStrategy<Op> {
    prop_oneof![
        3 => (0u8..4, proptest::bool::weighted(0.3)).prop_map(|(peer, inbound)| Op::Connect { peer, inbound }),
        6 => (any::<u16>(), msg_spec(false), proptest::bool::weighted(0.85)).prop_map(|(conn, msg, settle)| Op::Msg { conn, as_push: false, msg, settle }),
        5 => (any::<u16>(), msg_spec(true), proptest::bool::weighted(0.85)).prop_map(|(conn, msg, settle)| Op::Msg { conn, as_push: true, msg, settle }),
        1 => any::<u16>().prop_map(|conn| Op::Close { conn }),
    ]
    .boxed()
}

fn case_strategy() -> BoxedStrategy<Case> {
    (prop_oneof![4 => Just(100u8), 1 => Just(0u8), 1 => Just(1u8)], any::<bool>(), (0u8..4, proptest::bool::weighted(0.3)), proptest::collection::vec(op(), 2..12))
        .prop_map(|(cache, signed_local, (peer, inbound), mut ops)| {
            ops.insert(0, Op::Connect { peer, inbound });
            Case { cache, signed_local, ops }
        })
        .boxed()
}

#[derive(Debug)]
enum Obs {
    Received { conn: ConnectionId, peer: PeerId, info: identify::Info },
    PeerAddr { peer: PeerId, addr: Multiaddr },
}

/// Transparent wrapper: delegates everything to the real behaviour and copies what it emits.
struct Spy {
    inner: identify::Behaviour,
    log: Arc<Mutex<Vec<Obs>>>,
}

impl NetworkBehaviour for Spy {
    type ConnectionHandler = <identify::Behaviour as NetworkBehaviour>::ConnectionHandler;
    type ToSwarm = identify::Event;

    fn handle_pending_inbound_connection(&mut self, c: ConnectionId, l: &Multiaddr, r: &Multiaddr) -> Result<(), ConnectionDenied> {
        self.inner.handle_pending_inbound_connection(c, l, r)
    }
    fn handle_established_inbound_connection(&mut self, c: ConnectionId, p: PeerId, l: &Multiaddr, r: &Multiaddr) -> Result<THandler<Self>, ConnectionDenied> {
        self.inner.handle_established_inbound_connection(c, p, l, r)
    }
    fn handle_pending_outbound_connection(&mut self, c: ConnectionId, p: Option<PeerId>, a: &[Multiaddr], e: Endpoint) -> Result<Vec<Multiaddr>, ConnectionDenied> {
        self.inner.handle_pending_outbound_connection(c, p, a, e)
    }
    fn handle_established_outbound_connection(&mut self, c: ConnectionId, p: PeerId, a: &Multiaddr, e: Endpoint, u: PortUse) -> Result<THandler<Self>, ConnectionDenied> {
        self.inner.handle_established_outbound_connection(c, p, a, e, u)
    }
    fn on_swarm_event(&mut self, event: FromSwarm) {
        self.inner.on_swarm_event(event)
    }
    fn on_connection_handler_event(&mut self, p: PeerId, c: ConnectionId, e: THandlerOutEvent<Self>) {
        self.inner.on_connection_handler_event(p, c, e)
    }
    fn poll(&mut self, cx: &mut Context<'_>) -> Poll<ToSwarm<Self::ToSwarm, THandlerInEvent<Self>>> {
        let r = self.inner.poll(cx);
        if let Poll::Ready(ev) = &r {
            match ev {
                ToSwarm::GenerateEvent(identify::Event::Received { connection_id, peer_id, info }) => {
                    self.log.lock().unwrap().push(Obs::Received { conn: *connection_id, peer: *peer_id, info: info.clone() });
                }
                ToSwarm::NewExternalAddrOfPeer { peer_id, address } => {
                    self.log.lock().unwrap().push(Obs::PeerAddr { peer: *peer_id, addr: address.clone() });
                }
                _ => {}
            }
        }
        r
    }
}

struct Conn {
    peer_idx: usize,
    peer: PeerId,
    ctl: MuxCtl,
    id: u64,
    requests: VecDeque<Duplex>,
    replied: bool,
    closed: bool,
    /// a `Received` was seen for this connection (the handler holds a remote info)
    accepted_any: bool,
    held: Vec<Duplex>,
}

struct Sent {
    conn: usize,
    b: Built,
}

type Fail = (String, serde_json::Value);

struct Run {
    w: World<Spy>,
    log: Arc<Mutex<Vec<Obs>>>,
    conns: Vec<Conn>,
    sent: Vec<Sent>,
    /// per pool peer: addresses (normalised with /p2p/<peer>) that were reported in a validated `Received`
    validated: Vec<BTreeSet<Vec<u8>>>,
    labels: BTreeSet<&'static str>,
    received_total: u32,
    one_lie_msgs: u32,
    honest_accepted: u32,
    listening: bool,
    cache_enabled: bool,
}

fn hs(proto: &str) -> Vec<u8> {
    let mut v = lp(b"/multistream/1.0.0\n");
    v.extend(lp(format!("{proto}\n").as_bytes()));
    v
}

fn write_now(s: &mut Duplex, bytes: &[u8]) -> bool {
    matches!(s.write_all(bytes).now_or_never(), Some(Ok(())))
}

fn read_now(s: &mut Duplex) -> Vec<u8> {
    let mut out = vec![];
    let mut buf = [0u8; 256];
    while let Some(Ok(n)) = s.read(&mut buf).now_or_never() {
        if n == 0 {
            break;
        }
        out.extend_from_slice(&buf[..n]);
    }
    out
}

impl Run {
    fn settle(&mut self) -> bool {
        self.w.settle(400, &mut |_, _, _| {})
    }

    fn norm(addr: &Multiaddr, peer: &PeerId) -> Option<Vec<u8>> {
        addr.clone().with_p2p(*peer).ok().map(|a| a.to_vec())
    }

    fn collect_requests(&mut self) {
        for c in self.conns.iter_mut() {
            for s in c.ctl.take_peer_inbound() {
                c.requests.push_back(s);
            }
        }
    }

    fn connect(&mut self, peer_idx: usize, inbound: bool) -> Result<(), Fail> {
        let peer = pool_peer(peer_idx);
        let k = self.conns.len() as u8;
        let before = self.w.nodes[0].events.len();
        let ctl = if inbound {
            if !self.listening {
                self.w.listen(0, "/ip4/192.0.2.250/tcp/7".parse().unwrap());
                self.listening = true;
                self.settle();
            }
            let sb: Multiaddr = format!("/ip4/192.0.2.{}/tcp/{}", k + 1, 2000 + k as u16).parse().unwrap();
            let Some(i) = self.w.incoming_phantom(0, 0, sb) else { return Err(("harness:incoming-failed".into(), json!(null))) };
            self.settle();
            self.w.resolve_incoming(i, Some(peer));
            self.w.incoming[i].ctl.clone()
        } else {
            let addr: Multiaddr = format!("/ip4/192.0.2.{}/tcp/{}", k + 1, 1000 + k as u16).parse().unwrap();
            let d = self.w.n_dials(0);
            let opts = DialOpts::peer_id(peer).addresses(vec![addr]).condition(PeerCondition::Always).build();
            if let Err(e) = self.w.dial(0, opts) {
                return Err(("harness:dial-failed".into(), json!(format!("{e:?}"))));
            }
            let Some(l) = self.w.resolve_ok(0, d, peer, None) else { return Err(("harness:resolve-failed".into(), json!(null))) };
            self.w.links[l].a.clone()
        };
        self.settle();
        let id = self.w.nodes[0].events[before..].iter().rev().find_map(|e| match e {
            Ev::Established { conn, peer: p, .. } if *p == peer => Some(*conn),
            _ => None,
        });
        let Some(id) = id else { return Err(("harness:not-established".into(), json!(format!("{:?}", &self.w.nodes[0].events[before..])))) };
        self.conns.push(Conn { peer_idx, peer, ctl, id, requests: VecDeque::new(), replied: false, closed: false, accepted_any: false, held: vec![] });
        Ok(())
    }

    /// wait (real time: the handler's first identify is triggered by a zero-length real timer)
    /// until the identify request stream of connection `c` shows up
    fn wait_request(&mut self, c: usize) -> bool {
        let start = std::time::Instant::now();
        loop {
            self.settle();
            self.collect_requests();
            if !self.conns[c].requests.is_empty() {
                return true;
            }
            if start.elapsed() > std::time::Duration::from_secs(10) {
                return false;
            }
            std::thread::sleep(std::time::Duration::from_micros(200));
        }
    }

    /// Evaluate everything the behaviour emitted since the last call.
    /// Returns the `Received` infos per connection index.
    fn drain_obs(&mut self) -> Result<Vec<(usize, identify::Info)>, Fail> {
        let obs: Vec<Obs> = std::mem::take(&mut *self.log.lock().unwrap());
        let mut got = vec![];
        for o in obs {
            match o {
                Obs::Received { conn, peer, info } => {
                    self.received_total += 1;
                    let Some(c) = self.conns.iter().position(|x| x.id == cid(conn)) else {
                        return Err(("C46:received-for-unknown-connection".into(), json!({"conn": cid(conn)})));
                    };
                    let cpeer = self.conns[c].peer;
                    let dbg = |this: &Self| json!({"conn": c, "conn_peer": cpeer.to_string(), "event_peer": peer.to_string(), "info": format!("{info:?}"), "sent_on_conn": this.sent.iter().enumerate().filter(|(_, s)| s.conn == c).map(|(i, _)| i).collect::<Vec<_>>()});
                    if peer != cpeer {
                        return Err(("C46:received-attributed-to-wrong-peer".into(), dbg(self)));
                    }
                    // (1)
                    if info.public_key.to_peer_id() != cpeer {
                        return Err(("C46:reported-key-does-not-derive-connection-peer".into(), dbg(self)));
                    }
                    // provenance of the tagged strings
                    let mut tagged: Vec<usize> = vec![];
                    if let Some(m) = info.agent_version.strip_prefix("agent-").and_then(|x| x.parse::<usize>().ok()) {
                        tagged.push(m);
                    }
                    if let Some(m) = info.protocol_version.strip_prefix("pver-").and_then(|x| x.parse::<usize>().ok()) {
                        tagged.push(m);
                    }
                    for p in &info.protocols {
                        if let Some(m) = p.as_ref().strip_prefix("/c46/").and_then(|x| x.split('/').next()).and_then(|x| x.parse::<usize>().ok()) {
                            tagged.push(m);
                        }
                    }
                    for m in tagged {
                        let Some(s) = self.sent.get(m) else { return Err(("C46:reported-string-never-sent".into(), dbg(self))) };
                        if s.conn != c {
                            return Err(("C46:info-from-another-connection-reported".into(), dbg(self)));
                        }
                        if s.b.key_class == KeyClass::Foreign {
                            return Err(("C46:content-of-foreign-key-message-reported".into(), dbg(self)));
                        }
                    }
                    // (2) + (3) per address
                    for a in &info.listen_addrs {
                        if names_other_peer(a, &cpeer) {
                            return Err(("C46:reported-listen-addr-names-other-peer".into(), dbg(self)));
                        }
                        let mut legit = false;
                        let mut why: Option<&'static str> = None;
                        for s in &self.sent {
                            let in_listen = s.b.listen_parsed.contains(a);
                            let in_rec = s.b.rec_addrs.contains(a);
                            if !in_listen && !in_rec {
                                continue;
                            }
                            if s.conn != c {
                                why.get_or_insert("C46:info-from-another-connection-reported");
                                continue;
                            }
                            if s.b.key_class == KeyClass::Foreign {
                                why = Some("C46:content-of-foreign-key-message-reported");
                                continue;
                            }
                            if in_listen || s.b.rec_valid_own != Some(false) {
                                legit = true;
                            } else {
                                why = Some("C46:addresses-of-unverified-record-reported");
                            }
                        }
                        if !legit {
                            return Err((why.unwrap_or("C46:untraceable-listen-addr-reported").into(), dbg(self)));
                        }
                    }
                    if let Some(env) = &info.signed_peer_record {
                        match indep_verify(&env.clone().into_protobuf_encoding()) {
                            RecTruth::Valid { peer: rp, addrs } if rp == cpeer => {
                                if addrs.iter().any(|a| names_other_peer(a, &cpeer)) {
                                    // the statement speaks about listen addresses; the envelope is the peer's own signed statement
                                    self.labels.insert("reported-own-record-embeds-/p2p/other-address(not asserted)");
                                }
                            }
                            RecTruth::Unknown => {}
                            _ => return Err(("C46:reported-signed-record-not-valid-for-peer".into(), dbg(self))),
                        }
                    }
                    for a in &info.listen_addrs {
                        if let Some(n) = Self::norm(a, &cpeer) {
                            self.validated[self.conns[c].peer_idx].insert(n);
                        }
                    }
                    self.conns[c].accepted_any = true;
                    got.push((c, info));
                }
                Obs::PeerAddr { peer, addr } => {
                    let Some(pi) = (0..pool().len()).find(|i| pool_peer(*i) == peer) else {
                        return Err(("C46:peer-address-for-unknown-peer".into(), json!({"peer": peer.to_string(), "addr": addr.to_string()})));
                    };
                    if names_other_peer(&addr, &peer) {
                        return Err(("C46:peer-address-names-other-peer".into(), json!({"peer": peer.to_string(), "addr": addr.to_string()})));
                    }
                    let ok = Self::norm(&addr, &peer).map(|n| self.validated[pi].contains(&n)).unwrap_or(false);
                    if !ok {
                        return Err(("C46:peer-address-not-from-authenticated-info".into(), json!({"peer": peer.to_string(), "addr": addr.to_string()})));
                    }
                    self.labels.insert("peer-address-emitted");
                }
            }
        }
        Ok(got)
    }

    /// The address book that feeds later dials.
    fn check_cache(&mut self) -> Result<(), Fail> {
        for pi in 0..pool().len() {
            let peer = pool_peer(pi);
            let addrs = self.w.nodes[0]
                .swarm
                .behaviour_mut()
                .inner
                .handle_pending_outbound_connection(ConnectionId::new_unchecked(usize::MAX - 46), Some(peer), &[], Endpoint::Dialer)
                .unwrap_or_default();
            if !addrs.is_empty() {
                self.labels.insert("dial-cache-nonempty");
                if !self.cache_enabled {
                    self.labels.insert("cache-disabled-but-nonempty");
                }
            }
            for a in addrs {
                if names_other_peer(&a, &peer) {
                    return Err(("C46:cached-addr-names-other-peer".into(), json!({"peer": peer.to_string(), "addr": a.to_string()})));
                }
                let ok = Self::norm(&a, &peer).map(|n| self.validated[pi].contains(&n)).unwrap_or(false);
                if !ok {
                    return Err(("C46:cached-addr-not-from-authenticated-info".into(), json!({"peer": peer.to_string(), "addr": a.to_string()})));
                }
            }
        }
        Ok(())
    }

    fn send(&mut self, c: usize, as_push: bool, spec: &MsgSpec, settle: bool) -> Result<Option<String>, Fail> {
        let m = self.sent.len();
        if m >= 250 {
            return Ok(None);
        }
        let push = as_push || self.conns[c].replied;
        let own = self.conns[c].peer_idx;
        let own_peer = self.conns[c].peer;
        let b = build_msg(spec, m as u8, own);
        // harness self-check: a record that is regular by construction must verify independently
        if b.rec_regular_own && b.rec_valid_own != Some(true) {
            return Err(("harness:regular-record-does-not-verify".into(), json!(format!("{spec:?}"))));
        }
        for l in &b.labels {
            self.labels.insert(l);
        }
        let lies = b.lies(push, &own_peer);
        let wire = lp(&b.bytes);
        let oversize = b.bytes.len() > MAX_MSG;
        // drain what happened before, so that the events after this message can be attributed
        if settle {
            self.settle();
            self.drain_obs()?;
        }
        let had_info = self.conns[c].accepted_any;
        let mut stream;
        if push {
            stream = self.conns[c].ctl.remote_open();
            let mut bytes = hs("/ipfs/id/push/1.0.0");
            bytes.extend(&wire);
            write_now(&mut stream, &bytes);
            self.labels.insert(if had_info { "push-after-identify" } else { "push-before-identify" });
        } else {
            if self.conns[c].requests.is_empty() && !self.wait_request(c) {
                return Ok(Some("identify request stream did not appear within 10 s".into()));
            }
            stream = self.conns[c].requests.pop_front().unwrap();
            self.settle();
            let proposal = read_now(&mut stream);
            if proposal != hs("/ipfs/id/1.0.0") {
                return Err(("harness:unexpected-outbound-proposal".into(), json!(String::from_utf8_lossy(&proposal))));
            }
            let mut bytes = hs("/ipfs/id/1.0.0");
            bytes.extend(&wire);
            write_now(&mut stream, &bytes);
            self.conns[c].replied = true;
            self.labels.insert("identify-reply");
        }
        let _ = stream.close().now_or_never();
        self.conns[c].held.push(stream);
        let honest = lies == 0
            && !oversize
            && b.listen_all_parse
            && (!b.has_rec || b.rec_regular_own)
            && match b.key_class {
                KeyClass::Own => true,
                KeyClass::Absent => push,
                _ => false,
            };
        if lies == 1 {
            self.one_lie_msgs += 1;
            self.labels.insert("msg:exactly-one-lie");
        } else if lies == 0 {
            self.labels.insert("msg:no-lie");
        } else {
            self.labels.insert("msg:several-lies");
        }
        let key_class = b.key_class.clone();
        let exp_listen: Vec<Multiaddr> = if !push && b.has_rec { b.rec_addrs.clone() } else { b.listen_parsed.clone() };
        let exp_agent = b.agent.clone();
        let has_rec = b.has_rec;
        let rec_bad = b.has_rec && b.rec_valid_own == Some(false);
        let rec_env = b.rec_env.clone();
        self.sent.push(Sent { conn: c, b });
        if !settle {
            self.labels.insert("burst(no settle between messages)");
            return Ok(None);
        }
        if !self.settle() {
            return Ok(Some("world did not settle".into()));
        }
        let got = self.drain_obs()?;
        self.check_cache()?;
        let mine: Vec<&identify::Info> = got.iter().filter(|(cc, _)| *cc == c).map(|(_, i)| i).collect();
        let closed = self.conns[c].closed;
        if mine.is_empty() {
            self.labels.insert("outcome:not-reported");
            if key_class == KeyClass::Foreign {
                self.labels.insert("outcome:foreign-key-message-discarded");
            }
        } else {
            self.labels.insert("outcome:reported");
            if rec_bad && key_class == KeyClass::Own && !push {
                self.labels.insert("outcome:bad-record-ignored-fallback-to-listenAddrs");
            }
            if push && key_class == KeyClass::Undecodable {
                self.labels.insert("outcome:push-with-undecodable-key-merged-under-old-key");
            }
        }
        // acceptance of fully honest messages (anti-vacuity)
        if honest && !closed && (!push || had_info) {
            let d = |this: &Self| json!({"msg": m, "push": push, "spec": format!("{spec:?}"), "got": format!("{mine:?}"), "conn_peer": own_peer.to_string(), "events": format!("{:?}", this.w.nodes[0].events.iter().rev().take(4).collect::<Vec<_>>())});
            if mine.len() != 1 {
                return Err(("C46:honest-message-not-reported-exactly-once".into(), d(self)));
            }
            let info = mine[0];
            let mut ok = info.public_key.to_peer_id() == own_peer;
            if let Some(a) = &exp_agent {
                ok &= &info.agent_version == a;
            }
            if !push || !exp_listen.is_empty() {
                ok &= info.listen_addrs == exp_listen;
            }
            if !push {
                ok &= info.signed_peer_record.is_some() == has_rec;
                if let Some(env) = &info.signed_peer_record {
                    ok &= indep_verify(&env.clone().into_protobuf_encoding()) == indep_verify(&rec_env);
                }
            }
            if !ok {
                return Err(("C46:honest-message-reported-with-wrong-content".into(), d(self)));
            }
            self.honest_accepted += 1;
            self.labels.insert(if push { "honest-push-accepted" } else { "honest-identify-accepted" });
        } else if push && !had_info && !mine.is_empty() {
            // a push cannot be merged into nothing; whatever was reported passed the safety oracle
            self.labels.insert("outcome:push-reported-without-prior-identify");
        }
        Ok(None)
    }
}

fn run_world(case: &Case) -> Outcome {
    let log: Arc<Mutex<Vec<Obs>>> = Default::default();
    let cache = case.cache as usize;
    let signed_local = case.signed_local;
    let lg = log.clone();
    let w = World::new(
        &[local_key().public().to_peer_id()],
        move |_, _| {
            let cfg = if signed_local { identify::Config::new_with_signed_peer_record("c46/1".into(), local_key()) } else { identify::Config::new("c46/1".into(), local_key().public()) };
            Spy { inner: identify::Behaviour::new(cfg.with_interval(std::time::Duration::from_secs(3600)).with_cache_size(cache)), log: lg.clone() }
        },
        |c| c.with_idle_connection_timeout(std::time::Duration::from_secs(3600)),
    );
    let mut r = Run {
        w,
        log,
        conns: vec![],
        sent: vec![],
        validated: vec![BTreeSet::new(); pool().len()],
        labels: BTreeSet::new(),
        received_total: 0,
        one_lie_msgs: 0,
        honest_accepted: 0,
        listening: false,
        cache_enabled: cache > 0,
    };
    let res = (|| -> Result<Option<String>, Fail> {
        for op in &case.ops {
            match op {
                Op::Connect { peer, inbound } => {
                    if r.conns.len() < 5 {
                        // peers 0..3 of the pool are connection targets; the rest only appear in lies
                        r.connect(*peer as usize % 4, *inbound)?;
                        if *inbound {
                            r.labels.insert("inbound-connection");
                        }
                    }
                }
                Op::Msg { conn, as_push, msg, settle } => {
                    let open: Vec<usize> = (0..r.conns.len()).filter(|i| !r.conns[*i].closed).collect();
                    if open.is_empty() {
                        continue;
                    }
                    let c = open[pick(*conn, open.len())];
                    if let Some(inc) = r.send(c, *as_push, msg, *settle)? {
                        return Ok(Some(inc));
                    }
                }
                Op::Close { conn } => {
                    let open: Vec<usize> = (0..r.conns.len()).filter(|i| !r.conns[*i].closed).collect();
                    if open.is_empty() {
                        continue;
                    }
                    let c = open[pick(*conn, open.len())];
                    r.conns[c].ctl.remote_close();
                    r.conns[c].closed = true;
                    r.labels.insert("connection-closed");
                    r.settle();
                    r.drain_obs()?;
                }
            }
        }
        if !r.settle() {
            return Ok(Some("world did not settle".into()));
        }
        r.drain_obs()?;
        r.check_cache()?;
        Ok(None)
    })();
    let mut peers_seen = BTreeSet::new();
    let mut multi = false;
    for c in &r.conns {
        if !peers_seen.insert(c.peer_idx) {
            multi = true;
        }
    }
    if multi {
        r.labels.insert("several-connections-to-one-peer");
    }
    if peers_seen.len() > 1 {
        r.labels.insert("several-remote-peers");
    }
    let labels: Vec<&'static str> = r.labels.iter().cloned().collect();
    let nontrivial = r.one_lie_msgs > 0 && r.honest_accepted > 0;
    drop(r);
    release_phantoms();
    match res {
        Err((sig, detail)) => Outcome::fail(sig, detail),
        Ok(Some(reason)) => Outcome::Inconclusive(reason),
        Ok(None) => Outcome::pass_l(nontrivial, labels),
    }
}

// ---------------------------------------------------------------------------------------------
// parse sub-check

#[derive(Clone, Debug, Serialize, Deserialize)]
pub enum Payload {
    /// message built from the spec
    Spec,
    /// the built message with byte mutations
    Mutated(Vec<Mutation>),
    /// arbitrary bytes instead of a message
    Raw(Vec<u8>),
}

#[derive(Clone, Debug, Serialize, Deserialize)]
pub struct ParseCase {
    pub peer: u8,
    pub push: bool,
    pub msg: MsgSpec,
    pub payload: Payload,
    /// prior (honest) identify the push is merged into
    pub prior: MsgSpec,
    /// omit / corrupt the length prefix
    pub frame: u8,
}

fn parse_case() -> BoxedStrategy<ParseCase> {
    any::<bool>()
        .prop_flat_map(|push| {
            (
                0u8..9,
                Just(push),
                msg_spec(push),
                prop_oneof![
                    6 => Just(Payload::Spec),
                    3 => proptest::collection::vec(mutation(), 1..4).prop_map(Payload::Mutated),
                    1 => proptest::collection::vec(any::<u8>(), 0..96).prop_map(Payload::Raw),
                ],
                msg_spec(false),
                prop_oneof![12 => Just(0u8), 1 => Just(1u8), 1 => Just(2u8)],
            )
        })
        .prop_map(|(peer, push, msg, payload, prior, frame)| ParseCase { peer, push, msg, payload, prior, frame })
        .boxed()
}

fn frame(body: &[u8], how: u8) -> Vec<u8> {
    match how {
        1 => body.to_vec(),
        2 => {
            let mut v = uvarint(body.len() as u64 + 3);
            v.extend_from_slice(body);
            v
        }
        _ => lp(body),
    }
}

fn recv_info(bytes: Vec<u8>) -> Result<Option<Result<identify::Info, String>>, String> {
    vcore::runner::catch(move || identify::verif::recv_identify(Cursor::new(bytes)).now_or_never().map(|r| r.map_err(|e| format!("{e:?}"))))
}

fn recv_push(bytes: Vec<u8>) -> Result<Option<Result<identify::verif::PushInfo, String>>, String> {
    vcore::runner::catch(move || identify::verif::recv_push(Cursor::new(bytes)).now_or_never().map(|r| r.map_err(|e| format!("{e:?}"))))
}

fn run_parse(case: &ParseCase) -> Outcome {
    let own = case.peer as usize % pool().len();
    let own_peer = pool_peer(own);
    let mut labels: BTreeSet<&'static str> = BTreeSet::new();
    let b = build_msg(&case.msg, 1, own);
    if b.rec_regular_own && b.rec_valid_own != Some(true) {
        return Outcome::fail("harness:regular-record-does-not-verify", json!(format!("{:?}", case.msg)));
    }
    let (body, exact) = match &case.payload {
        Payload::Spec => (b.bytes.clone(), true),
        Payload::Mutated(ms) => {
            let x = apply_mutations(&b.bytes, ms);
            let same = x == b.bytes;
            (x, same)
        }
        Payload::Raw(r) => (r.clone(), false),
    };
    let exact = exact && case.frame == 0 && body.len() <= MAX_MSG;
    labels.insert(match (&case.payload, exact) {
        (_, true) => "payload:as-built",
        (Payload::Raw(_), _) => "payload:arbitrary-bytes",
        _ => "payload:mutated-or-misframed",
    });
    for l in &b.labels {
        labels.insert(l);
    }
    let wire = frame(&body, case.frame);
    let mut handler = identify::verif::new_handler(own_peer, local_key().public());

    // the info the connection already holds when a push arrives: an honest identify reply
    let mut prior_info: Option<identify::Info> = None;
    if case.push {
        let mut p = case.prior.clone();
        p.key = KeySpec::Own;
        let pb = build_msg(&p, 0, own);
        match recv_info(lp(&pb.bytes)) {
            Err(p) => return Outcome::fail("C46:panic-in-receive-path", json!({"panic": p})),
            Ok(None) => return Outcome::fail("harness:receive-pending-on-cursor", json!(null)),
            Ok(Some(Ok(i))) => {
                if handler.verif_handle_incoming_info(&i) {
                    prior_info = Some(i);
                }
            }
            Ok(Some(Err(_))) => {}
        }
        if prior_info.is_none() {
            labels.insert("push:no-prior-info");
        }
    }

    // receive
    let info: Option<identify::Info> = if case.push {
        match recv_push(wire.clone()) {
            Err(p) => return Outcome::fail("C46:panic-in-receive-path", json!({"panic": p, "wire": format!("{wire:02x?}")})),
            Ok(None) => return Outcome::fail("harness:receive-pending-on-cursor", json!(null)),
            Ok(Some(Err(_))) => {
                labels.insert("recv:error");
                None
            }
            Ok(Some(Ok(pi))) => {
                // `merge` is the public API the handler applies to the info it holds
                match prior_info.clone() {
                    Some(mut i) => match vcore::runner::catch(move || {
                        i.merge(pi);
                        i
                    }) {
                        Ok(i) => Some(i),
                        Err(p) => return Outcome::fail("C46:panic-in-merge", json!({"panic": p})),
                    },
                    None => None,
                }
            }
        }
    } else {
        match recv_info(wire.clone()) {
            Err(p) => return Outcome::fail("C46:panic-in-receive-path", json!({"panic": p, "wire": format!("{wire:02x?}")})),
            Ok(None) => return Outcome::fail("harness:receive-pending-on-cursor", json!(null)),
            Ok(Some(Err(_))) => {
                labels.insert("recv:error");
                None
            }
            Ok(Some(Ok(i))) => Some(i),
        }
    };
    let honest = exact
        && b.lies(case.push, &own_peer) == 0
        && b.listen_all_parse
        && (!b.has_rec || b.rec_regular_own)
        && match b.key_class {
            KeyClass::Own => true,
            KeyClass::Absent => case.push,
            _ => false,
        }
        && (!case.push || prior_info.is_some());
    let lies = b.lies(case.push, &own_peer);
    let Some(info) = info else {
        if honest {
            return Outcome::fail("C46:honest-message-not-decoded", json!({"case": format!("{case:?}")}));
        }
        let v: Vec<&'static str> = labels.into_iter().collect();
        return Outcome::pass_l(false, v);
    };
    let d = |what: &str| json!({"what": what, "info": format!("{info:?}"), "own_peer": own_peer.to_string(), "case": format!("{case:?}")});

    // protocol-level: a record is only kept / its addresses only used if it verifies for the
    // peer named by the message's own public key (reply path)
    if !case.push {
        let key_peer = info.public_key.to_peer_id();
        if let Some(env) = &info.signed_peer_record {
            match indep_verify(&env.clone().into_protobuf_encoding()) {
                RecTruth::Valid { peer, .. } if peer == key_peer => {}
                RecTruth::Unknown => {}
                _ => return Outcome::fail("C46:parsed-signed-record-not-valid-for-key", d("signed_peer_record kept")),
            }
        }
        if exact {
            for a in &info.listen_addrs {
                let in_listen = b.listen_parsed.contains(a);
                let in_rec = b.rec_addrs.contains(a);
                if !in_listen && !in_rec {
                    return Outcome::fail("C46:untraceable-listen-addr-parsed", d(&a.to_string()));
                }
                if !in_listen {
                    // the record must verify for the peer of the key the message carries
                    let ok = match indep_verify(&b.rec_env) {
                        RecTruth::Valid { peer, .. } => peer == key_peer,
                        RecTruth::Invalid => false,
                        RecTruth::Unknown => true,
                    };
                    if !ok {
                        return Outcome::fail("C46:addresses-of-unverified-record-parsed", d(&a.to_string()));
                    }
                }
            }
        }
    }

    // handler acceptance test (real), then the behaviour's filter (real)
    let accepted = match vcore::runner::catch(move || {
        let a = handler.verif_handle_incoming_info(&info);
        (a, info)
    }) {
        Ok((a, i)) => (a, i),
        Err(p) => return Outcome::fail("C46:panic-in-acceptance-test", json!({"panic": p})),
    };
    let (accepted, info) = accepted;
    let d = |what: &str| json!({"what": what, "info": format!("{info:?}"), "own_peer": own_peer.to_string(), "case": format!("{case:?}")});
    if accepted {
        labels.insert("accepted");
        if info.public_key.to_peer_id() != own_peer {
            return Outcome::fail("C46:reported-key-does-not-derive-connection-peer", d("accepted"));
        }
        if exact && b.key_class == KeyClass::Foreign {
            return Outcome::fail("C46:content-of-foreign-key-message-reported", d("accepted"));
        }
        let mut reported = info.listen_addrs.clone();
        let dropped: Vec<Multiaddr> = reported.iter().filter(|a| !identify::verif::multiaddr_matches_peer_id(a, &own_peer)).cloned().collect();
        reported.retain(|a| identify::verif::multiaddr_matches_peer_id(a, &own_peer));
        if !dropped.is_empty() {
            labels.insert("filter:dropped-foreign-p2p-addr");
        }
        for a in &reported {
            if names_other_peer(a, &own_peer) {
                return Outcome::fail("C46:reported-listen-addr-names-other-peer", d(&a.to_string()));
            }
        }
        // the filter must not eat addresses the statement allows (keeps the oracle non-vacuous)
        for a in &dropped {
            if !names_other_peer(a, &own_peer) {
                return Outcome::fail("C46:filter-dropped-an-address-of-the-peer", d(&a.to_string()));
            }
        }
        if exact && !case.push {
            for a in &reported {
                if !b.listen_parsed.contains(a) && b.rec_valid_own == Some(false) {
                    return Outcome::fail("C46:addresses-of-unverified-record-reported", d(&a.to_string()));
                }
            }
            if let Some(env) = &info.signed_peer_record {
                match indep_verify(&env.clone().into_protobuf_encoding()) {
                    RecTruth::Valid { peer, .. } if peer == own_peer => {}
                    RecTruth::Unknown => {}
                    _ => return Outcome::fail("C46:reported-signed-record-not-valid-for-peer", d("record")),
                }
            }
        }
        if honest {
            let exp: Vec<Multiaddr> = if !case.push && b.has_rec { b.rec_addrs.clone() } else { b.listen_parsed.clone() };
            let mut ok = true;
            if !case.push || !exp.is_empty() {
                ok &= reported == exp;
            }
            if let Some(a) = &b.agent {
                ok &= &info.agent_version == a;
            }
            if let Some(a) = &b.pver {
                ok &= &info.protocol_version == a;
            }
            if !case.push || !b.protocols.is_empty() {
                ok &= info.protocols.iter().map(|p| p.to_string()).collect::<Vec<_>>() == b.protocols;
            }
            if !ok {
                return Outcome::fail("C46:honest-message-reported-with-wrong-content", d("content"));
            }
            labels.insert("honest-accepted");
        }
    } else {
        labels.insert("rejected");
        if honest {
            return Outcome::fail("C46:honest-message-rejected", d("rejected"));
        }
    }
    let nontrivial = exact && (lies == 1 || (honest && accepted));
    if lies == 1 && exact {
        labels.insert("msg:exactly-one-lie");
    }
    let v: Vec<&'static str> = labels.into_iter().collect();
    Outcome::pass_l(nontrivial, v)
}

pub fn run(ctx: &mut Ctx) {
    ctx.assume("world: transport, muxer and every remote peer are simulated (simswarm); the peer id a connection is authenticated as is chosen by the harness; the identify behaviour and handler, the Swarm, multistream-select and the prost codec are the production code; the spy wrapper only copies what the behaviour returns from poll");
    ctx.assume("libp2p_identity key decoding / signature verification and multiaddr parsing are trusted (used by the independent record verifier); envelope and record framing, domain separation and the identify protobuf are re-implemented with vcore::refcodec");
    ctx.assume("'names a different peer' = the last component is /p2p/<X>, X != the connection's peer (DESIGN §9); pushes that omit the key or carry an undecodable key are merged under the already authenticated key, which the statement allows");
    ctx.check::<Case>(
        "world",
        "1 identify swarm, 1..5 connections (out/in, several per peer) to 4 of 9 pool identities, 2..12 ops; each message: key in {own, other, missing, empty, garbage, mutated own}, record in {none, valid own, foreign signer, subject != signer, tampered payload/signature, swapped envelope key, wrong domain / payload type, garbage, byte-mutated}, addresses with /p2p/own, /p2p/other, relay and unparsable forms, sent as the identify reply or as a push, with or without settling in between; non-trivial = the case contains a message with exactly one lie AND a fully honest message that was reported with exactly the sent content",
        ctx.n(10_000, 250_000),
        &case_strategy,
        &run_world,
    );
    ctx.check::<ParseCase>(
        "parse",
        "one identify reply or push (merged into an accepted honest prior) built like in `world`, optionally byte-mutated, mis-framed or replaced by arbitrary bytes, through recv_identify/recv_push -> Handler::handle_incoming_info -> multiaddr_matches_peer_id filter (cfg(libp2p_verif) shims); never panics; non-trivial = unmodified message with exactly one lie, or fully honest message accepted with exactly the sent content",
        ctx.n(40_000, 1_000_000),
        &parse_case,
        &run_parse,
    );
}
