//! C47 — relay resource limits hold.
//!
//! Statement: a relay never holds more active reservations for one peer than
//! `max_reservations_per_peer` or in total than `max_reservations`, and never has more circuits
//! involving one peer than `max_circuits_per_peer` or in total than `max_circuits`, for any sequence
//! of reservation and circuit requests.
//!
//! Two sub-checks:
//! * `behaviour-direct`: the real `relay::Behaviour` is driven without a Swarm by generated, legal
//!   sequences of connection and handler events (a small model of the relay `Handler`'s per-request
//!   life cycle produces them, with per-connection FIFO queues in both directions so that every
//!   interleaving a Swarm can produce is reachable, including reservation expiry).
//! * `world`: a real relay Swarm over the simulated transport; the harness plays 2–4 client peers by
//!   hand on the wire (multistream-select + length-prefixed protobuf) and the oracle only uses the
//!   status codes the relay sent and the stream/connection lifetimes the harness controls.
//!
//! In both, the oracle is a count of reservations/circuits that are *certainly* active (the relay
//! told the client OK and nothing has ended them), which is a lower bound of what the relay holds;
//! asserting the bound on it can therefore not raise a false alarm because of bookkeeping delays.

use futures::task::noop_waker;
use futures::Stream as _;
use libp2p_core::{ConnectedPoint, Multiaddr};
use libp2p_identity::PeerId;
use libp2p_relay as relay;
use libp2p_swarm::derive_prelude::Either;
use libp2p_swarm::{
    behaviour::{ConnectionClosed, ConnectionEstablished, FromSwarm},
    ConnectionId, NetworkBehaviour, NotifyHandler, Stream, StreamProtocol, ToSwarm,
};
use multiaddr::Protocol;
use proptest::prelude::*;
use relay::verif::{CircuitReq, HandlerEvent, HandlerIn, ProtoStatus, ReservationReq};
use relay::CircuitId;
use serde::{Deserialize, Serialize};
use serde_json::{json, Value};
use simswarm::net::MuxCtl;
use simswarm::world::{release_phantoms, Ev, World};
use std::cell::RefCell;
use std::collections::{BTreeSet, VecDeque};
use std::pin::Pin;
use std::task::{Context, Poll};
use std::time::Duration;
use vcore::refcodec::{lp, pb_bytes, pb_parse, pb_varint, read_uvarint};
use vcore::simio::Duplex;
use vcore::{gen, pick, Ctx, Outcome};

// ---------------------------------------------------------------------------------------------
// shared: limits, the lower-bound oracle

#[derive(Clone, Copy, Debug, Serialize, Deserialize)]
pub struct Limits {
    pub max_res: u8,
    pub max_res_pp: u8,
    pub max_circ: u8,
    pub max_circ_pp: u8,
}

fn limits_strategy(hi: u8) -> impl Strategy<Value = Limits> {
    (1..=hi, 1..=hi - 1, 1..=hi, 1..=hi - 1).prop_map(|(max_res, max_res_pp, max_circ, max_circ_pp)| Limits { max_res, max_res_pp, max_circ, max_circ_pp })
}

fn relay_config(l: Limits) -> relay::Config {
    relay::Config {
        max_reservations: l.max_res as usize,
        max_reservations_per_peer: l.max_res_pp as usize,
        reservation_duration: Duration::from_secs(3600),
        reservation_rate_limiters: vec![],
        max_circuits: l.max_circ as usize,
        max_circuits_per_peer: l.max_circ_pp as usize,
        max_circuit_duration: Duration::from_secs(3600),
        max_circuit_bytes: 1 << 30,
        circuit_src_rate_limiters: vec![],
    }
}

const RELAY: usize = 0;
const NPEERS: usize = 4;
fn client(i: usize) -> PeerId {
    gen::peer(1 + (i % NPEERS))
}
fn relay_addr() -> Multiaddr {
    Multiaddr::empty().with(Protocol::Memory(1000))
}
fn client_addr(peer: usize, k: usize) -> Multiaddr {
    Multiaddr::empty().with(Protocol::Memory(2000 + 100 * peer as u64 + k as u64))
}

/// Destination of a CONNECT: `dst < NPEERS` names the peer; larger values pick among the peers that
/// hold a reservation right now (falls back to `dst % NPEERS` when there is none).
fn choose_dst(dst: u8, reserved: &[usize]) -> usize {
    let d = dst as usize;
    if d >= NPEERS && !reserved.is_empty() {
        reserved[(d - NPEERS) % reserved.len()]
    } else {
        d % NPEERS
    }
}

/// What is certainly active right now, as (peer index) lists.
#[derive(Default, Debug)]
struct Active {
    /// one entry per active reservation: the reserving peer
    res: Vec<usize>,
    /// one entry per established circuit: (source peer, destination peer)
    circ: Vec<(usize, usize)>,
    /// peers that hold a reservation confirmed by a request that was in flight when the previous
    /// reservation of the same connection expired
    raced: BTreeSet<usize>,
    /// the most recently established circuit (source, destination), if it is still alive
    newest: Option<(usize, usize)>,
}

#[derive(Default)]
struct Reach {
    labels: BTreeSet<&'static str>,
}

/// The statement, literally. Returns the first violated bound.
fn check_limits(l: Limits, a: &Active, reach: &mut Reach) -> Option<(String, Value)> {
    let mut res_pp = [0usize; NPEERS];
    for p in &a.res {
        res_pp[*p] += 1;
    }
    let mut circ_pp = [0usize; NPEERS];
    for (s, d) in &a.circ {
        circ_pp[*s] += 1;
        if d != s {
            circ_pp[*d] += 1;
        }
    }
    for p in 0..NPEERS {
        if res_pp[p] == l.max_res_pp as usize {
            reach.labels.insert("reach:res-per-peer-at-max");
        }
        if circ_pp[p] == l.max_circ_pp as usize {
            reach.labels.insert("reach:circ-per-peer-at-max");
        }
    }
    if a.res.len() == l.max_res as usize {
        reach.labels.insert("reach:res-total-at-max");
    }
    if a.circ.len() == l.max_circ as usize {
        reach.labels.insert("reach:circ-total-at-max");
    }
    let counts = json!({"reservations_per_peer": res_pp, "reservations_total": a.res.len(), "circuits_per_peer": circ_pp, "circuits_total": a.circ.len()});
    for p in 0..NPEERS {
        if res_pp[p] > l.max_res_pp as usize {
            let sig = if a.raced.contains(&p) { "C47:reservations-per-peer-exceeded-after-expiry-during-accept" } else { "C47:reservations-per-peer-exceeded" };
            return Some((sig.into(), json!({"peer": p, "counts": counts})));
        }
    }
    if a.res.len() > l.max_res as usize {
        let sig = if !a.raced.is_empty() { "C47:reservations-total-exceeded-after-expiry-during-accept" } else { "C47:reservations-total-exceeded" };
        return Some((sig.into(), json!({"counts": counts})));
    }
    for p in 0..NPEERS {
        if circ_pp[p] > l.max_circ_pp as usize {
            let role = match a.newest {
                Some((s, _)) if s == p => "source",
                Some((_, d)) if d == p => "destination",
                _ => "other",
            };
            return Some((format!("C47:circuits-per-peer-exceeded-{role}"), json!({"peer": p, "role_in_newest_circuit": role, "counts": counts})));
        }
    }
    if a.circ.len() > l.max_circ as usize {
        return Some(("C47:circuits-total-exceeded".into(), json!({"counts": counts})));
    }
    None
}

// ---------------------------------------------------------------------------------------------
// a source of real `libp2p_swarm::Stream` values (they can only be made by a Connection): a
// thread-local Swarm running `libp2p_stream::Behaviour` with one phantom connection. The relay
// behaviour never reads or writes the streams it is handed, it only moves them around.

const MINT_PROTO: &str = "/c47/mint";

fn ms_line(s: &str) -> Vec<u8> {
    let mut line = s.as_bytes().to_vec();
    line.push(b'\n');
    lp(&line)
}

fn write_all(d: &mut Duplex, data: &[u8]) -> bool {
    use futures::AsyncWrite;
    let w = noop_waker();
    let mut cx = Context::from_waker(&w);
    let mut off = 0;
    let mut spins = 0;
    while off < data.len() {
        match Pin::new(&mut *d).poll_write(&mut cx, &data[off..]) {
            Poll::Ready(Ok(n)) if n > 0 => off += n,
            Poll::Ready(_) => return false,
            Poll::Pending => {
                spins += 1;
                if spins > 1000 {
                    return false;
                }
            }
        }
    }
    true
}

/// Move everything readable right now into `buf`; true when the peer's direction has ended.
fn drain_into(d: &mut Duplex, buf: &mut Vec<u8>) -> bool {
    use futures::AsyncRead;
    let w = noop_waker();
    let mut cx = Context::from_waker(&w);
    let mut tmp = [0u8; 4096];
    loop {
        match Pin::new(&mut *d).poll_read(&mut cx, &mut tmp) {
            Poll::Ready(Ok(0)) | Poll::Ready(Err(_)) => return true,
            Poll::Ready(Ok(n)) => buf.extend_from_slice(&tmp[..n]),
            Poll::Pending => return false,
        }
    }
}

/// The complete unsigned-varint-prefixed frames at the start of `buf`.
fn frames(buf: &[u8]) -> Vec<Vec<u8>> {
    let mut out = vec![];
    let mut b = buf;
    while let Some((l, n)) = read_uvarint(b) {
        let l = l as usize;
        if b.len() < n + l {
            break;
        }
        out.push(b[n..n + l].to_vec());
        b = &b[n + l..];
    }
    out
}

struct Mint {
    world: World<libp2p_stream::Behaviour>,
    ctl: MuxCtl,
    incoming: libp2p_stream::IncomingStreams,
    made: usize,
}

impl Mint {
    fn new() -> Option<Mint> {
        let peers = [gen::peer(RELAY)];
        let mut world: World<libp2p_stream::Behaviour> = World::new(&peers, |_, _| libp2p_stream::Behaviour::new(), |c| c.with_idle_connection_timeout(Duration::from_secs(86_400)));
        let mut control = world.nodes[0].swarm.behaviour().new_control();
        let incoming = control.accept(StreamProtocol::new(MINT_PROTO)).ok()?;
        if !world.listen(0, relay_addr()) {
            return None;
        }
        world.settle(100, &mut |_, _, _| {});
        let k = world.incoming_phantom(0, 0, client_addr(9, 0))?;
        world.settle(100, &mut |_, _, _| {});
        if !world.resolve_incoming(k, Some(gen::peer(7))) {
            return None;
        }
        world.settle(100, &mut |_, _, _| {});
        let ctl = world.incoming[k].ctl.clone();
        Some(Mint { world, ctl, incoming, made: 0 })
    }

    fn mint(&mut self) -> Option<Stream> {
        let mut d = self.ctl.remote_open();
        let mut hello = ms_line("/multistream/1.0.0");
        hello.extend(ms_line(MINT_PROTO));
        if !write_all(&mut d, &hello) {
            return None;
        }
        self.world.settle(100, &mut |_, _, _| {});
        self.world.nodes[0].events.clear();
        let w = noop_waker();
        let mut cx = Context::from_waker(&w);
        match Pin::new(&mut self.incoming).poll_next(&mut cx) {
            Poll::Ready(Some((_, s))) => {
                self.made += 1;
                Some(s)
            }
            _ => None,
        }
    }
}

thread_local! {
    static MINT: RefCell<Option<Mint>> = const { RefCell::new(None) };
}

fn mint_stream() -> Stream {
    MINT.with(|m| {
        let mut m = m.borrow_mut();
        for _ in 0..3 {
            // a fresh connection every few thousand streams keeps the muxer bookkeeping small
            if m.as_ref().map(|x| x.made > 4000).unwrap_or(true) {
                *m = Mint::new();
            }
            if let Some(s) = m.as_mut().and_then(|x| x.mint()) {
                return s;
            }
            *m = None;
        }
        panic!("C47 harness: cannot mint a libp2p_swarm::Stream");
    })
}

// ---------------------------------------------------------------------------------------------
// sub-check A: the behaviour driven directly

#[derive(Clone, Copy, Debug, PartialEq, Eq, Serialize, Deserialize)]
pub struct Outcomes {
    /// the response to a RESERVE (accept or deny) can be written to the client
    pub res_ok: bool,
    /// the destination answers STOP CONNECT with OK
    pub stop_ok: bool,
    /// the OK response to a CONNECT can be written to the source
    pub acc_ok: bool,
    /// an error response to a CONNECT can be written to the source
    pub deny_ok: bool,
}

#[derive(Clone, Debug, PartialEq, Eq, Serialize, Deserialize)]
pub enum OpA {
    /// a new connection of client peer `peer` is established
    Open { peer: u8 },
    /// an open connection closes
    Close { conn: u16 },
    /// a RESERVE request arrives on a connection; `sync`: run everything to completion afterwards
    Reserve { conn: u16, sync: Option<Outcomes> },
    /// a CONNECT request for destination peer `dst` arrives on a connection
    Connect { conn: u16, dst: u8, sync: Option<Outcomes> },
    /// the next event emitted by a connection's handler reaches the behaviour
    ToBeh { conn: u16 },
    /// the next command of the behaviour reaches a connection's handler
    ToHandler { conn: u16 },
    /// one pending I/O future of a handler completes
    Progress { conn: u16, which: u16, ok: bool },
    /// the reservation timer of a connection fires
    Timeout { conn: u16 },
    /// a running circuit ends (stream closed or error)
    EndCircuit { pick: u16, err: bool },
    /// deliver all queued events and commands (no future completes)
    Flush,
    /// run everything to completion
    Quiesce(Outcomes),
}

#[derive(Clone, Debug, Serialize, Deserialize)]
pub struct CaseA {
    pub limits: Limits,
    pub ops: Vec<OpA>,
}

fn outcomes_strategy() -> impl Strategy<Value = Outcomes> {
    prop_oneof![
        6 => Just(Outcomes { res_ok: true, stop_ok: true, acc_ok: true, deny_ok: true }),
        2 => (any::<bool>(), any::<bool>(), any::<bool>(), any::<bool>()).prop_map(|(res_ok, stop_ok, acc_ok, deny_ok)| Outcomes { res_ok, stop_ok, acc_ok, deny_ok }),
    ]
}

fn op_a_strategy() -> impl Strategy<Value = OpA> {
    let sync = prop_oneof![3 => outcomes_strategy().prop_map(Some), 1 => Just(None)];
    let sync2 = prop_oneof![3 => outcomes_strategy().prop_map(Some), 1 => Just(None)];
    prop_oneof![
        4 => (0u8..NPEERS as u8).prop_map(|peer| OpA::Open { peer }),
        1 => any::<u16>().prop_map(|conn| OpA::Close { conn }),
        6 => (any::<u16>(), sync).prop_map(|(conn, sync)| OpA::Reserve { conn, sync }),
        7 => (any::<u16>(), 0u8..2 * NPEERS as u8, sync2).prop_map(|(conn, dst, sync)| OpA::Connect { conn, dst, sync }),
        3 => any::<u16>().prop_map(|conn| OpA::ToBeh { conn }),
        3 => any::<u16>().prop_map(|conn| OpA::ToHandler { conn }),
        3 => (any::<u16>(), any::<u16>(), prop::bool::weighted(0.8)).prop_map(|(conn, which, ok)| OpA::Progress { conn, which, ok }),
        1 => any::<u16>().prop_map(|conn| OpA::Timeout { conn }),
        2 => (any::<u16>(), any::<bool>()).prop_map(|(pick, err)| OpA::EndCircuit { pick, err }),
        1 => Just(OpA::Flush),
        1 => outcomes_strategy().prop_map(OpA::Quiesce),
    ]
}

fn case_a_strategy(max_ops: usize, hi: u8) -> impl Strategy<Value = CaseA> {
    (limits_strategy(hi), prop::collection::vec(op_a_strategy(), 4..max_ops)).prop_map(|(limits, ops)| CaseA { limits, ops })
}

enum ResFut {
    Accepting,
    Denying(ProtoStatus),
}

struct PConnect {
    circuit_id: CircuitId,
    req: CircuitReq,
    src_peer: PeerId,
    src_conn: ConnectionId,
}

/// The relay `Handler` of one connection, reduced to what decides which events it may emit.
struct ConnA {
    peer: usize,
    id: ConnectionId,
    open: bool,
    endpoint: ConnectedPoint,
    /// `Handler::active_reservation.is_some()`
    active_res: bool,
    /// the current reservation was confirmed by a request that was already in flight when the
    /// previous reservation of this connection expired
    raced: bool,
    /// the reservation timer fired while a request was in flight (cleared by the next request that
    /// finds nothing in flight)
    expired_during_accept: bool,
    res_fut: Option<ResFut>,
    to_beh: VecDeque<HandlerEvent>,
    to_handler: VecDeque<HandlerIn>,
    connects: Vec<PConnect>,
    deny_futs: Vec<(Option<CircuitId>, PeerId, ProtoStatus)>,
    accept_futs: Vec<(CircuitId, PeerId)>,
    circuits: Vec<(CircuitId, PeerId)>,
}

struct WorldA {
    limits: Limits,
    beh: relay::Behaviour,
    conns: Vec<ConnA>,
    /// circuit id -> index of the destination connection (learned when the destination's handler
    /// receives `NegotiateOutboundConnect`)
    circ_dst: Vec<(CircuitId, usize)>,
    newest: Option<CircuitId>,
    trace: Vec<String>,
    reach: Reach,
    res_established: u32,
    circ_established: u32,
    denied_limit: u32,
    panic: Option<String>,
}

fn peer_index(p: &PeerId) -> Option<usize> {
    (0..NPEERS).find(|i| client(*i) == *p)
}

impl WorldA {
    fn new(limits: Limits) -> Self {
        WorldA {
            limits,
            beh: relay::Behaviour::new(gen::peer(RELAY), relay_config(limits)),
            conns: vec![],
            circ_dst: vec![],
            newest: None,
            trace: vec![],
            reach: Reach::default(),
            res_established: 0,
            circ_established: 0,
            denied_limit: 0,
            panic: None,
        }
    }

    fn open_conns(&self) -> Vec<usize> {
        (0..self.conns.len()).filter(|i| self.conns[*i].open).collect()
    }

    fn conn_by_id(&self, id: ConnectionId) -> Option<usize> {
        self.conns.iter().position(|c| c.id == id)
    }

    /// collect everything the behaviour wants to do right now
    fn pump(&mut self) {
        let w = noop_waker();
        let mut cx = Context::from_waker(&w);
        while let Poll::Ready(action) = self.beh.poll(&mut cx) {
            match action {
                ToSwarm::NotifyHandler { handler: NotifyHandler::One(id), event: Either::Left(cmd), .. } => {
                    match &cmd {
                        HandlerIn::AcceptReservationReq { .. } => self.trace.push(format!("  beh -> {id:?}: AcceptReservationReq")),
                        HandlerIn::DenyReservationReq { status, .. } => {
                            if *status == ProtoStatus::ResourceLimitExceeded {
                                self.denied_limit += 1;
                                self.reach.labels.insert("deny:reservation-limit");
                            }
                            self.trace.push(format!("  beh -> {id:?}: DenyReservationReq {status:?}"));
                        }
                        HandlerIn::DenyCircuitReq { circuit_id, status, .. } => {
                            if circuit_id.is_none() && *status == ProtoStatus::ResourceLimitExceeded {
                                self.denied_limit += 1;
                                self.reach.labels.insert("deny:circuit-limit");
                            }
                            if circuit_id.is_none() && *status == ProtoStatus::NoReservation {
                                self.reach.labels.insert("deny:circuit-no-reservation");
                            }
                            self.trace.push(format!("  beh -> {id:?}: DenyCircuitReq {circuit_id:?} {status:?}"));
                        }
                        HandlerIn::NegotiateOutboundConnect { circuit_id, .. } => self.trace.push(format!("  beh -> {id:?}: NegotiateOutboundConnect {circuit_id:?}")),
                        HandlerIn::AcceptAndDriveCircuit { circuit_id, .. } => self.trace.push(format!("  beh -> {id:?}: AcceptAndDriveCircuit {circuit_id:?}")),
                        HandlerIn::SetStatus { .. } => {}
                    }
                    match self.conn_by_id(id) {
                        Some(i) if self.conns[i].open => self.conns[i].to_handler.push_back(cmd),
                        // the Swarm drops commands for connections that no longer exist
                        _ => drop(cmd),
                    }
                }
                ToSwarm::GenerateEvent(ev) => {
                    let s = format!("{ev:?}");
                    self.trace.push(format!("  event {}", s.chars().take(90).collect::<String>()));
                }
                _ => {}
            }
        }
    }

    fn emit(&mut self, i: usize, ev: HandlerEvent) {
        self.conns[i].to_beh.push_back(ev);
    }

    fn deliver_to_beh(&mut self, i: usize) -> bool {
        let Some(ev) = self.conns[i].to_beh.pop_front() else { return false };
        let (peer, id) = (client(self.conns[i].peer), self.conns[i].id);
        self.trace.push(format!("{id:?} (peer {}) -> beh: {}", self.conns[i].peer, format!("{ev:?}").chars().take(100).collect::<String>()));
        let beh = &mut self.beh;
        if let Err(p) = vcore::runner::catch(move || beh.on_connection_handler_event(peer, id, Either::Left(ev))) {
            self.panic = Some(p);
            return true;
        }
        self.pump();
        true
    }

    fn deliver_to_handler(&mut self, i: usize) -> bool {
        let Some(cmd) = self.conns[i].to_handler.pop_front() else { return false };
        let c = &mut self.conns[i];
        match cmd {
            HandlerIn::AcceptReservationReq { inbound_reservation_req, .. } => {
                drop::<ReservationReq>(inbound_reservation_req);
                c.res_fut = Some(ResFut::Accepting);
            }
            HandlerIn::DenyReservationReq { inbound_reservation_req, status } => {
                drop::<ReservationReq>(inbound_reservation_req);
                c.res_fut = Some(ResFut::Denying(status));
            }
            HandlerIn::NegotiateOutboundConnect { circuit_id, inbound_circuit_req, src_peer_id, src_connection_id } => {
                c.connects.push(PConnect { circuit_id, req: inbound_circuit_req, src_peer: src_peer_id, src_conn: src_connection_id });
                self.circ_dst.push((circuit_id, i));
            }
            HandlerIn::DenyCircuitReq { circuit_id, inbound_circuit_req, status } => {
                c.deny_futs.push((circuit_id, inbound_circuit_req.dst(), status));
            }
            HandlerIn::AcceptAndDriveCircuit { circuit_id, dst_peer_id, inbound_circuit_req, dst_stream, dst_pending_data } => {
                drop((inbound_circuit_req, dst_stream, dst_pending_data));
                c.accept_futs.push((circuit_id, dst_peer_id));
            }
            HandlerIn::SetStatus { .. } => {}
        }
        true
    }

    /// a RESERVE of connection `i` has been emitted and its response has not been written yet:
    /// its event is still queued, or its accept command is queued, or the response is being written
    fn accept_in_flight(&self, i: usize) -> bool {
        let cn = &self.conns[i];
        cn.to_beh.iter().any(|e| matches!(e, HandlerEvent::ReservationReqReceived { .. }))
            || cn.to_handler.iter().any(|c| matches!(c, HandlerIn::AcceptReservationReq { .. }))
            || matches!(cn.res_fut, Some(ResFut::Accepting))
    }

    fn n_futs(&self, i: usize) -> usize {
        let c = &self.conns[i];
        c.res_fut.is_some() as usize + c.connects.len() + c.deny_futs.len() + c.accept_futs.len()
    }

    /// complete the `which`-th pending future of connection `i`
    fn progress(&mut self, i: usize, mut which: usize, ok: bool) {
        let c = &mut self.conns[i];
        if c.res_fut.is_some() {
            if which == 0 {
                let fut = c.res_fut.take().unwrap();
                let ev = match (fut, ok) {
                    (ResFut::Accepting, true) => {
                        let renewed = c.active_res;
                        c.active_res = true;
                        if !renewed {
                            c.raced = c.expired_during_accept;
                        }
                        self.res_established += 1;
                        HandlerEvent::ReservationReqAccepted { renewed }
                    }
                    (ResFut::Accepting, false) => HandlerEvent::ReservationReqAcceptFailed { error: relay::inbound::hop::Error::StreamClosed },
                    (ResFut::Denying(status), true) => HandlerEvent::ReservationReqDenied { status },
                    (ResFut::Denying(_), false) => HandlerEvent::ReservationReqDenyFailed { error: relay::inbound::hop::Error::StreamClosed },
                };
                self.emit(i, ev);
                return;
            }
            which -= 1;
        }
        if which < c.connects.len() {
            let pc = c.connects.remove(which);
            let ev = if ok {
                HandlerEvent::OutboundConnectNegotiated {
                    circuit_id: pc.circuit_id,
                    src_peer_id: pc.src_peer,
                    src_connection_id: pc.src_conn,
                    inbound_circuit_req: pc.req,
                    dst_stream: mint_stream(),
                    dst_pending_data: Default::default(),
                }
            } else {
                let error = relay::outbound::stop::Error::ResourceLimitExceeded;
                HandlerEvent::OutboundConnectNegotiationFailed {
                    circuit_id: pc.circuit_id,
                    src_peer_id: pc.src_peer,
                    src_connection_id: pc.src_conn,
                    inbound_circuit_req: pc.req,
                    status: relay::verif::stop_error_status(&error),
                    error,
                }
            };
            self.emit(i, ev);
            return;
        }
        which -= c.connects.len();
        if which < c.deny_futs.len() {
            let (circuit_id, dst_peer_id, status) = c.deny_futs.remove(which);
            let ev = if ok {
                HandlerEvent::CircuitReqDenied { circuit_id, dst_peer_id, status }
            } else {
                HandlerEvent::CircuitReqDenyFailed { circuit_id, dst_peer_id, error: relay::inbound::hop::Error::StreamClosed }
            };
            self.emit(i, ev);
            return;
        }
        which -= c.deny_futs.len();
        if which < c.accept_futs.len() {
            let (circuit_id, dst_peer_id) = c.accept_futs.remove(which);
            let ev = if ok {
                c.circuits.push((circuit_id, dst_peer_id));
                self.circ_established += 1;
                self.newest = Some(circuit_id);
                HandlerEvent::CircuitReqAccepted { circuit_id, dst_peer_id }
            } else {
                HandlerEvent::CircuitReqAcceptFailed { circuit_id, dst_peer_id, error: relay::inbound::hop::Error::StreamClosed }
            };
            self.emit(i, ev);
        }
    }

    fn flush(&mut self) {
        for _ in 0..200 {
            let mut progressed = false;
            for i in 0..self.conns.len() {
                if !self.conns[i].open {
                    continue;
                }
                while self.panic.is_none() && self.deliver_to_beh(i) {
                    progressed = true;
                }
                while self.deliver_to_handler(i) {
                    progressed = true;
                }
            }
            if !progressed || self.panic.is_some() {
                return;
            }
        }
    }

    fn quiesce(&mut self, o: Outcomes) {
        for _ in 0..200 {
            self.flush();
            if self.panic.is_some() {
                return;
            }
            let mut progressed = false;
            for i in 0..self.conns.len() {
                if !self.conns[i].open {
                    continue;
                }
                while self.n_futs(i) > 0 {
                    progressed = true;
                    let c = &self.conns[i];
                    let ok = if c.res_fut.is_some() {
                        o.res_ok
                    } else if !c.connects.is_empty() {
                        o.stop_ok
                    } else if !c.deny_futs.is_empty() {
                        o.deny_ok
                    } else {
                        o.acc_ok
                    };
                    self.progress(i, 0, ok);
                }
            }
            if !progressed {
                return;
            }
        }
    }

    fn request_values(&self) -> (Duration, Duration, u64) {
        (Duration::from_secs(3600), Duration::from_secs(3600), 1 << 30)
    }

    fn apply(&mut self, op: &OpA) {
        match op {
            OpA::Open { peer } => {
                let peer = *peer as usize % NPEERS;
                let of_peer = self.conns.iter().filter(|c| c.open && c.peer == peer).count();
                if of_peer >= 4 || self.open_conns().len() >= 10 {
                    return;
                }
                let id = ConnectionId::new_unchecked(self.conns.len() + 1);
                let endpoint = ConnectedPoint::Listener { local_addr: relay_addr(), send_back_addr: client_addr(peer, self.conns.len()) };
                self.trace.push(format!("open {id:?} of peer {peer}"));
                self.beh.on_swarm_event(FromSwarm::ConnectionEstablished(ConnectionEstablished {
                    peer_id: client(peer),
                    connection_id: id,
                    endpoint: &endpoint,
                    failed_addresses: &[],
                    other_established: of_peer,
                }));
                self.conns.push(ConnA {
                    peer,
                    id,
                    open: true,
                    endpoint,
                    active_res: false,
                    raced: false,
                    expired_during_accept: false,
                    res_fut: None,
                    to_beh: Default::default(),
                    to_handler: Default::default(),
                    connects: vec![],
                    deny_futs: vec![],
                    accept_futs: vec![],
                    circuits: vec![],
                });
                self.pump();
            }
            OpA::Close { conn } => {
                let open = self.open_conns();
                if open.is_empty() {
                    return;
                }
                let i = open[pick(*conn, open.len())];
                // everything the handler has already emitted is delivered before the close
                while self.panic.is_none() && self.deliver_to_beh(i) {}
                if self.panic.is_some() {
                    return;
                }
                let c = &mut self.conns[i];
                c.open = false;
                c.active_res = false;
                c.res_fut = None;
                c.to_handler.clear();
                c.connects.clear();
                c.deny_futs.clear();
                c.accept_futs.clear();
                c.circuits.clear();
                let (peer, id, endpoint) = (c.peer, c.id, c.endpoint.clone());
                let remaining = self.conns.iter().filter(|c| c.open && c.peer == peer).count();
                self.trace.push(format!("close {id:?} of peer {peer}"));
                self.beh.on_swarm_event(FromSwarm::ConnectionClosed(ConnectionClosed { peer_id: client(peer), connection_id: id, endpoint: &endpoint, cause: None, remaining_established: remaining }));
                self.pump();
            }
            OpA::Reserve { conn, sync } => {
                let open = self.open_conns();
                if open.is_empty() {
                    return;
                }
                let i = open[pick(*conn, open.len())];
                let (a, b, c) = self.request_values();
                let req = ReservationReq::verif_new(mint_stream(), a, b, c);
                let renewed = self.conns[i].active_res;
                if !self.accept_in_flight(i) {
                    self.conns[i].expired_during_accept = false;
                }
                let endpoint = self.conns[i].endpoint.clone();
                self.trace.push(format!("RESERVE on {:?} (peer {})", self.conns[i].id, self.conns[i].peer));
                self.emit(i, HandlerEvent::ReservationReqReceived { inbound_reservation_req: req, endpoint, renewed });
                if let Some(o) = sync {
                    self.quiesce(*o);
                }
            }
            OpA::Connect { conn, dst, sync } => {
                let open = self.open_conns();
                if open.is_empty() {
                    return;
                }
                let i = open[pick(*conn, open.len())];
                let mut reserved: Vec<usize> = self.conns.iter().filter(|c| c.open && c.active_res).map(|c| c.peer).collect();
                reserved.sort();
                reserved.dedup();
                let dst = choose_dst(*dst, &reserved);
                let (_, b, c) = self.request_values();
                let req = CircuitReq::verif_new(client(dst), mint_stream(), b, c);
                let endpoint = self.conns[i].endpoint.clone();
                self.trace.push(format!("CONNECT on {:?} (peer {}) to peer {dst}", self.conns[i].id, self.conns[i].peer));
                self.emit(i, HandlerEvent::CircuitReqReceived { inbound_circuit_req: req, endpoint });
                if let Some(o) = sync {
                    self.quiesce(*o);
                }
            }
            OpA::ToBeh { conn } => {
                let c: Vec<usize> = self.open_conns().into_iter().filter(|i| !self.conns[*i].to_beh.is_empty()).collect();
                if c.is_empty() {
                    return;
                }
                self.deliver_to_beh(c[pick(*conn, c.len())]);
            }
            OpA::ToHandler { conn } => {
                let c: Vec<usize> = self.open_conns().into_iter().filter(|i| !self.conns[*i].to_handler.is_empty()).collect();
                if c.is_empty() {
                    return;
                }
                self.deliver_to_handler(c[pick(*conn, c.len())]);
            }
            OpA::Progress { conn, which, ok } => {
                let c: Vec<usize> = self.open_conns().into_iter().filter(|i| self.n_futs(*i) > 0).collect();
                if c.is_empty() {
                    return;
                }
                let i = c[pick(*conn, c.len())];
                let n = self.n_futs(i);
                self.progress(i, pick(*which, n), *ok);
            }
            OpA::Timeout { conn } => {
                let c: Vec<usize> = self.open_conns().into_iter().filter(|i| self.conns[*i].active_res).collect();
                if c.is_empty() {
                    return;
                }
                let i = c[pick(*conn, c.len())];
                let in_flight = self.accept_in_flight(i);
                let cn = &mut self.conns[i];
                cn.active_res = false;
                cn.raced = false;
                if in_flight {
                    cn.expired_during_accept = true;
                    self.reach.labels.insert("race:expiry-while-request-in-flight");
                }
                self.trace.push(format!("reservation timer of {:?} fires", cn.id));
                self.emit(i, HandlerEvent::ReservationTimedOut {});
            }
            OpA::EndCircuit { pick: p, err } => {
                let all: Vec<(usize, usize)> = self.open_conns().into_iter().flat_map(|i| (0..self.conns[i].circuits.len()).map(move |k| (i, k))).collect();
                if all.is_empty() {
                    return;
                }
                let (i, k) = all[pick(*p, all.len())];
                let (circuit_id, dst_peer_id) = self.conns[i].circuits.remove(k);
                let error = if *err { Some(std::io::ErrorKind::ConnectionReset.into()) } else { None };
                self.trace.push(format!("circuit {circuit_id:?} ends"));
                self.emit(i, HandlerEvent::CircuitClosed { circuit_id, dst_peer_id, error });
            }
            OpA::Flush => self.flush(),
            OpA::Quiesce(o) => self.quiesce(*o),
        }
    }

    fn active(&self) -> Active {
        let mut a = Active::default();
        for c in self.conns.iter().filter(|c| c.open) {
            if c.active_res {
                a.res.push(c.peer);
                if c.raced {
                    a.raced.insert(c.peer);
                }
            }
            for (cid, dst_peer) in &c.circuits {
                // the circuit is alive while both connections are; the destination connection is the
                // one whose handler negotiated STOP for this circuit id
                let dst_open = self.circ_dst.iter().find(|(x, _)| x == cid).map(|(_, j)| self.conns[*j].open).unwrap_or(false);
                if !dst_open {
                    continue;
                }
                let Some(d) = peer_index(dst_peer) else { continue };
                a.circ.push((c.peer, d));
                if self.newest == Some(*cid) {
                    a.newest = Some((c.peer, d));
                }
            }
        }
        a
    }
}

fn run_a(case: &CaseA) -> Outcome {
    let mut w = WorldA::new(case.limits);
    for (k, op) in case.ops.iter().enumerate() {
        w.trace.push(format!("#{k} {op:?}"));
        w.apply(op);
        if let Some(p) = &w.panic {
            // outside the statement (it is about counts, not crashes): measured, not asserted
            let mut labels: Vec<&'static str> = w.reach.labels.iter().copied().collect();
            if p.contains("valid connection") {
                labels.push("side:behaviour-panic-valid-connection-after-expiry-race");
                return Outcome::pass_l(false, labels);
            }
            return Outcome::fail("C47:behaviour-panicked", json!({"panic": p, "limits": case.limits, "trace": w.trace}));
        }
        let a = w.active();
        let limits = w.limits;
        if let Some((sig, detail)) = check_limits(limits, &a, &mut w.reach) {
            return Outcome::fail(&sig, json!({"limits": case.limits, "after_op": k, "violation": detail, "trace": w.trace}));
        }
    }
    let mut labels: Vec<&'static str> = w.reach.labels.iter().copied().collect();
    if w.res_established > 0 {
        labels.push("accepted:reservation");
    }
    if w.circ_established > 0 {
        labels.push("accepted:circuit");
    }
    let nontrivial = w.denied_limit > 0 && (w.res_established > 0 || w.circ_established > 0);
    Outcome::pass_l(nontrivial, labels)
}


// ---------------------------------------------------------------------------------------------
// sub-check B: a relay Swarm in the simulated world; the harness plays the clients on the wire

const HOP: &str = "/libp2p/circuit/relay/0.2.0/hop";
const STOP: &str = "/libp2p/circuit/relay/0.2.0/stop";
const ST_OK: u64 = 100;
const ST_RESERVATION_REFUSED: u64 = 200;
const ST_RESOURCE_LIMIT_EXCEEDED: u64 = 201;
const ST_PERMISSION_DENIED: u64 = 202;
const ST_NO_RESERVATION: u64 = 204;

#[derive(Clone, Debug, PartialEq, Eq, Serialize, Deserialize)]
pub enum OpB {
    /// a client peer connects to the relay
    Open { peer: u8 },
    /// a client closes one of its connections
    Close { conn: u16 },
    /// HOP RESERVE on a connection
    Reserve { conn: u16, settle: bool },
    /// HOP CONNECT to destination peer `dst` on a connection
    Connect { conn: u16, dst: u8, settle: bool },
    /// the destination answers a STOP CONNECT: 0 = OK, 1 = PERMISSION_DENIED, 2 = closes the stream
    Answer { pick: u16, how: u8, settle: bool },
    /// an established circuit is closed by the source (0), the destination (1) or both (2)
    EndCircuit { pick: u16, side: u8, settle: bool },
    /// poll chosen runnable connection tasks, polling the relay swarm after each
    Steps { picks: Vec<u16> },
    Settle,
}

#[derive(Clone, Debug, Serialize, Deserialize)]
pub struct CaseB {
    pub limits: Limits,
    pub ops: Vec<OpB>,
}

fn op_b_strategy() -> impl Strategy<Value = OpB> {
    let settle = || prop::bool::weighted(0.8);
    prop_oneof![
        4 => (0u8..NPEERS as u8).prop_map(|peer| OpB::Open { peer }),
        1 => any::<u16>().prop_map(|conn| OpB::Close { conn }),
        6 => (any::<u16>(), settle()).prop_map(|(conn, settle)| OpB::Reserve { conn, settle }),
        7 => (any::<u16>(), 0u8..2 * NPEERS as u8, settle()).prop_map(|(conn, dst, settle)| OpB::Connect { conn, dst, settle }),
        6 => (any::<u16>(), prop_oneof![8 => Just(0u8), 1 => Just(1u8), 1 => Just(2u8)], settle()).prop_map(|(pick, how, settle)| OpB::Answer { pick, how, settle }),
        2 => (any::<u16>(), 0u8..3, settle()).prop_map(|(pick, side, settle)| OpB::EndCircuit { pick, side, settle }),
        1 => prop::collection::vec(any::<u16>(), 1..12).prop_map(|picks| OpB::Steps { picks }),
        1 => Just(OpB::Settle),
    ]
}

fn case_b_strategy(max_ops: usize, hi: u8) -> impl Strategy<Value = CaseB> {
    (limits_strategy(hi), prop::collection::vec(op_b_strategy(), 4..max_ops)).prop_map(|(limits, ops)| CaseB { limits, ops })
}

fn hop_reserve() -> Vec<u8> {
    lp(&pb_varint(1, 0))
}
fn hop_connect(dst: &PeerId) -> Vec<u8> {
    let mut m = pb_varint(1, 1);
    m.extend(pb_bytes(2, &pb_bytes(1, &dst.to_bytes())));
    lp(&m)
}
fn stop_status(status: u64) -> Vec<u8> {
    let mut m = pb_varint(1, 1);
    m.extend(pb_varint(4, status));
    lp(&m)
}
fn varint_field(fields: &[(u32, u8, Vec<u8>)], field: u32) -> Option<u64> {
    fields.iter().find(|(f, w, _)| *f == field && *w == 0).map(|(_, _, v)| {
        let mut b = [0u8; 8];
        b.copy_from_slice(&v[..8]);
        u64::from_le_bytes(b)
    })
}

/// What the relay answered on a HOP stream the harness opened.
#[derive(Debug, PartialEq, Eq)]
enum HopReply {
    Waiting,
    /// STATUS message with this code
    Status(u64),
    /// the stream ended, the protocol was refused or the answer is not a STATUS message
    Broken(&'static str),
}

fn parse_hop_reply(buf: &[u8], eof: bool) -> HopReply {
    let f = frames(buf);
    if f.len() >= 2 && f[1] != format!("{HOP}\n").as_bytes() {
        return HopReply::Broken("hop-not-supported");
    }
    if f.len() >= 3 {
        let Some(fields) = pb_parse(&f[2]) else { return HopReply::Broken("undecodable") };
        if varint_field(&fields, 1) != Some(2) {
            return HopReply::Broken("not-a-status-message");
        }
        return match varint_field(&fields, 5) {
            Some(s) => HopReply::Status(s),
            None => HopReply::Broken("status-missing"),
        };
    }
    if eof {
        HopReply::Broken("stream-ended")
    } else {
        HopReply::Waiting
    }
}

struct ConnB {
    peer: usize,
    ctl: MuxCtl,
    addr: Multiaddr,
    open: bool,
    reserved: bool,
}

struct PendingRes {
    conn: usize,
    stream: Duplex,
    buf: Vec<u8>,
}

struct PendingCon {
    src_conn: usize,
    dst: usize,
    stream: Duplex,
    buf: Vec<u8>,
}

struct StopReq {
    dst_conn: usize,
    stream: Option<Duplex>,
    buf: Vec<u8>,
    src: Option<usize>,
    answered_ok: bool,
    answered: bool,
    dead: bool,
}

struct CircuitB {
    src_conn: usize,
    dst_conn: usize,
    src_stream: Option<Duplex>,
    dst_stream: Option<Duplex>,
    alive: bool,
}

struct WorldB {
    limits: Limits,
    world: World<relay::Behaviour>,
    conns: Vec<ConnB>,
    pend_res: Vec<PendingRes>,
    pend_con: Vec<PendingCon>,
    stops: Vec<StopReq>,
    circuits: Vec<CircuitB>,
    seen_events: usize,
    trace: Vec<String>,
    reach: Reach,
    ok_res: u32,
    ok_circ: u32,
    limit_refusals: u32,
    settled: bool,
    confused: Option<String>,
}

impl WorldB {
    fn new(limits: Limits) -> Option<Self> {
        let peers = [gen::peer(RELAY)];
        let mut world: World<relay::Behaviour> =
            World::new(&peers, |_, _| relay::Behaviour::new(gen::peer(RELAY), relay_config(limits)), |c| c.with_idle_connection_timeout(Duration::from_secs(86_400)));
        world.nodes[0].swarm.behaviour_mut().set_status(Some(relay::Status::Enable));
        if !world.listen(0, relay_addr()) {
            return None;
        }
        let mut w = WorldB {
            limits,
            world,
            conns: vec![],
            pend_res: vec![],
            pend_con: vec![],
            stops: vec![],
            circuits: vec![],
            seen_events: 0,
            trace: vec![],
            reach: Reach::default(),
            ok_res: 0,
            ok_circ: 0,
            limit_refusals: 0,
            settled: true,
            confused: None,
        };
        w.settle();
        Some(w)
    }

    fn open_conns(&self) -> Vec<usize> {
        (0..self.conns.len()).filter(|i| self.conns[*i].open).collect()
    }

    fn settle(&mut self) {
        // the harness reacts to what it sees (multistream acknowledgements of STOP streams), which can
        // enable further progress of the relay
        for _ in 0..8 {
            if !self.world.settle(400, &mut |_, _, _| {}) {
                self.settled = false;
                return;
            }
            if !self.observe() {
                return;
            }
        }
    }

    fn conn_closed(&mut self, i: usize) {
        let c = &mut self.conns[i];
        if !c.open {
            return;
        }
        c.open = false;
        c.reserved = false;
        self.pend_res.retain(|p| p.conn != i);
        let mut aborted = vec![];
        self.pend_con.retain(|p| {
            if p.src_conn == i {
                aborted.push((p.src_conn, p.dst));
                false
            } else {
                true
            }
        });
        for (s, d) in aborted {
            self.kill_stops(self.conns[s].peer, d);
        }
        for s in self.stops.iter_mut().filter(|s| s.dst_conn == i) {
            s.dead = true;
            s.stream = None;
        }
        for c in self.circuits.iter_mut().filter(|c| c.src_conn == i || c.dst_conn == i) {
            c.alive = false;
            c.src_stream = None;
            c.dst_stream = None;
        }
    }

    /// the CONNECT of (source peer, destination peer) is over without a circuit: STOP requests that
    /// belong to it can no longer be linked
    fn kill_stops(&mut self, src: usize, dst: usize) {
        for s in self.stops.iter_mut() {
            if !s.dead && s.src == Some(src) && self.conns[s.dst_conn].peer == dst {
                s.dead = true;
            }
        }
    }

    /// Look at everything the relay sent; true when the harness wrote something in response.
    fn observe(&mut self) -> bool {
        let mut wrote = false;
        // connection events of the relay swarm
        let evs: Vec<Ev> = self.world.nodes[0].events[self.seen_events..].to_vec();
        self.seen_events = self.world.nodes[0].events.len();
        for ev in evs {
            if let Ev::Closed { conn, .. } = &ev {
                // the relay closed (or noticed the close of) a connection: find it by id
                let addr = self.world.nodes[0].events.iter().find_map(|e| match e {
                    Ev::Established { conn: c, addr, .. } if c == conn => Some(addr.clone()),
                    _ => None,
                });
                if let Some(i) = addr.and_then(|a| self.conns.iter().position(|c| c.addr == a)) {
                    if self.conns[i].open {
                        self.trace.push(format!("  relay reports connection {i} closed"));
                        self.conn_closed(i);
                    }
                }
            }
        }
        // STOP streams the relay opened towards destinations
        for i in self.open_conns() {
            for mut s in self.conns[i].ctl.take_peer_inbound() {
                let mut ack = ms_line("/multistream/1.0.0");
                ack.extend(ms_line(STOP));
                write_all(&mut s, &ack);
                wrote = true;
                self.stops.push(StopReq { dst_conn: i, stream: Some(s), buf: vec![], src: None, answered_ok: false, answered: false, dead: false });
            }
        }
        for k in 0..self.stops.len() {
            let s = &mut self.stops[k];
            if s.src.is_some() || s.dead {
                continue;
            }
            let Some(st) = s.stream.as_mut() else { continue };
            let eof = drain_into(st, &mut s.buf);
            let f = frames(&s.buf);
            if f.len() >= 3 {
                let src = pb_parse(&f[2]).and_then(|fields| {
                    let peer = fields.iter().find(|(f, w, _)| *f == 2 && *w == 2)?.2.clone();
                    let id = pb_parse(&peer)?.into_iter().find(|(f, w, _)| *f == 1 && *w == 2)?.2;
                    PeerId::from_bytes(&id).ok()
                });
                match src.as_ref().and_then(peer_index) {
                    Some(p) => {
                        s.src = Some(p);
                        let d = s.dst_conn;
                        self.trace.push(format!("  relay -> connection {d}: STOP CONNECT from peer {p}"));
                    }
                    None => self.confused = Some("undecodable STOP CONNECT".into()),
                }
            } else if eof {
                s.dead = true;
            }
        }
        // answers to RESERVE
        let mut k = 0;
        while k < self.pend_res.len() {
            let p = &mut self.pend_res[k];
            let eof = drain_into(&mut p.stream, &mut p.buf);
            match parse_hop_reply(&p.buf, eof) {
                HopReply::Waiting => {
                    k += 1;
                    continue;
                }
                HopReply::Status(st) => {
                    let conn = p.conn;
                    self.trace.push(format!("  relay -> connection {conn}: RESERVE status {st}"));
                    self.status_label(st);
                    if st == ST_OK {
                        self.ok_res += 1;
                        if self.conns[conn].reserved {
                            self.reach.labels.insert("reservation:renewed");
                        }
                        self.conns[conn].reserved = true;
                    }
                }
                HopReply::Broken(why) => {
                    self.trace.push(format!("  RESERVE on connection {} broken: {why}", p.conn));
                    self.reach.labels.insert("request:broken");
                }
            }
            self.pend_res.remove(k);
        }
        // answers to CONNECT
        let mut k = 0;
        while k < self.pend_con.len() {
            let p = &mut self.pend_con[k];
            let eof = drain_into(&mut p.stream, &mut p.buf);
            let reply = parse_hop_reply(&p.buf, eof);
            if reply == HopReply::Waiting {
                k += 1;
                continue;
            }
            let p = self.pend_con.remove(k);
            let src_peer = self.conns[p.src_conn].peer;
            match reply {
                HopReply::Status(ST_OK) => {
                    self.trace.push(format!("  relay -> connection {}: CONNECT to peer {} status OK", p.src_conn, p.dst));
                    self.status_label(ST_OK);
                    let link = self.stops.iter().position(|s| !s.dead && s.answered_ok && s.src == Some(src_peer) && self.conns[s.dst_conn].peer == p.dst);
                    match link {
                        Some(j) => {
                            let s = &mut self.stops[j];
                            s.dead = true;
                            self.ok_circ += 1;
                            self.circuits.push(CircuitB { src_conn: p.src_conn, dst_conn: s.dst_conn, src_stream: Some(p.stream), dst_stream: s.stream.take(), alive: true });
                        }
                        // the destination's answer was already on its way when its connection (or the
                        // request) was given up by the harness: the circuit exists for the source only,
                        // it is not counted (lower bound)
                        None => {
                            self.trace.push("    (destination side already gone: circuit not counted)".into());
                            self.reach.labels.insert("circuit:ok-but-destination-gone");
                        }
                    }
                }
                HopReply::Status(st) => {
                    self.trace.push(format!("  relay -> connection {}: CONNECT to peer {} status {st}", p.src_conn, p.dst));
                    self.status_label(st);
                    self.kill_stops(src_peer, p.dst);
                }
                HopReply::Broken(why) => {
                    self.trace.push(format!("  CONNECT on connection {} broken: {why}", p.src_conn));
                    self.reach.labels.insert("request:broken");
                    self.kill_stops(src_peer, p.dst);
                }
                HopReply::Waiting => unreachable!(),
            }
        }
        wrote
    }

    fn status_label(&mut self, st: u64) {
        let l = match st {
            ST_OK => "status:OK",
            ST_RESERVATION_REFUSED => "status:RESERVATION_REFUSED",
            ST_RESOURCE_LIMIT_EXCEEDED => "status:RESOURCE_LIMIT_EXCEEDED",
            ST_PERMISSION_DENIED => "status:PERMISSION_DENIED",
            ST_NO_RESERVATION => "status:NO_RESERVATION",
            203 => "status:CONNECTION_FAILED",
            _ => "status:other",
        };
        self.reach.labels.insert(l);
        if st == ST_RESOURCE_LIMIT_EXCEEDED || st == ST_RESERVATION_REFUSED {
            self.limit_refusals += 1;
        }
    }

    fn open_hop(&mut self, i: usize, msg: Vec<u8>) -> Duplex {
        let mut s = self.conns[i].ctl.remote_open();
        let mut hello = ms_line("/multistream/1.0.0");
        hello.extend(ms_line(HOP));
        hello.extend(msg);
        write_all(&mut s, &hello);
        s
    }

    fn after(&mut self, settle: bool) {
        if settle {
            self.settle();
        } else {
            self.observe();
        }
    }

    fn apply(&mut self, op: &OpB) {
        match op {
            OpB::Open { peer } => {
                let peer = *peer as usize % NPEERS;
                let of_peer = self.conns.iter().filter(|c| c.open && c.peer == peer).count();
                if of_peer >= 4 || self.open_conns().len() >= 10 {
                    return;
                }
                let addr = client_addr(peer, self.conns.len());
                let Some(k) = self.world.incoming_phantom(0, 0, addr.clone()) else {
                    self.confused = Some("listener gone".into());
                    return;
                };
                self.world.resolve_incoming(k, Some(client(peer)));
                let ctl = self.world.incoming[k].ctl.clone();
                self.trace.push(format!("connection {} of peer {peer} opens", self.conns.len()));
                self.conns.push(ConnB { peer, ctl, addr, open: true, reserved: false });
                self.settle();
            }
            OpB::Close { conn } => {
                let open = self.open_conns();
                if open.is_empty() {
                    return;
                }
                let i = open[pick(*conn, open.len())];
                self.trace.push(format!("connection {i} closes"));
                self.conns[i].ctl.remote_close();
                self.conn_closed(i);
                self.settle();
            }
            OpB::Reserve { conn, settle } => {
                let open = self.open_conns();
                if open.is_empty() {
                    return;
                }
                let i = open[pick(*conn, open.len())];
                self.trace.push(format!("RESERVE on connection {i} (peer {})", self.conns[i].peer));
                let stream = self.open_hop(i, hop_reserve());
                self.pend_res.push(PendingRes { conn: i, stream, buf: vec![] });
                self.after(*settle);
            }
            OpB::Connect { conn, dst, settle } => {
                let open = self.open_conns();
                if open.is_empty() {
                    return;
                }
                let i = open[pick(*conn, open.len())];
                let mut reserved: Vec<usize> = self.conns.iter().filter(|c| c.open && c.reserved).map(|c| c.peer).collect();
                reserved.sort();
                reserved.dedup();
                let dst = choose_dst(*dst, &reserved);
                let src_peer = self.conns[i].peer;
                // one CONNECT in flight per (source peer, destination peer): keeps the attribution of
                // STOP requests to CONNECT requests unambiguous
                if self.pend_con.iter().any(|p| self.conns[p.src_conn].peer == src_peer && p.dst == dst) {
                    return;
                }
                self.trace.push(format!("CONNECT on connection {i} (peer {src_peer}) to peer {dst}"));
                let stream = self.open_hop(i, hop_connect(&client(dst)));
                self.pend_con.push(PendingCon { src_conn: i, dst, stream, buf: vec![] });
                self.after(*settle);
            }
            OpB::Answer { pick: p, how, settle } => {
                let c: Vec<usize> = (0..self.stops.len()).filter(|k| !self.stops[*k].dead && !self.stops[*k].answered && self.stops[*k].src.is_some()).collect();
                if c.is_empty() {
                    return;
                }
                let k = c[pick(*p, c.len())];
                let s = &mut self.stops[k];
                s.answered = true;
                self.trace.push(format!("destination connection {} answers STOP CONNECT from peer {:?}: {how}", s.dst_conn, s.src));
                match how {
                    0 => {
                        s.answered_ok = true;
                        if let Some(st) = s.stream.as_mut() {
                            write_all(st, &stop_status(ST_OK));
                        }
                    }
                    1 => {
                        if let Some(st) = s.stream.as_mut() {
                            write_all(st, &stop_status(ST_PERMISSION_DENIED));
                        }
                    }
                    _ => s.stream = None,
                }
                self.after(*settle);
            }
            OpB::EndCircuit { pick: p, side, settle } => {
                let c: Vec<usize> = (0..self.circuits.len()).filter(|k| self.circuits[*k].alive).collect();
                if c.is_empty() {
                    return;
                }
                let k = c[pick(*p, c.len())];
                let ci = &mut self.circuits[k];
                ci.alive = false;
                if *side == 0 || *side == 2 {
                    ci.src_stream = None;
                }
                if *side == 1 || *side == 2 {
                    ci.dst_stream = None;
                }
                self.trace.push(format!("circuit {k} ends (side {side})"));
                self.after(*settle);
            }
            OpB::Steps { picks } => {
                for p in picks {
                    self.world.exec.step(*p);
                    let mut n = 0;
                    while self.world.woken(0) && n < 8 {
                        self.world.poll(0);
                        n += 1;
                    }
                }
                self.observe();
            }
            OpB::Settle => self.settle(),
        }
    }

    fn active(&self) -> Active {
        let mut a = Active::default();
        for c in self.conns.iter().filter(|c| c.open && c.reserved) {
            a.res.push(c.peer);
        }
        for c in self.circuits.iter().filter(|c| c.alive) {
            a.circ.push((self.conns[c.src_conn].peer, self.conns[c.dst_conn].peer));
        }
        if let Some(c) = self.circuits.last().filter(|c| c.alive) {
            a.newest = Some((self.conns[c.src_conn].peer, self.conns[c.dst_conn].peer));
        }
        a
    }
}

fn run_b(case: &CaseB) -> Outcome {
    let out = run_b_inner(case);
    release_phantoms();
    out
}

fn run_b_inner(case: &CaseB) -> Outcome {
    let Some(mut w) = WorldB::new(case.limits) else { return Outcome::Inconclusive("relay world could not be set up".into()) };
    for (k, op) in case.ops.iter().enumerate() {
        w.trace.push(format!("#{k} {op:?}"));
        w.apply(op);
        if !w.settled {
            return Outcome::Inconclusive("world did not settle within the step bound".into());
        }
        if let Some(c) = &w.confused {
            return Outcome::fail("C47:harness-lost-track", json!({"why": c, "limits": case.limits, "trace": w.trace}));
        }
        let a = w.active();
        let limits = w.limits;
        if let Some((sig, detail)) = check_limits(limits, &a, &mut w.reach) {
            return Outcome::fail(&sig, json!({"limits": case.limits, "after_op": k, "violation": detail, "trace": w.trace}));
        }
    }
    let mut labels: Vec<&'static str> = w.reach.labels.iter().copied().collect();
    if w.ok_res > 0 {
        labels.push("accepted:reservation");
    }
    if w.ok_circ > 0 {
        labels.push("accepted:circuit");
    }
    let nontrivial = w.limit_refusals > 0 && (w.ok_res > 0 || w.ok_circ > 0);
    Outcome::pass_l(nontrivial, labels)
}

// ---------------------------------------------------------------------------------------------

pub fn run(ctx: &mut Ctx) {
    ctx.assume("relay rate limiters are removed (reservation_rate_limiters / circuit_src_rate_limiters empty): only the four count limits can refuse a request for RESOURCE_LIMIT_EXCEEDED");
    ctx.assume("behaviour-direct: the harness' reduced model of relay::behaviour::handler::Handler (which event follows which command, per-connection FIFO order in both directions, events already emitted are delivered before ConnectionClosed) is the contract a Swarm enforces; streams inside the request values are real libp2p_swarm::Stream objects minted from an unrelated connection and never touched by the behaviour");
    ctx.assume("a reservation counts as active from the moment its OK response has been written until its timer fires or its connection closes; a circuit counts from the moment the OK response to the source has been written until it ends or either connection closes (lower bounds of what the relay tracks)");

    let hi = ctx.tier.sel(3u8, 4u8);
    let max_ops = ctx.tier.sel(40usize, 70usize);
    ctx.check::<CaseA>(
        "behaviour-direct",
        "limits 1..3 (per peer 1..2; thorough 1..4 / 1..3), 4 client peers with up to 4 connections each, 4..40 ops (open/close connection, RESERVE, CONNECT, deliver handler event, deliver command, complete handler I/O with ok/error, reservation timer fires, circuit ends, flush, quiesce); after every op the numbers of certainly-active reservations (per peer, total) and circuits (involving a peer, total) must not exceed the configured maxima; non-trivial = at least one request refused with RESOURCE_LIMIT_EXCEEDED and at least one reservation or circuit established",
        ctx.n(30_000, 900_000),
        &move || case_a_strategy(max_ops, hi).boxed(),
        &run_a,
    );

    ctx.assume("world: the harness' hand-written multistream-select / protobuf encoders and its reading of the relay's answers are correct (a request whose answer cannot be read is never counted as active); which of several reserved connections of a destination the relay uses depends on HashMap order inside the relay, so a replay can take a different but equally legal path");
    let max_ops_b = ctx.tier.sel(36usize, 60usize);
    ctx.check::<CaseB>(
        "world",
        "a real relay Swarm (limits 1..3, per peer 1..2; thorough 1..4 / 1..3; no rate limiters, status Enable) on the simulated transport; the harness plays 4 client peers with up to 4 connections each by hand on the wire: HOP RESERVE / CONNECT, answers the relay's STOP CONNECT with OK / PERMISSION_DENIED / stream close / never, ends circuits, closes connections, partial or full scheduling; after every op the reservations and circuits the relay confirmed with STATUS OK and the harness has not ended must be within the configured maxima; non-trivial = at least one RESOURCE_LIMIT_EXCEEDED answer and at least one OK answer",
        ctx.n(24_000, 700_000),
        &move || case_b_strategy(max_ops_b, hi).boxed(),
        &run_b,
    );
}
