//! Simulated swarm world: real `libp2p_swarm::Swarm`s over a simulated transport / muxer, with
//! every task scheduled by the harness (`vcore::simexec::Exec` is the Swarm's executor).

pub mod derived;
pub mod net;
pub mod probe;
pub mod world;
