//! simulated swarm world
