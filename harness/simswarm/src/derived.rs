//! Derived behaviours made of probes (same field type, so a mis-routing would still type-check).

use crate::probe::{HOut, Probe};
use crate::world::Probes;
use libp2p_swarm::NetworkBehaviour;

#[derive(NetworkBehaviour)]
#[behaviour(prelude = "libp2p_swarm::derive_prelude", to_swarm = "HOut")]
pub struct Two {
    pub a: Probe,
    pub b: Probe,
}

#[derive(NetworkBehaviour)]
#[behaviour(prelude = "libp2p_swarm::derive_prelude", to_swarm = "HOut")]
pub struct Three {
    pub a: Probe,
    pub b: Probe,
    pub c: Probe,
}

impl Probes for Two {
    fn fields(&self) -> usize {
        2
    }
    fn probe(&mut self, f: usize) -> &mut Probe {
        match f {
            0 => &mut self.a,
            _ => &mut self.b,
        }
    }
}

impl Probes for Three {
    fn fields(&self) -> usize {
        3
    }
    fn probe(&mut self, f: usize) -> &mut Probe {
        match f {
            0 => &mut self.a,
            1 => &mut self.b,
            _ => &mut self.c,
        }
    }
}
