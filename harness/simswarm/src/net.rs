//! Simulated transport and stream muxer. No sockets, no threads: every outcome is decided by the
//! harness ("world") through control handles.

use futures::channel::oneshot;
use libp2p_core::muxing::{StreamMuxer, StreamMuxerBox, StreamMuxerEvent};
use libp2p_core::transport::{DialOpts, ListenerId, PortUse, Transport, TransportError, TransportEvent};
use libp2p_core::{Endpoint, Multiaddr};
use libp2p_identity::PeerId;
use multiaddr::Protocol;
use std::collections::VecDeque;
use std::future::Future;
use std::io;
use std::pin::Pin;
use std::sync::atomic::{AtomicBool, Ordering};
use std::sync::{Arc, Mutex};
use std::task::{Context, Poll, Waker};
use vcore::simio::{self, Duplex};

pub type ConnOutput = (PeerId, StreamMuxerBox);
pub type ConnResult = Result<ConnOutput, io::Error>;

// ---------------------------------------------------------------------------------------------
// transport

pub struct DialRecord {
    pub addr: Multiaddr,
    pub role: Endpoint,
    pub port_use: PortUse,
    /// resolves the dial future; None once used or when the dial was refused synchronously
    pub tx: Option<oneshot::Sender<ConnResult>>,
    /// the returned future has been polled at least once
    pub polled: Arc<AtomicBool>,
    /// the returned future has been dropped
    pub dropped: Arc<AtomicBool>,
    /// `dial` returned `Err(MultiaddrNotSupported)` synchronously
    pub refused: bool,
}

pub struct ListenerRec {
    pub id: ListenerId,
    pub requested: Multiaddr,
    pub open: bool,
}

#[derive(Default)]
pub struct NetState {
    pub dials: Vec<DialRecord>,
    pub listeners: Vec<ListenerRec>,
    events: VecDeque<TransportEvent<Upgrade, io::Error>>,
    waker: Option<Waker>,
    /// announce the requested address as NewAddress automatically on listen_on
    pub auto_announce: bool,
}

impl NetState {
    fn wake(&mut self) {
        if let Some(w) = self.waker.take() {
            w.wake();
        }
    }
    pub fn push_event(&mut self, ev: TransportEvent<Upgrade, io::Error>) {
        self.events.push_back(ev);
        self.wake();
    }
    pub fn new_address(&mut self, listener_id: ListenerId, listen_addr: Multiaddr) {
        self.push_event(TransportEvent::NewAddress { listener_id, listen_addr });
    }
    pub fn address_expired(&mut self, listener_id: ListenerId, listen_addr: Multiaddr) {
        self.push_event(TransportEvent::AddressExpired { listener_id, listen_addr });
    }
    pub fn listener_error(&mut self, listener_id: ListenerId) {
        self.push_event(TransportEvent::ListenerError { listener_id, error: io::Error::other("scripted listener error") });
    }
    /// the listener ends by itself (Ok) or with an error
    pub fn listener_closed(&mut self, listener_id: ListenerId, ok: bool) {
        if let Some(l) = self.listeners.iter_mut().find(|l| l.id == listener_id) {
            l.open = false;
        }
        let reason = if ok { Ok(()) } else { Err(io::Error::other("scripted listener failure")) };
        self.push_event(TransportEvent::ListenerClosed { listener_id, reason });
    }
    /// an inbound connection arrives; the returned sender decides how its upgrade ends
    pub fn incoming(&mut self, listener_id: ListenerId, local_addr: Multiaddr, send_back_addr: Multiaddr) -> oneshot::Sender<ConnResult> {
        let (tx, rx) = oneshot::channel();
        self.push_event(TransportEvent::Incoming { listener_id, upgrade: Upgrade { rx }, local_addr, send_back_addr });
        tx
    }
    pub fn queued_events(&self) -> usize {
        self.events.len()
    }
}

pub struct Upgrade {
    rx: oneshot::Receiver<ConnResult>,
}

impl Future for Upgrade {
    type Output = ConnResult;
    fn poll(mut self: Pin<&mut Self>, cx: &mut Context<'_>) -> Poll<Self::Output> {
        match Pin::new(&mut self.rx).poll(cx) {
            Poll::Ready(Ok(r)) => Poll::Ready(r),
            Poll::Ready(Err(_)) => Poll::Ready(Err(io::Error::new(io::ErrorKind::ConnectionAborted, "upgrade abandoned by the world"))),
            Poll::Pending => Poll::Pending,
        }
    }
}

pub struct DialFut {
    rx: oneshot::Receiver<ConnResult>,
    polled: Arc<AtomicBool>,
    dropped: Arc<AtomicBool>,
}

impl Future for DialFut {
    type Output = ConnResult;
    fn poll(mut self: Pin<&mut Self>, cx: &mut Context<'_>) -> Poll<Self::Output> {
        self.polled.store(true, Ordering::SeqCst);
        match Pin::new(&mut self.rx).poll(cx) {
            Poll::Ready(Ok(r)) => Poll::Ready(r),
            Poll::Ready(Err(_)) => Poll::Ready(Err(io::Error::new(io::ErrorKind::ConnectionAborted, "dial abandoned by the world"))),
            Poll::Pending => Poll::Pending,
        }
    }
}

impl Drop for DialFut {
    fn drop(&mut self) {
        self.dropped.store(true, Ordering::SeqCst);
    }
}

/// Addresses the simulated transport refuses synchronously (like a TCP transport given /unix/..).
pub fn is_unsupported(addr: &Multiaddr) -> bool {
    addr.iter().any(|p| matches!(p, Protocol::Unix(_) | Protocol::Http))
}

pub struct SimTransport {
    pub state: Arc<Mutex<NetState>>,
}

impl SimTransport {
    pub fn new() -> (Self, Arc<Mutex<NetState>>) {
        let state = Arc::new(Mutex::new(NetState { auto_announce: true, ..Default::default() }));
        (SimTransport { state: state.clone() }, state)
    }
}

impl Transport for SimTransport {
    type Output = ConnOutput;
    type Error = io::Error;
    type ListenerUpgrade = Upgrade;
    type Dial = DialFut;

    fn listen_on(&mut self, id: ListenerId, addr: Multiaddr) -> Result<(), TransportError<Self::Error>> {
        if is_unsupported(&addr) {
            return Err(TransportError::MultiaddrNotSupported(addr));
        }
        let mut s = self.state.lock().unwrap();
        s.listeners.push(ListenerRec { id, requested: addr.clone(), open: true });
        if s.auto_announce {
            s.new_address(id, addr);
        }
        Ok(())
    }

    fn remove_listener(&mut self, id: ListenerId) -> bool {
        let mut s = self.state.lock().unwrap();
        let Some(l) = s.listeners.iter_mut().find(|l| l.id == id && l.open) else { return false };
        l.open = false;
        s.push_event(TransportEvent::ListenerClosed { listener_id: id, reason: Ok(()) });
        true
    }

    fn dial(&mut self, addr: Multiaddr, opts: DialOpts) -> Result<Self::Dial, TransportError<Self::Error>> {
        let mut s = self.state.lock().unwrap();
        let polled = Arc::new(AtomicBool::new(false));
        let dropped = Arc::new(AtomicBool::new(false));
        if is_unsupported(&addr) {
            s.dials.push(DialRecord { addr: addr.clone(), role: opts.role, port_use: opts.port_use, tx: None, polled, dropped, refused: true });
            return Err(TransportError::MultiaddrNotSupported(addr));
        }
        let (tx, rx) = oneshot::channel();
        s.dials.push(DialRecord { addr, role: opts.role, port_use: opts.port_use, tx: Some(tx), polled: polled.clone(), dropped: dropped.clone(), refused: false });
        Ok(DialFut { rx, polled, dropped })
    }

    fn poll(self: Pin<&mut Self>, cx: &mut Context<'_>) -> Poll<TransportEvent<Self::ListenerUpgrade, Self::Error>> {
        let mut s = self.state.lock().unwrap();
        if let Some(ev) = s.events.pop_front() {
            return Poll::Ready(ev);
        }
        s.waker = Some(cx.waker().clone());
        Poll::Pending
    }
}

// ---------------------------------------------------------------------------------------------
// muxer

#[derive(Default)]
pub struct MuxSide {
    inbound: VecDeque<Duplex>,
    waker: Option<Waker>,
    /// poll_close completed or the muxer was dropped
    pub closed: bool,
    /// poll_close was called at least once
    pub close_polled: bool,
    pub dropped: bool,
    /// next `poll` returns this error (muxer failure)
    pub fault: Option<io::ErrorKind>,
    pub addr_changes: VecDeque<Multiaddr>,
    /// poll_outbound stays pending while true (the remote never grants a stream)
    pub hold_outbound: bool,
    pub opened_out: u32,
    pub accepted_in: u32,
}

impl MuxSide {
    fn wake(&mut self) {
        if let Some(w) = self.waker.take() {
            w.wake();
        }
    }
}

pub struct MuxShared {
    sides: [Mutex<MuxSide>; 2],
}

pub struct SimMuxer {
    shared: Arc<MuxShared>,
    side: usize,
}

/// Harness handle onto one side of a muxer pair.
#[derive(Clone)]
pub struct MuxCtl {
    shared: Arc<MuxShared>,
    side: usize,
}

pub fn mux_pair() -> ((SimMuxer, MuxCtl), (SimMuxer, MuxCtl)) {
    let shared = Arc::new(MuxShared { sides: [Mutex::new(MuxSide::default()), Mutex::new(MuxSide::default())] });
    (
        (SimMuxer { shared: shared.clone(), side: 0 }, MuxCtl { shared: shared.clone(), side: 0 }),
        (SimMuxer { shared: shared.clone(), side: 1 }, MuxCtl { shared, side: 1 }),
    )
}

impl MuxCtl {
    pub fn with<R>(&self, f: impl FnOnce(&mut MuxSide) -> R) -> R {
        f(&mut self.shared.sides[self.side].lock().unwrap())
    }
    pub fn with_peer<R>(&self, f: impl FnOnce(&mut MuxSide) -> R) -> R {
        f(&mut self.shared.sides[1 - self.side].lock().unwrap())
    }
    pub fn close_polled(&self) -> bool {
        self.with(|s| s.close_polled)
    }
    pub fn closed(&self) -> bool {
        self.with(|s| s.closed)
    }
    /// make this side's next `poll` fail
    pub fn inject_fault(&self, kind: io::ErrorKind) {
        self.with(|s| {
            s.fault = Some(kind);
            s.wake();
        })
    }
    pub fn address_change(&self, a: Multiaddr) {
        self.with(|s| {
            s.addr_changes.push_back(a);
            s.wake();
        })
    }
    pub fn hold_outbound(&self, hold: bool) {
        self.with(|s| {
            s.hold_outbound = hold;
            s.wake();
        })
    }
    /// act as the remote of this side: close the connection from the other end
    pub fn remote_close(&self) {
        self.with_peer(|s| {
            s.closed = true;
        });
        self.with(|s| s.wake());
    }
    /// act as the remote: open a stream towards this side; returns the remote end
    pub fn remote_open(&self) -> Duplex {
        let (a, b) = simio::plain_pair();
        self.with(|s| {
            s.inbound.push_back(a);
            s.wake();
        });
        b
    }
    /// streams this side opened that the (phantom) peer has not accepted
    pub fn take_peer_inbound(&self) -> Vec<Duplex> {
        self.with_peer(|s| s.inbound.drain(..).collect())
    }
}

impl StreamMuxer for SimMuxer {
    type Substream = Duplex;
    type Error = io::Error;

    fn poll_inbound(self: Pin<&mut Self>, cx: &mut Context<'_>) -> Poll<Result<Self::Substream, Self::Error>> {
        let mut me = self.shared.sides[self.side].lock().unwrap();
        if let Some(s) = me.inbound.pop_front() {
            me.accepted_in += 1;
            return Poll::Ready(Ok(s));
        }
        me.waker = Some(cx.waker().clone());
        Poll::Pending
    }

    fn poll_outbound(self: Pin<&mut Self>, cx: &mut Context<'_>) -> Poll<Result<Self::Substream, Self::Error>> {
        {
            let mut me = self.shared.sides[self.side].lock().unwrap();
            if me.hold_outbound {
                me.waker = Some(cx.waker().clone());
                return Poll::Pending;
            }
            me.opened_out += 1;
        }
        let (a, b) = simio::plain_pair();
        let mut peer = self.shared.sides[1 - self.side].lock().unwrap();
        peer.inbound.push_back(b);
        peer.wake();
        Poll::Ready(Ok(a))
    }

    fn poll_close(self: Pin<&mut Self>, _cx: &mut Context<'_>) -> Poll<Result<(), Self::Error>> {
        {
            let mut me = self.shared.sides[self.side].lock().unwrap();
            me.close_polled = true;
            me.closed = true;
        }
        self.shared.sides[1 - self.side].lock().unwrap().wake();
        Poll::Ready(Ok(()))
    }

    fn poll(self: Pin<&mut Self>, cx: &mut Context<'_>) -> Poll<Result<StreamMuxerEvent, Self::Error>> {
        let peer_closed = self.shared.sides[1 - self.side].lock().unwrap().closed;
        let mut me = self.shared.sides[self.side].lock().unwrap();
        if let Some(k) = me.fault.take() {
            return Poll::Ready(Err(k.into()));
        }
        if let Some(a) = me.addr_changes.pop_front() {
            return Poll::Ready(Ok(StreamMuxerEvent::AddressChange(a)));
        }
        if peer_closed {
            return Poll::Ready(Err(io::Error::new(io::ErrorKind::UnexpectedEof, "remote closed the connection")));
        }
        me.waker = Some(cx.waker().clone());
        Poll::Pending
    }
}

impl Drop for SimMuxer {
    fn drop(&mut self) {
        {
            let mut me = self.shared.sides[self.side].lock().unwrap();
            me.closed = true;
            me.dropped = true;
        }
        self.shared.sides[1 - self.side].lock().unwrap().wake();
    }
}

pub fn boxed(m: SimMuxer) -> StreamMuxerBox {
    StreamMuxerBox::new(m)
}
