//! The world: N real Swarms over simulated transports; connection tasks run on the harness executor.

use crate::net::{self, mux_pair, ConnResult, MuxCtl, NetState, SimMuxer, SimTransport};
use crate::probe::{cid, dial_err_kind, listen_err_kind, ErrKind, Probe, SharedLog};
use futures::channel::oneshot;
use futures::task::{waker, ArcWake};
use futures::Stream as _;
use libp2p_core::transport::{ListenerId, Transport};
use libp2p_core::Multiaddr;
use libp2p_identity::PeerId;
use libp2p_swarm::dial_opts::DialOpts;
use libp2p_swarm::{Config, DialError, NetworkBehaviour, Swarm, SwarmEvent};
use serde::{Deserialize, Serialize};
use std::pin::Pin;
use std::sync::atomic::{AtomicBool, Ordering};
use std::sync::{Arc, Mutex};
use std::task::{Context, Poll};
use vcore::simexec::Exec;

/// Behaviours that contain probes (a single `Probe`, or a derived struct of probes).
pub trait Probes: NetworkBehaviour {
    fn fields(&self) -> usize;
    fn probe(&mut self, field: usize) -> &mut Probe;
}

impl Probes for Probe {
    fn fields(&self) -> usize {
        1
    }
    fn probe(&mut self, _field: usize) -> &mut Probe {
        self
    }
}

/// Serializable summary of a `SwarmEvent`.
#[derive(Clone, Debug, PartialEq, Eq, Serialize, Deserialize)]
pub enum Ev {
    Established { conn: u64, peer: PeerId, num_established: u32, outbound: bool, addr: Multiaddr, dial_errors: Option<Vec<Multiaddr>> },
    Closed { conn: u64, peer: PeerId, num_established: u32, cause: Option<String> },
    Incoming { conn: u64, local: Multiaddr, send_back: Multiaddr },
    IncomingError { conn: u64, err: ErrKind, peer: Option<PeerId> },
    OutgoingError { conn: u64, peer: Option<PeerId>, err: ErrKind, transport_errs: Vec<Multiaddr>, obtained: Option<PeerId> },
    NewListenAddr { l: String, addr: Multiaddr },
    ExpiredListenAddr { l: String, addr: Multiaddr },
    ListenerClosed { l: String, addrs: Vec<Multiaddr>, ok: bool },
    ListenerError { l: String },
    Dialing { conn: u64, peer: Option<PeerId> },
    ExtCandidate(Multiaddr),
    ExtConfirmed(Multiaddr),
    ExtExpired(Multiaddr),
    PeerAddr { peer: PeerId, addr: Multiaddr },
    Behaviour(String),
    Other(String),
}

pub fn summarize_event<T: std::fmt::Debug>(e: &SwarmEvent<T>) -> Ev {
    match e {
        SwarmEvent::ConnectionEstablished { peer_id, connection_id, endpoint, num_established, concurrent_dial_errors, .. } => Ev::Established {
            conn: cid(*connection_id),
            peer: *peer_id,
            num_established: num_established.get(),
            outbound: endpoint.is_dialer(),
            addr: endpoint.get_remote_address().clone(),
            dial_errors: concurrent_dial_errors.as_ref().map(|v| v.iter().map(|(a, _)| a.clone()).collect()),
        },
        SwarmEvent::ConnectionClosed { peer_id, connection_id, num_established, cause, .. } => Ev::Closed {
            conn: cid(*connection_id),
            peer: *peer_id,
            num_established: *num_established,
            cause: cause.as_ref().map(|c| match c {
                libp2p_swarm::ConnectionError::IO(_) => "IO".to_string(),
                libp2p_swarm::ConnectionError::KeepAliveTimeout => "KeepAliveTimeout".to_string(),
            }),
        },
        SwarmEvent::IncomingConnection { connection_id, local_addr, send_back_addr } => Ev::Incoming { conn: cid(*connection_id), local: local_addr.clone(), send_back: send_back_addr.clone() },
        SwarmEvent::IncomingConnectionError { connection_id, error, peer_id, .. } => Ev::IncomingError { conn: cid(*connection_id), err: listen_err_kind(error), peer: *peer_id },
        SwarmEvent::OutgoingConnectionError { connection_id, peer_id, error } => Ev::OutgoingError {
            conn: cid(*connection_id),
            peer: *peer_id,
            err: dial_err_kind(error),
            transport_errs: match error {
                DialError::Transport(v) => v.iter().map(|(a, _)| a.clone()).collect(),
                _ => vec![],
            },
            obtained: match error {
                DialError::WrongPeerId { obtained, .. } => Some(*obtained),
                _ => None,
            },
        },
        SwarmEvent::NewListenAddr { listener_id, address } => Ev::NewListenAddr { l: format!("{listener_id:?}"), addr: address.clone() },
        SwarmEvent::ExpiredListenAddr { listener_id, address } => Ev::ExpiredListenAddr { l: format!("{listener_id:?}"), addr: address.clone() },
        SwarmEvent::ListenerClosed { listener_id, addresses, reason } => Ev::ListenerClosed { l: format!("{listener_id:?}"), addrs: addresses.clone(), ok: reason.is_ok() },
        SwarmEvent::ListenerError { listener_id, .. } => Ev::ListenerError { l: format!("{listener_id:?}") },
        SwarmEvent::Dialing { peer_id, connection_id } => Ev::Dialing { conn: cid(*connection_id), peer: *peer_id },
        SwarmEvent::NewExternalAddrCandidate { address } => Ev::ExtCandidate(address.clone()),
        SwarmEvent::ExternalAddrConfirmed { address } => Ev::ExtConfirmed(address.clone()),
        SwarmEvent::ExternalAddrExpired { address } => Ev::ExtExpired(address.clone()),
        SwarmEvent::NewExternalAddrOfPeer { peer_id, address } => Ev::PeerAddr { peer: *peer_id, addr: address.clone() },
        SwarmEvent::Behaviour(b) => Ev::Behaviour(format!("{b:?}")),
        other => Ev::Other(format!("{other:?}").chars().take(80).collect()),
    }
}

struct WakeFlag(AtomicBool);
impl ArcWake for WakeFlag {
    fn wake_by_ref(a: &Arc<Self>) {
        a.0.store(true, Ordering::SeqCst);
    }
}

pub struct Node<B: NetworkBehaviour> {
    pub swarm: Swarm<B>,
    pub net: Arc<Mutex<NetState>>,
    pub peer: PeerId,
    flag: Arc<WakeFlag>,
    /// listener ids in creation order (successful listen_on calls)
    pub listeners: Vec<ListenerId>,
    /// every event returned so far
    pub events: Vec<Ev>,
}

/// A transport-level connection created by the world.
pub struct Link {
    pub dialer: usize,
    pub dial_idx: usize,
    /// dialer side control
    pub a: MuxCtl,
    /// remote side control
    pub b: MuxCtl,
    /// node that received the remote side as an inbound connection (None = phantom remote)
    pub attached: Option<usize>,
}

pub struct PendingIncoming {
    pub node: usize,
    pub tx: Option<oneshot::Sender<ConnResult>>,
    pub muxer: Option<SimMuxer>,
    pub ctl: MuxCtl,
    /// control handle of the phantom remote side (what the world holds)
    pub remote: MuxCtl,
}

pub struct World<B: NetworkBehaviour> {
    pub exec: Exec,
    pub nodes: Vec<Node<B>>,
    pub log: SharedLog,
    pub links: Vec<Link>,
    pub incoming: Vec<PendingIncoming>,
}

impl<B: NetworkBehaviour> World<B>
where
    B::ToSwarm: std::fmt::Debug,
{
    pub fn new(peers: &[PeerId], mut make: impl FnMut(usize, SharedLog) -> B, cfg: impl Fn(Config) -> Config) -> Self {
        let exec = Exec::new();
        let log: SharedLog = Default::default();
        let mut nodes = vec![];
        for (i, p) in peers.iter().enumerate() {
            let (t, net) = SimTransport::new();
            let ex = exec.clone();
            let config = cfg(Config::with_executor(move |f| ex.spawn_named("conn", f)));
            let swarm = Swarm::new(t.boxed(), make(i, log.clone()), *p, config);
            nodes.push(Node { swarm, net, peer: *p, flag: Arc::new(WakeFlag(AtomicBool::new(true))), listeners: vec![], events: vec![] });
        }
        World { exec, nodes, log, links: vec![], incoming: vec![] }
    }

    /// Poll node `i` once. Returns the event, or None when the swarm is pending.
    pub fn poll(&mut self, i: usize) -> Option<Ev> {
        let n = &mut self.nodes[i];
        n.flag.0.store(false, Ordering::SeqCst);
        let w = waker(n.flag.clone());
        let mut cx = Context::from_waker(&w);
        match Pin::new(&mut n.swarm).poll_next(&mut cx) {
            Poll::Ready(Some(e)) => {
                // a returned event means the swarm may have more work
                n.flag.0.store(true, Ordering::SeqCst);
                let ev = summarize_event(&e);
                n.events.push(ev.clone());
                Some(ev)
            }
            Poll::Ready(None) => None,
            Poll::Pending => None,
        }
    }

    pub fn woken(&self, i: usize) -> bool {
        self.nodes[i].flag.0.load(Ordering::SeqCst)
    }

    /// Run everything (tasks round-robin, swarms in order) until nothing can make progress.
    /// `on_event` is called after every swarm poll that returned an event.
    /// Returns false if `max_rounds` was exhausted.
    pub fn settle(&mut self, max_rounds: usize, on_event: &mut dyn FnMut(&mut Self, usize, &Ev)) -> bool {
        for _ in 0..max_rounds {
            let mut progressed = false;
            if !self.exec.runnable().is_empty() {
                self.exec.drain(64);
                progressed = true;
            }
            for i in 0..self.nodes.len() {
                let mut k = 0;
                while self.woken(i) && k < 64 {
                    k += 1;
                    progressed = true;
                    if let Some(ev) = self.poll(i) {
                        on_event(self, i, &ev);
                    }
                }
            }
            if !progressed {
                return true;
            }
        }
        false
    }

    pub fn listen(&mut self, i: usize, addr: Multiaddr) -> bool {
        match self.nodes[i].swarm.listen_on(addr) {
            Ok(id) => {
                self.nodes[i].listeners.push(id);
                true
            }
            Err(_) => false,
        }
    }

    /// `Swarm::dial`; Ok(connection id) or the synchronous error kind.
    pub fn dial(&mut self, i: usize, opts: DialOpts) -> Result<u64, ErrKind> {
        let id = cid(opts.connection_id());
        match self.nodes[i].swarm.dial(opts) {
            Ok(()) => Ok(id),
            Err(e) => Err(dial_err_kind(&e)),
        }
    }

    pub fn n_dials(&self, i: usize) -> usize {
        self.nodes[i].net.lock().unwrap().dials.len()
    }

    pub fn dial_addr(&self, i: usize, d: usize) -> Multiaddr {
        self.nodes[i].net.lock().unwrap().dials[d].addr.clone()
    }

    pub fn dial_open(&self, i: usize, d: usize) -> bool {
        let s = self.nodes[i].net.lock().unwrap();
        s.dials.get(d).map(|r| r.tx.is_some() && !r.dropped.load(Ordering::SeqCst)).unwrap_or(false)
    }

    /// indices of transport dials of node i that are still unresolved and not dropped
    pub fn open_dials(&self, i: usize) -> Vec<usize> {
        let s = self.nodes[i].net.lock().unwrap();
        s.dials.iter().enumerate().filter(|(_, r)| r.tx.is_some() && !r.dropped.load(Ordering::SeqCst)).map(|(k, _)| k).collect()
    }

    /// Fail transport dial `d` of node `i`.
    pub fn resolve_err(&mut self, i: usize, d: usize) -> bool {
        let tx = self.nodes[i].net.lock().unwrap().dials.get_mut(d).and_then(|r| r.tx.take());
        match tx {
            Some(tx) => tx.send(Err(std::io::Error::new(std::io::ErrorKind::ConnectionRefused, "scripted dial failure"))).is_ok(),
            None => false,
        }
    }

    /// Complete transport dial `d` of node `i`, authenticating the remote as `auth`.
    /// The remote side is a phantom held by the world unless `attach` names a node + listener,
    /// in which case that node sees an inbound connection whose upgrade is left pending
    /// (resolve it with `resolve_incoming`). Returns the link index.
    pub fn resolve_ok(&mut self, i: usize, d: usize, auth: PeerId, attach: Option<(usize, usize, Multiaddr)>) -> Option<usize> {
        let tx = self.nodes[i].net.lock().unwrap().dials.get_mut(d).and_then(|r| r.tx.take())?;
        let ((ma, ca), (mb, cb)) = mux_pair();
        let mut attached = None;
        match attach {
            Some((j, l, send_back)) if l < self.nodes[j].listeners.len() => {
                let lid = self.nodes[j].listeners[l];
                let local = {
                    let s = self.nodes[j].net.lock().unwrap();
                    s.listeners.iter().find(|x| x.id == lid).map(|x| x.requested.clone())
                };
                if let Some(local) = local {
                    let itx = self.nodes[j].net.lock().unwrap().incoming(lid, local, send_back);
                    self.incoming.push(PendingIncoming { node: j, tx: Some(itx), muxer: Some(mb), ctl: cb.clone(), remote: ca.clone() });
                    attached = Some(j);
                } else {
                    drop(mb);
                }
            }
            _ => {
                // phantom remote: keep the muxer alive inside the world by leaking it into a holder task
                self.hold(mb);
            }
        }
        let ok = tx.send(Ok((auth, net::boxed(ma)))).is_ok();
        if !ok {
            return None;
        }
        self.links.push(Link { dialer: i, dial_idx: d, a: ca, b: cb, attached });
        Some(self.links.len() - 1)
    }

    fn hold(&mut self, m: SimMuxer) {
        // a phantom remote end must stay alive until the world closes it explicitly
        // (dropping it would look like a remote close)
        HELD.with(|h| h.borrow_mut().push(m));
    }

    /// An inbound connection from a phantom remote arrives at node `j`, listener index `l`.
    /// Returns the index into `self.incoming`.
    pub fn incoming_phantom(&mut self, j: usize, l: usize, send_back: Multiaddr) -> Option<usize> {
        let lid = *self.nodes[j].listeners.get(l)?;
        let local = {
            let s = self.nodes[j].net.lock().unwrap();
            s.listeners.iter().find(|x| x.id == lid && x.open).map(|x| x.requested.clone())
        }?;
        let ((ma, ca), (mb, cb)) = mux_pair();
        let itx = self.nodes[j].net.lock().unwrap().incoming(lid, local, send_back);
        self.hold(mb);
        self.incoming.push(PendingIncoming { node: j, tx: Some(itx), muxer: Some(ma), ctl: ca, remote: cb });
        Some(self.incoming.len() - 1)
    }

    /// Finish the upgrade of pending inbound connection `k`: Ok(auth) or error.
    pub fn resolve_incoming(&mut self, k: usize, auth: Option<PeerId>) -> bool {
        let Some(p) = self.incoming.get_mut(k) else { return false };
        let Some(tx) = p.tx.take() else { return false };
        match (auth, p.muxer.take()) {
            (Some(a), Some(m)) => tx.send(Ok((a, net::boxed(m)))).is_ok(),
            _ => tx.send(Err(std::io::Error::new(std::io::ErrorKind::InvalidData, "scripted handshake failure"))).is_ok(),
        }
    }

    pub fn open_incoming(&self) -> Vec<usize> {
        self.incoming.iter().enumerate().filter(|(_, p)| p.tx.is_some()).map(|(k, _)| k).collect()
    }
}

thread_local! {
    static HELD: std::cell::RefCell<Vec<SimMuxer>> = const { std::cell::RefCell::new(Vec::new()) };
}

/// Drop all phantom remote ends held for the current thread (call at the end of every case).
pub fn release_phantoms() {
    HELD.with(|h| h.borrow_mut().clear());
}
