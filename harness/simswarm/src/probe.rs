//! Probe behaviour + handler: record every callback in a shared log and execute scripted decisions.

use libp2p_core::transport::PortUse;
use libp2p_core::upgrade::{InboundUpgrade, OutboundUpgrade, UpgradeInfo};
use libp2p_core::{Endpoint, Multiaddr};
use libp2p_identity::PeerId;
use libp2p_swarm::handler::{ConnectionEvent, ProtocolSupport};
use libp2p_swarm::{
    ConnectionDenied, ConnectionHandler, ConnectionHandlerEvent, ConnectionId, DialError, FromSwarm, ListenError, NetworkBehaviour, Stream,
    StreamProtocol, SubstreamProtocol, THandler, THandlerInEvent, THandlerOutEvent, ToSwarm,
};
use serde::{Deserialize, Serialize};
use std::collections::{HashSet, VecDeque};
use std::sync::{Arc, Mutex};
use std::task::{Context, Poll, Waker};

pub fn cid(c: ConnectionId) -> u64 {
    c.to_string().parse().unwrap_or(u64::MAX)
}

#[derive(Clone, Copy, Debug, PartialEq, Eq, Hash, Serialize, Deserialize)]
pub enum Decision {
    PendingIn,
    PendingOut,
    EstIn,
    EstOut,
}

#[derive(Clone, Debug, PartialEq, Eq, Serialize, Deserialize)]
pub enum ErrKind {
    Aborted,
    Denied,
    WrongPeerId,
    LocalPeerId,
    NoAddresses,
    ConditionFalse,
    Transport,
    Other(String),
}

pub fn dial_err_kind(e: &DialError) -> ErrKind {
    match e {
        DialError::Aborted => ErrKind::Aborted,
        DialError::Denied { .. } => ErrKind::Denied,
        DialError::WrongPeerId { .. } => ErrKind::WrongPeerId,
        DialError::LocalPeerId { .. } => ErrKind::LocalPeerId,
        DialError::NoAddresses => ErrKind::NoAddresses,
        DialError::DialPeerConditionFalse(_) => ErrKind::ConditionFalse,
        DialError::Transport(_) => ErrKind::Transport,
    }
}

pub fn listen_err_kind(e: &ListenError) -> ErrKind {
    match e {
        ListenError::Aborted => ErrKind::Aborted,
        ListenError::Denied { .. } => ErrKind::Denied,
        ListenError::WrongPeerId { .. } => ErrKind::WrongPeerId,
        ListenError::LocalPeerId { .. } => ErrKind::LocalPeerId,
        ListenError::Transport(_) => ErrKind::Transport,
    }
}

/// Summary of a `FromSwarm` event.
#[derive(Clone, Debug, PartialEq, Eq, Serialize, Deserialize)]
pub enum FS {
    Established { conn: u64, peer: PeerId, other_established: usize, outbound: bool, failed_addresses: Vec<Multiaddr> },
    Closed { conn: u64, peer: PeerId, remaining: usize, has_cause: bool },
    AddressChange { conn: u64, peer: PeerId },
    DialFailure { conn: u64, peer: Option<PeerId>, err: ErrKind },
    ListenFailure { conn: u64, peer: Option<PeerId>, err: ErrKind },
    NewListener { l: String },
    NewListenAddr { l: String, addr: Multiaddr },
    ExpiredListenAddr { l: String, addr: Multiaddr },
    ListenerError { l: String },
    ListenerClosed { l: String, ok: bool },
    ExtCandidate(Multiaddr),
    ExtConfirmed(Multiaddr),
    ExtExpired(Multiaddr),
    PeerAddr { peer: PeerId, addr: Multiaddr },
    Unknown,
}

pub fn summarize(ev: &FromSwarm<'_>) -> FS {
    match ev {
        FromSwarm::ConnectionEstablished(e) => FS::Established {
            conn: cid(e.connection_id),
            peer: e.peer_id,
            other_established: e.other_established,
            outbound: e.endpoint.is_dialer(),
            failed_addresses: e.failed_addresses.to_vec(),
        },
        FromSwarm::ConnectionClosed(e) => FS::Closed { conn: cid(e.connection_id), peer: e.peer_id, remaining: e.remaining_established, has_cause: e.cause.is_some() },
        FromSwarm::AddressChange(e) => FS::AddressChange { conn: cid(e.connection_id), peer: e.peer_id },
        FromSwarm::DialFailure(e) => FS::DialFailure { conn: cid(e.connection_id), peer: e.peer_id, err: dial_err_kind(e.error) },
        FromSwarm::ListenFailure(e) => FS::ListenFailure { conn: cid(e.connection_id), peer: e.peer_id, err: listen_err_kind(e.error) },
        FromSwarm::NewListener(e) => FS::NewListener { l: format!("{:?}", e.listener_id) },
        FromSwarm::NewListenAddr(e) => FS::NewListenAddr { l: format!("{:?}", e.listener_id), addr: e.addr.clone() },
        FromSwarm::ExpiredListenAddr(e) => FS::ExpiredListenAddr { l: format!("{:?}", e.listener_id), addr: e.addr.clone() },
        FromSwarm::ListenerError(e) => FS::ListenerError { l: format!("{:?}", e.listener_id) },
        FromSwarm::ListenerClosed(e) => FS::ListenerClosed { l: format!("{:?}", e.listener_id), ok: e.reason.is_ok() },
        FromSwarm::NewExternalAddrCandidate(e) => FS::ExtCandidate(e.addr.clone()),
        FromSwarm::ExternalAddrConfirmed(e) => FS::ExtConfirmed(e.addr.clone()),
        FromSwarm::ExternalAddrExpired(e) => FS::ExtExpired(e.addr.clone()),
        FromSwarm::NewExternalAddrOfPeer(e) => FS::PeerAddr { peer: e.peer_id, addr: e.addr.clone() },
        _ => FS::Unknown,
    }
}

/// Summary of a handler's `ConnectionEvent`.
#[derive(Clone, Debug, PartialEq, Eq, Serialize, Deserialize)]
pub enum HC {
    InboundStream { proto: String },
    OutboundStream { proto: String },
    DialUpgradeError { kind: String },
    ListenUpgradeError,
    AddressChange,
    LocalAdded(Vec<String>),
    LocalRemoved(Vec<String>),
    RemoteAdded(Vec<String>),
    RemoteRemoved(Vec<String>),
    Other,
}

#[derive(Clone, Debug, PartialEq, Eq, Serialize, Deserialize)]
pub enum Entry {
    // behaviour decision points (field = index of the probe inside a composed behaviour)
    PendingIn { conn: u64, denied: bool },
    PendingOut { conn: u64, peer: Option<PeerId>, given: Vec<Multiaddr>, returned: Vec<Multiaddr>, denied: bool },
    EstIn { conn: u64, peer: PeerId, denied: bool },
    EstOut { conn: u64, peer: PeerId, addr: Multiaddr, denied: bool },
    Swarm(FS),
    /// on_connection_handler_event
    HandlerEvent { conn: u64, peer: PeerId, tag: u64, from_field: u8 },
    /// behaviour emitted a NotifyHandler from poll
    EmitNotify { peer: PeerId, one: Option<u64>, n: u64, snapshot: Vec<u64> },
    EmitOther(String),
    // handler callbacks
    HNew { conn: u64 },
    HBehaviourEvent { conn: u64, n: u64 },
    HConn { conn: u64, ev: HC },
    HPollClose { conn: u64 },
    HDrop { conn: u64 },
    /// the handler yielded `Some(HOut { tag, .. })` from `poll_close` (recorded at emission)
    HCloseEmit { conn: u64, tag: u64 },
}

#[derive(Clone, Debug)]
pub struct Rec {
    pub seq: u64,
    pub node: u8,
    pub field: u8,
    pub entry: Entry,
}

#[derive(Default)]
pub struct Log {
    pub recs: Vec<Rec>,
}

pub type SharedLog = Arc<Mutex<Log>>;

fn push(log: &SharedLog, node: u8, field: u8, entry: Entry) {
    let mut l = log.lock().unwrap();
    let seq = l.recs.len() as u64;
    l.recs.push(Rec { seq, node, field, entry });
}

// ---------------------------------------------------------------------------------------------
// handler

#[derive(Clone, Debug, PartialEq, Eq, Serialize, Deserialize)]
pub enum HCmd {
    Nop,
    KeepAlive(bool),
    /// request an outbound stream for this protocol name
    Open(String),
    DropStreams,
    /// call ignore_for_keep_alive on every held stream
    IgnoreKeepAlive,
    SetProtocols(Vec<String>),
    ReportRemote { added: bool, protos: Vec<String> },
    /// emit NotifyBehaviour(tag)
    Emit(u64),
    /// write bytes on the i-th held stream
    Write(u8, Vec<u8>),
    /// keep an event HOut { tag } back until the connection closes: it is yielded from `poll_close` (one per call)
    EmitOnClose(u64),
}

#[derive(Clone, Debug, PartialEq, Eq, Serialize, Deserialize)]
pub struct HIn {
    pub n: u64,
    pub cmd: HCmd,
}

#[derive(Clone, Debug, PartialEq, Eq, Serialize, Deserialize)]
pub struct HOut {
    pub tag: u64,
    pub field: u8,
}

#[derive(Clone, Debug)]
pub struct ProbeUpgrade {
    pub names: Vec<String>,
}

impl UpgradeInfo for ProbeUpgrade {
    type Info = String;
    type InfoIter = std::vec::IntoIter<String>;
    fn protocol_info(&self) -> Self::InfoIter {
        self.names.clone().into_iter()
    }
}

impl InboundUpgrade<Stream> for ProbeUpgrade {
    type Output = (Stream, String);
    type Error = std::convert::Infallible;
    type Future = futures::future::Ready<Result<Self::Output, Self::Error>>;
    fn upgrade_inbound(self, socket: Stream, info: String) -> Self::Future {
        futures::future::ready(Ok((socket, info)))
    }
}

impl OutboundUpgrade<Stream> for ProbeUpgrade {
    type Output = (Stream, String);
    type Error = std::convert::Infallible;
    type Future = futures::future::Ready<Result<Self::Output, Self::Error>>;
    fn upgrade_outbound(self, socket: Stream, info: String) -> Self::Future {
        futures::future::ready(Ok((socket, info)))
    }
}

/// Live state of a handler, readable by the harness (shared with the handler object).
#[derive(Default, Debug)]
pub struct HState {
    pub keep_alive: bool,
    pub held_streams: usize,
    pub pending_open: usize,
    pub polls: u64,
    pub alive: bool,
}

pub struct ProbeHandler {
    node: u8,
    field: u8,
    conn: u64,
    log: SharedLog,
    pub state: Arc<Mutex<HState>>,
    protocols: Vec<String>,
    out: VecDeque<ConnectionHandlerEvent<ProbeUpgrade, (), HOut>>,
    /// final events, flushed from `poll_close`
    close_out: VecDeque<HOut>,
    streams: Vec<Stream>,
    waker: Option<Waker>,
    stream_timeout: std::time::Duration,
}

impl ProbeHandler {
    fn wake(&mut self) {
        if let Some(w) = self.waker.take() {
            w.wake();
        }
    }
}

impl Drop for ProbeHandler {
    fn drop(&mut self) {
        self.state.lock().unwrap().alive = false;
        push(&self.log, self.node, self.field, Entry::HDrop { conn: self.conn });
    }
}

fn names(it: impl Iterator<Item = impl AsRef<str>>) -> Vec<String> {
    let mut v: Vec<String> = it.map(|p| p.as_ref().to_string()).collect();
    v.sort();
    v
}

impl ConnectionHandler for ProbeHandler {
    type FromBehaviour = HIn;
    type ToBehaviour = HOut;
    type InboundProtocol = ProbeUpgrade;
    type OutboundProtocol = ProbeUpgrade;
    type InboundOpenInfo = ();
    type OutboundOpenInfo = ();

    fn listen_protocol(&self) -> SubstreamProtocol<Self::InboundProtocol, ()> {
        SubstreamProtocol::new(ProbeUpgrade { names: self.protocols.clone() }, ()).with_timeout(self.stream_timeout)
    }

    fn connection_keep_alive(&self) -> bool {
        self.state.lock().unwrap().keep_alive
    }

    fn poll(&mut self, cx: &mut Context<'_>) -> Poll<ConnectionHandlerEvent<ProbeUpgrade, (), HOut>> {
        self.state.lock().unwrap().polls += 1;
        if let Some(ev) = self.out.pop_front() {
            return Poll::Ready(ev);
        }
        self.waker = Some(cx.waker().clone());
        Poll::Pending
    }

    fn poll_close(&mut self, _: &mut Context<'_>) -> Poll<Option<HOut>> {
        push(&self.log, self.node, self.field, Entry::HPollClose { conn: self.conn });
        if let Some(ev) = self.close_out.pop_front() {
            push(&self.log, self.node, self.field, Entry::HCloseEmit { conn: self.conn, tag: ev.tag });
            return Poll::Ready(Some(ev));
        }
        Poll::Ready(None)
    }

    fn on_behaviour_event(&mut self, ev: HIn) {
        push(&self.log, self.node, self.field, Entry::HBehaviourEvent { conn: self.conn, n: ev.n });
        match ev.cmd {
            HCmd::Nop => {}
            HCmd::KeepAlive(b) => self.state.lock().unwrap().keep_alive = b,
            HCmd::Open(p) => {
                self.state.lock().unwrap().pending_open += 1;
                self.out.push_back(ConnectionHandlerEvent::OutboundSubstreamRequest {
                    protocol: SubstreamProtocol::new(ProbeUpgrade { names: vec![p] }, ()).with_timeout(self.stream_timeout),
                });
            }
            HCmd::DropStreams => {
                self.streams.clear();
                self.state.lock().unwrap().held_streams = 0;
            }
            HCmd::IgnoreKeepAlive => {
                for s in self.streams.iter_mut() {
                    s.ignore_for_keep_alive();
                }
            }
            HCmd::SetProtocols(p) => self.protocols = p,
            HCmd::ReportRemote { added, protos } => {
                let set: HashSet<StreamProtocol> = protos.into_iter().filter_map(|p| StreamProtocol::try_from_owned(p).ok()).collect();
                self.out.push_back(ConnectionHandlerEvent::ReportRemoteProtocols(if added { ProtocolSupport::Added(set) } else { ProtocolSupport::Removed(set) }));
            }
            HCmd::Emit(tag) => self.out.push_back(ConnectionHandlerEvent::NotifyBehaviour(HOut { tag, field: self.field })),
            HCmd::EmitOnClose(tag) => self.close_out.push_back(HOut { tag, field: self.field }),
            HCmd::Write(i, bytes) => {
                use futures::AsyncWrite;
                if let Some(s) = self.streams.get_mut(i as usize) {
                    let w = futures::task::noop_waker();
                    let mut cx = Context::from_waker(&w);
                    let mut off = 0;
                    for _ in 0..64 {
                        if off >= bytes.len() {
                            break;
                        }
                        match std::pin::Pin::new(&mut *s).poll_write(&mut cx, &bytes[off..]) {
                            Poll::Ready(Ok(n)) if n > 0 => off += n,
                            _ => break,
                        }
                    }
                    let _ = std::pin::Pin::new(&mut *s).poll_flush(&mut cx);
                }
            }
        }
        self.wake();
    }

    fn on_connection_event(&mut self, event: ConnectionEvent<ProbeUpgrade, ProbeUpgrade, (), ()>) {
        let ev = match event {
            ConnectionEvent::FullyNegotiatedInbound(f) => {
                let (s, p) = f.protocol;
                self.streams.push(s);
                self.state.lock().unwrap().held_streams = self.streams.len();
                HC::InboundStream { proto: p }
            }
            ConnectionEvent::FullyNegotiatedOutbound(f) => {
                let (s, p) = f.protocol;
                self.streams.push(s);
                let mut st = self.state.lock().unwrap();
                st.held_streams = self.streams.len();
                st.pending_open = st.pending_open.saturating_sub(1);
                HC::OutboundStream { proto: p }
            }
            ConnectionEvent::DialUpgradeError(e) => {
                let mut st = self.state.lock().unwrap();
                st.pending_open = st.pending_open.saturating_sub(1);
                HC::DialUpgradeError { kind: format!("{:?}", e.error).split(['(', ' ']).next().unwrap_or("").to_string() }
            }
            ConnectionEvent::ListenUpgradeError(_) => HC::ListenUpgradeError,
            ConnectionEvent::AddressChange(_) => HC::AddressChange,
            ConnectionEvent::LocalProtocolsChange(c) => match c {
                libp2p_swarm::handler::ProtocolsChange::Added(a) => HC::LocalAdded(names(a)),
                libp2p_swarm::handler::ProtocolsChange::Removed(r) => HC::LocalRemoved(names(r)),
            },
            ConnectionEvent::RemoteProtocolsChange(c) => match c {
                libp2p_swarm::handler::ProtocolsChange::Added(a) => HC::RemoteAdded(names(a)),
                libp2p_swarm::handler::ProtocolsChange::Removed(r) => HC::RemoteRemoved(names(r)),
            },
            _ => HC::Other,
        };
        push(&self.log, self.node, self.field, Entry::HConn { conn: self.conn, ev });
        self.wake();
    }
}

// ---------------------------------------------------------------------------------------------
// behaviour

#[derive(Clone, Debug, Default, PartialEq, Eq, Serialize, Deserialize)]
pub struct ProbeScript {
    /// deny the k-th call (0-based) of the given decision point
    pub deny: Vec<(Decision, u8)>,
    /// addresses returned by the k-th handle_pending_outbound_connection (missing = none)
    pub dial_addrs: Vec<Vec<Multiaddr>>,
    /// protocols advertised by new handlers
    pub protocols: Vec<String>,
    /// handlers start with keep-alive on
    pub keep_alive: bool,
    /// substream upgrade timeout (ms) used by handlers
    pub stream_timeout_ms: u64,
}

#[derive(Debug)]
pub struct DeniedByProbe(pub u8);
impl std::fmt::Display for DeniedByProbe {
    fn fmt(&self, f: &mut std::fmt::Formatter<'_>) -> std::fmt::Result {
        write!(f, "denied by probe field {}", self.0)
    }
}
impl std::error::Error for DeniedByProbe {}

pub struct Probe {
    pub node: u8,
    pub field: u8,
    pub log: SharedLog,
    pub script: ProbeScript,
    calls: [u32; 4],
    pub cmds: VecDeque<ToSwarm<HOut, HIn>>,
    waker: Option<Waker>,
    /// handler states by connection id (for the harness to read keep-alive etc.)
    pub handlers: Arc<Mutex<Vec<(u64, Arc<Mutex<HState>>)>>>,
    /// established connections as seen through FromSwarm (peer, conn)
    pub established: Vec<(PeerId, u64)>,
}

impl Probe {
    pub fn new(node: u8, field: u8, log: SharedLog, script: ProbeScript) -> Self {
        Probe { node, field, log, script, calls: [0; 4], cmds: VecDeque::new(), waker: None, handlers: Default::default(), established: vec![] }
    }

    pub fn push_cmd(&mut self, c: ToSwarm<HOut, HIn>) {
        self.cmds.push_back(c);
        if let Some(w) = self.waker.take() {
            w.wake();
        }
    }

    fn decide(&mut self, d: Decision) -> bool {
        let idx = match d {
            Decision::PendingIn => 0,
            Decision::PendingOut => 1,
            Decision::EstIn => 2,
            Decision::EstOut => 3,
        };
        let k = self.calls[idx];
        self.calls[idx] += 1;
        self.script.deny.iter().any(|(dd, kk)| *dd == d && *kk as u32 == k)
    }

    fn new_handler(&mut self, conn: ConnectionId) -> ProbeHandler {
        let state = Arc::new(Mutex::new(HState { keep_alive: self.script.keep_alive, alive: true, ..Default::default() }));
        self.handlers.lock().unwrap().push((cid(conn), state.clone()));
        push(&self.log, self.node, self.field, Entry::HNew { conn: cid(conn) });
        ProbeHandler {
            node: self.node,
            field: self.field,
            conn: cid(conn),
            log: self.log.clone(),
            state,
            protocols: self.script.protocols.clone(),
            out: VecDeque::new(),
            close_out: VecDeque::new(),
            streams: vec![],
            waker: None,
            stream_timeout: std::time::Duration::from_millis(if self.script.stream_timeout_ms == 0 { 10_000 } else { self.script.stream_timeout_ms }),
        }
    }
}

impl NetworkBehaviour for Probe {
    type ConnectionHandler = ProbeHandler;
    type ToSwarm = HOut;

    fn handle_pending_inbound_connection(&mut self, id: ConnectionId, _l: &Multiaddr, _r: &Multiaddr) -> Result<(), ConnectionDenied> {
        let denied = self.decide(Decision::PendingIn);
        push(&self.log, self.node, self.field, Entry::PendingIn { conn: cid(id), denied });
        if denied {
            Err(ConnectionDenied::new(DeniedByProbe(self.field)))
        } else {
            Ok(())
        }
    }

    fn handle_established_inbound_connection(&mut self, id: ConnectionId, peer: PeerId, _l: &Multiaddr, _r: &Multiaddr) -> Result<THandler<Self>, ConnectionDenied> {
        let denied = self.decide(Decision::EstIn);
        push(&self.log, self.node, self.field, Entry::EstIn { conn: cid(id), peer, denied });
        if denied {
            Err(ConnectionDenied::new(DeniedByProbe(self.field)))
        } else {
            Ok(self.new_handler(id))
        }
    }

    fn handle_pending_outbound_connection(&mut self, id: ConnectionId, peer: Option<PeerId>, addrs: &[Multiaddr], _role: Endpoint) -> Result<Vec<Multiaddr>, ConnectionDenied> {
        let k = self.calls[1] as usize;
        let denied = self.decide(Decision::PendingOut);
        let returned = self.script.dial_addrs.get(k).cloned().unwrap_or_default();
        push(&self.log, self.node, self.field, Entry::PendingOut { conn: cid(id), peer, given: addrs.to_vec(), returned: returned.clone(), denied });
        if denied {
            Err(ConnectionDenied::new(DeniedByProbe(self.field)))
        } else {
            Ok(returned)
        }
    }

    fn handle_established_outbound_connection(&mut self, id: ConnectionId, peer: PeerId, addr: &Multiaddr, _role: Endpoint, _pu: PortUse) -> Result<THandler<Self>, ConnectionDenied> {
        let denied = self.decide(Decision::EstOut);
        push(&self.log, self.node, self.field, Entry::EstOut { conn: cid(id), peer, addr: addr.clone(), denied });
        if denied {
            Err(ConnectionDenied::new(DeniedByProbe(self.field)))
        } else {
            Ok(self.new_handler(id))
        }
    }

    fn on_swarm_event(&mut self, event: FromSwarm) {
        let s = summarize(&event);
        match &s {
            FS::Established { conn, peer, .. } => self.established.push((*peer, *conn)),
            FS::Closed { conn, .. } => self.established.retain(|(_, c)| c != conn),
            _ => {}
        }
        push(&self.log, self.node, self.field, Entry::Swarm(s));
    }

    fn on_connection_handler_event(&mut self, peer: PeerId, conn: ConnectionId, ev: THandlerOutEvent<Self>) {
        push(&self.log, self.node, self.field, Entry::HandlerEvent { conn: cid(conn), peer, tag: ev.tag, from_field: ev.field });
    }

    fn poll(&mut self, cx: &mut Context<'_>) -> Poll<ToSwarm<Self::ToSwarm, THandlerInEvent<Self>>> {
        if let Some(c) = self.cmds.pop_front() {
            match &c {
                ToSwarm::NotifyHandler { peer_id, handler, event } => {
                    let one = match handler {
                        libp2p_swarm::NotifyHandler::One(c) => Some(cid(*c)),
                        libp2p_swarm::NotifyHandler::Any => None,
                    };
                    let snapshot: Vec<u64> = self.established.iter().filter(|(p, _)| p == peer_id).map(|(_, c)| *c).collect();
                    push(&self.log, self.node, self.field, Entry::EmitNotify { peer: *peer_id, one, n: event.n, snapshot });
                }
                other => {
                    let d = format!("{other:?}");
                    push(&self.log, self.node, self.field, Entry::EmitOther(d.chars().take(60).collect()));
                }
            }
            return Poll::Ready(c);
        }
        self.waker = Some(cx.waker().clone());
        Poll::Pending
    }
}
