mod c27;
mod c28;
mod c29;
mod c35;
pub mod c32b;
mod driver;
mod mesh;

fn c32b_only(ctx: &mut vcore::Ctx) {
    c32b::run_behaviour_part(ctx)
}

fn main() {
    // "C32b" is a private alias so that the behaviour-level C32 sub-check can be exercised from this
    // binary; the registered C32 entry belongs to chk-gsub-pure.
    vcore::runner::main(&[("C27", c27::run), ("C28", c28::run), ("C29", c29::run), ("C35", c35::run), ("C32b", c32b_only)])
}
