//! Shared history generator + step oracle for C28 (mesh eligibility) and C29 (handler mesh flag).
//!
//! One real `gossipsub::Behaviour` is driven through arbitrary histories of connections,
//! subscription / GRAFT / PRUNE RPCs (real wire bytes), local (un)subscribes, explicit-peer and
//! score changes, explicit heartbeats and virtual-clock advances. After **every** step the
//! oracle of the selected property is evaluated against a small reference model kept by the
//! harness (who is connected with which protocol, who is explicit, which backoffs were announced
//! on the wire in either direction, which application scores were set).

use crate::driver::*;
use libp2p_core::verif_clock;
use libp2p_gossipsub as gs;
use libp2p_identity::PeerId;
use proptest::prelude::*;
use serde::{Deserialize, Serialize};
use serde_json::json;
use std::collections::{BTreeMap, BTreeSet};
use std::time::Duration;
use vcore::{pick, Outcome};

pub const NT: u8 = 3; // topics t0..t2

#[derive(Clone, Debug, Serialize, Deserialize)]
pub enum Op {
    Connect { peer: u16, outbound: bool },
    Disconnect { peer: u16, which: u16 },
    /// one RPC from `peer` (on its `conn`-th live connection)
    Rpc { peer: u16, conn: u16, subs: Vec<(u8, bool)>, grafts: Vec<u8>, prunes: Vec<(u8, Option<u16>)> },
    LocalSub(u8),
    LocalUnsub(u8),
    Explicit { peer: u16, add: bool },
    AppScore { peer: u16, score: i8 },
    Publish(u8),
    /// every pool peer (that is connected) sends GRAFT for the topic, one RPC (= one step) each
    GraftAll(u8),
    Heartbeat,
    AdvanceMs(u32),
}

#[derive(Clone, Debug, Serialize, Deserialize)]
pub struct Case {
    pub cfg: NodeCfg,
    /// protocol of each pool peer (1 floodsub, 2..5 gossipsub 1.0..1.3)
    pub kinds: Vec<u8>,
    /// peers 0..warm are connected and subscribed to every topic before the generated ops
    pub warm: u8,
    /// bit i ⇒ the node subscribes to topic i before the generated ops
    pub local_mask: u8,
    pub ops: Vec<Op>,
}

#[derive(Clone, Copy, PartialEq, Eq)]
pub enum Mode {
    C28,
    C29,
    /// C32 behaviour-level clause (backed-off peers are neither grafted nor allowed to graft)
    C32,
}

/// a valid mesh parameter set (outbound_min, n_low, n, n_high): outbound_min <= n_low <= n <= n_high,
/// 2*outbound_min <= n; n_low 1..3, n 2..4, n_high 3..6
fn mesh_params() -> impl Strategy<Value = (usize, usize, usize, usize)> {
    (1usize..=3, 0usize..=2, 0usize..=3).prop_map(|(lo, dn, dh)| {
        let n = (lo + dn).max(2).min(4).max(lo);
        let n_high = (n + dh).max(3).min(6).max(n);
        let outbound_min = if lo >= 2 && n >= 4 { 2.min(lo) } else if n >= 2 { 1.min(lo) } else { 0 };
        (outbound_min.min(n / 2), lo, n, n_high)
    })
}

fn cfg_strategy(backoff_max: u64) -> impl Strategy<Value = NodeCfg> {
    (
        mesh_params(),
        // every topic gets its own mesh parameter set with probability 0.4 (ConfigBuilder::mesh_*_for_topic)
        prop::collection::vec(prop::option::weighted(0.4, mesh_params()), NT as usize),
        1u64..=backoff_max,
        1u64..=5,
        0u32..=2,
        any::<bool>(),
        prop::bool::weighted(0.7),
        prop_oneof![Just(60u64), Just(2u64), Just(1u64)],
    )
        .prop_map(|((outbound_min, n_low, n, n_high), per_topic, pb, ub, slack, flood, scoring, opp)| NodeCfg {
            outbound_min,
            n_low,
            n,
            n_high,
            prune_backoff_s: pb,
            unsub_backoff_s: ub,
            backoff_slack: slack,
            flood_publish: flood,
            scoring,
            fanout_ttl_s: 60,
            opportunistic_ticks: opp,
            topic_mesh: per_topic
                .into_iter()
                .enumerate()
                .filter_map(|(t, m)| m.map(|(outbound_min, n_low, n, n_high)| TopicMesh { topic: t as u8, outbound_min, n_low, n, n_high }))
                .collect(),
            validate_messages: false,
        })
}

fn topics_vec(max: usize) -> impl Strategy<Value = Vec<u8>> {
    prop::collection::vec(0u8..NT, 1..=max)
}

fn op_strategy(backoff_max: u64) -> impl Strategy<Value = Op> {
    let bmax = backoff_max as u16;
    prop_oneof![
        8 => (any::<u16>(), any::<u16>(), topics_vec(3)).prop_map(|(peer, conn, grafts)| Op::Rpc { peer, conn, subs: vec![], grafts, prunes: vec![] }),
        4 => (any::<u16>(), any::<u16>(), prop::collection::vec((0u8..NT, prop::bool::weighted(0.7)), 1..=3))
            .prop_map(|(peer, conn, subs)| Op::Rpc { peer, conn, subs, grafts: vec![], prunes: vec![] }),
        4 => (any::<u16>(), any::<u16>(), prop::collection::vec((0u8..NT, prop::option::weighted(0.8, 0u16..=bmax * 2)), 1..=3))
            .prop_map(|(peer, conn, prunes)| Op::Rpc { peer, conn, subs: vec![], grafts: vec![], prunes }),
        2 => (any::<u16>(), any::<u16>(), prop::collection::vec((0u8..NT, any::<bool>()), 0..=2), prop::collection::vec(0u8..NT, 0..=2),
              prop::collection::vec((0u8..NT, prop::option::of(0u16..=bmax)), 0..=2))
            .prop_map(|(peer, conn, subs, grafts, prunes)| Op::Rpc { peer, conn, subs, grafts, prunes }),
        7 => Just(Op::Heartbeat),
        4 => prop_oneof![
                3 => (0u32..3_000).prop_map(Op::AdvanceMs),
                3 => (0u32..=(backoff_max as u32 * 1000 * 2 + 3000)).prop_map(Op::AdvanceMs),
                1 => (0u32..20).prop_map(|s| Op::AdvanceMs(s * 1000)),
             ],
        3 => (any::<u16>(), any::<bool>()).prop_map(|(peer, outbound)| Op::Connect { peer, outbound }),
        2 => (any::<u16>(), any::<u16>()).prop_map(|(peer, which)| Op::Disconnect { peer, which }),
        2 => (0u8..NT).prop_map(Op::LocalSub),
        2 => (0u8..NT).prop_map(Op::LocalUnsub),
        1 => (any::<u16>(), prop::bool::weighted(0.6)).prop_map(|(peer, add)| Op::Explicit { peer, add }),
        3 => (any::<u16>(), prop_oneof![Just(-5i8), Just(-1i8), Just(0i8), Just(3i8), Just(10i8), any::<i8>()]).prop_map(|(peer, score)| Op::AppScore { peer, score }),
        1 => (0u8..NT).prop_map(Op::Publish),
        2 => (0u8..NT).prop_map(Op::GraftAll),
    ]
}

pub fn case_strategy(max_ops: usize, backoff_max: u64) -> BoxedStrategy<Case> {
    (
        cfg_strategy(backoff_max),
        prop::collection::vec(prop_oneof![1 => Just(KIND_FLOODSUB), 1 => Just(2u8), 5 => Just(KIND_GS11), 2 => Just(4u8), 1 => Just(5u8)], 1..=14),
        any::<u8>(),
        0u8..8,
        prop::collection::vec(op_strategy(backoff_max), 3..=max_ops),
    )
        .prop_map(|(cfg, kinds, warm, local_mask, ops)| {
            let warm = (pick((warm as u16) << 8, kinds.len() + 1)) as u8;
            Case { cfg, kinds, warm, local_mask, ops }
        })
        .boxed()
}

/// reference model kept by the harness
struct Model {
    explicit: BTreeSet<usize>,
    /// announced backoff expiry per (topic, peer), virtual time since start
    backoff: BTreeMap<(u8, usize), Duration>,
    app_score: BTreeMap<usize, i8>,
    next_conn: u64,
    /// (topic, peer) pairs that were mesh members at the moment the peer was made explicit
    tainted: BTreeSet<(u8, usize)>,
}

pub struct Stats {
    pub graft_rejected_high: u32,
    /// ... of which: the topic has its own mesh_n_high and the mesh was still below the default mesh_n_high
    pub graft_rejected_topic_high_below_default: u32,
    /// a GRAFT was accepted into a mesh that already had >= default mesh_n_high members (topic bound is higher)
    pub graft_accepted_above_default_high: u32,
    /// a heartbeat changed the mesh of a topic that has its own mesh parameter set
    pub hb_changed_topic_cfg_mesh: u32,
    /// a peer left one mesh, stayed in another, and is subscribed to a topic the node is not subscribed to
    pub left_one_mesh_stays_in_other_foreign_topic: u32,
    pub graft_rejected_backoff: u32,
    pub graft_rejected_score: u32,
    pub graft_accepted: u32,
    pub hb_changed_mesh: u32,
    pub multi_topic_change: u32,
    pub multi_topic_hb_join: u32,
    pub entered_total: u32,
    pub backoff_blocked_steps: u32,
    pub multi_conn_member: u32,
    pub backoff_graft_penalised: u32,
    pub backoff_outlived_prune_backoff: u32,
}

fn prefix(mode: Mode) -> &'static str {
    match mode {
        Mode::C28 => "C28",
        Mode::C29 => "C29",
        Mode::C32 => "C32",
    }
}

pub fn run_case(case: &Case, mode: Mode) -> Result<Stats, Outcome> {
    verif_clock::set(Duration::ZERO);
    let npeers = case.kinds.len();
    let pool: Vec<PeerId> = (0..npeers).map(|i| node_key(1000 + i as u16).public().to_peer_id()).collect();
    let index_of: BTreeMap<PeerId, usize> = pool.iter().enumerate().map(|(i, p)| (*p, i)).collect();
    let topics: Vec<gs::TopicHash> = (0..NT).map(topic_hash).collect();
    let mut node = Node::new(node_key(0), &case.cfg);
    let mut model = Model { explicit: BTreeSet::new(), backoff: BTreeMap::new(), app_score: BTreeMap::new(), next_conn: 1, tainted: BTreeSet::new() };
    let mut stats = Stats {
        graft_rejected_high: 0,
        graft_rejected_topic_high_below_default: 0,
        graft_accepted_above_default_high: 0,
        hb_changed_topic_cfg_mesh: 0,
        left_one_mesh_stays_in_other_foreign_topic: 0,
        graft_rejected_backoff: 0,
        graft_rejected_score: 0,
        graft_accepted: 0,
        hb_changed_mesh: 0,
        multi_topic_change: 0,
        multi_topic_hb_join: 0,
        entered_total: 0,
        backoff_blocked_steps: 0,
        multi_conn_member: 0,
        backoff_graft_penalised: 0,
        backoff_outlived_prune_backoff: 0,
    };
    let pfx = prefix(mode);

    // prelude expressed as ordinary ops, checked like any other step
    let mut ops: Vec<Op> = vec![];
    for t in 0..NT {
        if case.local_mask & (1 << t) != 0 {
            ops.push(Op::LocalSub(t));
        }
    }
    let pool_ix = |i: usize| -> u16 { (((i as u32) << 16) / npeers as u32 + 1).min(65535) as u16 };
    for i in 0..(case.warm as usize).min(npeers) {
        debug_assert_eq!(pick(pool_ix(i), npeers), i);
        ops.push(Op::Connect { peer: pool_ix(i), outbound: i % 2 == 0 });
        ops.push(Op::Rpc { peer: pool_ix(i), conn: 0, subs: (0..NT).map(|t| (t, true)).collect(), grafts: vec![], prunes: vec![] });
    }
    let prelude_len = ops.len();
    for op in &case.ops {
        match op {
            Op::GraftAll(t) => {
                for i in 0..npeers {
                    ops.push(Op::Rpc { peer: pool_ix(i), conn: 0, subs: vec![], grafts: vec![*t], prunes: vec![] });
                }
            }
            other => ops.push(other.clone()),
        }
    }

    for (step, op) in ops.iter().enumerate() {
        let now = verif_clock::since_start();
        let mesh_before: Vec<BTreeSet<PeerId>> = topics.iter().map(|t| node.mesh(t)).collect();
        let subscribed_before: Vec<bool> = topics.iter().map(|t| node.subscribed(t)).collect();
        let score_before: Vec<Option<f64>> = pool.iter().map(|p| node.gs.peer_score(p)).collect();
        let explicit_before = model.explicit.clone();
        let backoff_before = model.backoff.clone();
        let mut delivered_grafts: Vec<(usize, u8)> = vec![]; // pure GRAFT rpc only
        let mut delivered_prunes: Vec<(usize, u8, Option<u16>)> = vec![];
        let mut is_heartbeat = false;
        let mut raised_score: Option<usize> = None;

        match op {
            Op::Connect { peer, outbound } => {
                let i = pick(*peer, npeers);
                if node.conns_of(&pool[i]).len() < 3 {
                    let id = model.next_conn;
                    model.next_conn += 1;
                    node.connect(pool[i], id, *outbound);
                    node.peer_kind(id, case.kinds[i]);
                }
            }
            Op::Disconnect { peer, which } => {
                let i = pick(*peer, npeers);
                let conns = node.conns_of(&pool[i]);
                if !conns.is_empty() {
                    node.disconnect(conns[pick(*which, conns.len())]);
                }
            }
            Op::Rpc { peer, conn, subs, grafts, prunes } => {
                let i = pick(*peer, npeers);
                let conns = node.conns_of(&pool[i]);
                if !conns.is_empty() {
                    let id = conns[pick(*conn, conns.len())];
                    let mut rpc = rpc_control(grafts, &prunes.iter().map(|(t, b)| (*t, b.map(u64::from))).collect::<Vec<_>>());
                    rpc.subscriptions = rpc_subs(subs).subscriptions;
                    if grafts.is_empty() && prunes.is_empty() {
                        rpc.control = None;
                    }
                    if let Err(e) = node.deliver(id, &rpc) {
                        return Err(Outcome::fail(format!("{pfx}:harness-rpc-refused-by-codec"), json!({"step": step, "err": e})));
                    }
                    if subs.is_empty() && prunes.is_empty() {
                        let mut seen = BTreeSet::new();
                        for t in grafts {
                            if seen.insert(*t) {
                                delivered_grafts.push((i, *t));
                            }
                        }
                    }
                    for (t, b) in prunes {
                        delivered_prunes.push((i, *t, *b));
                    }
                }
            }
            Op::LocalSub(t) => {
                let _ = node.gs.subscribe(&topic(*t));
            }
            Op::LocalUnsub(t) => {
                let _ = node.gs.unsubscribe(&topic(*t));
            }
            Op::Explicit { peer, add } => {
                let i = pick(*peer, npeers);
                if *add {
                    node.gs.add_explicit_peer(&pool[i]);
                    if model.explicit.insert(i) {
                        for t in 0..NT {
                            if mesh_before[t as usize].contains(&pool[i]) {
                                model.tainted.insert((t, i));
                            }
                        }
                    }
                } else {
                    node.gs.remove_explicit_peer(&pool[i]);
                    model.explicit.remove(&i);
                    model.tainted.retain(|(_, p)| *p != i);
                }
            }
            Op::AppScore { peer, score } => {
                let i = pick(*peer, npeers);
                if node.gs.set_application_score(&pool[i], *score as f64) {
                    model.app_score.insert(i, *score);
                    raised_score = Some(i);
                }
            }
            Op::Publish(t) => {
                let _ = node.gs.publish(topic_hash(*t), vec![step as u8, 1, 2, 3]);
            }
            Op::GraftAll(_) => unreachable!("expanded above"),
            Op::Heartbeat => {
                is_heartbeat = true;
                node.heartbeat();
            }
            Op::AdvanceMs(ms) => verif_clock::advance(Duration::from_millis(*ms as u64)),
        }
        node.drain();

        // everything the node sent in this step, per peer
        let mut emitted: BTreeMap<usize, OutSummary> = BTreeMap::new();
        for (i, p) in pool.iter().enumerate() {
            if node.is_connected(p) {
                let rpcs = node.pop(p);
                if !rpcs.is_empty() {
                    emitted.insert(i, summarize(&rpcs));
                }
            }
        }
        let mesh_after: Vec<BTreeSet<PeerId>> = topics.iter().map(|t| node.mesh(t)).collect();
        let ctx = |extra: serde_json::Value| {
            json!({"step": step, "prelude_steps": prelude_len, "op": format!("{op:?}"), "now_ms": now.as_millis() as u64,
                   "mesh_before": mesh_before.iter().map(|m| m.iter().map(short).collect::<Vec<_>>()).collect::<Vec<_>>(),
                   "mesh_after": mesh_after.iter().map(|m| m.iter().map(short).collect::<Vec<_>>()).collect::<Vec<_>>(),
                   "detail": extra})
        };

        // model: backoffs announced on the wire in this step (take effect for later steps, and for
        // the C32 clause also within this step's GRAFT handling only if announced earlier)
        for (i, t, b) in &delivered_prunes {
            let d = match b {
                Some(s) => Duration::from_secs((*s as u64).min(3600)),
                None => Duration::from_secs(case.cfg.prune_backoff_s),
            };
            let e = model.backoff.entry((*t, *i)).or_insert(Duration::ZERO);
            *e = (*e).max(now + d);
            if d.as_secs() > case.cfg.prune_backoff_s {
                stats.backoff_outlived_prune_backoff += 1;
            }
        }
        for (i, s) in &emitted {
            for (tname, b) in &s.prunes {
                if let (Some(t), Some(secs)) = ((0..NT).find(|t| &topic_name(*t) == tname), b) {
                    let e = model.backoff.entry((t, *i)).or_insert(Duration::ZERO);
                    *e = (*e).max(now + Duration::from_secs(*secs));
                }
            }
        }

        let mut changed_any = false;
        let mut per_peer_changes: BTreeMap<usize, (u32, u32)> = BTreeMap::new(); // (joined, left) topic counts
        for t in 0..NT as usize {
            for p in mesh_after[t].difference(&mesh_before[t]) {
                changed_any = true;
                stats.entered_total += 1;
                if let Some(i) = index_of.get(p) {
                    per_peer_changes.entry(*i).or_default().0 += 1;
                }
            }
            for p in mesh_before[t].difference(&mesh_after[t]) {
                changed_any = true;
                if let Some(i) = index_of.get(p) {
                    per_peer_changes.entry(*i).or_default().1 += 1;
                }
            }
        }
        if is_heartbeat && changed_any {
            stats.hb_changed_mesh += 1;
            if (0..NT).any(|t| case.cfg.has_topic_mesh(t) && mesh_after[t as usize] != mesh_before[t as usize]) {
                stats.hb_changed_topic_cfg_mesh += 1;
            }
        }
        // a peer left one mesh but stays in another while being subscribed to a topic the node has no
        // mesh for (the "is the peer in any other mesh" scan has to skip that topic)
        for (i, (_, l)) in &per_peer_changes {
            if *l >= 1 && mesh_after.iter().any(|m| m.contains(&pool[*i])) {
                let foreign = node.gs.all_peers().find(|(p, _)| **p == pool[*i]).map(|(_, ts)| ts.into_iter().any(|t| !node.subscribed(t))).unwrap_or(false);
                if foreign {
                    stats.left_one_mesh_stays_in_other_foreign_topic += 1;
                }
            }
        }
        for (j, l) in per_peer_changes.values() {
            if j + l >= 2 {
                stats.multi_topic_change += 1;
                if is_heartbeat && *j >= 2 {
                    stats.multi_topic_hb_join += 1;
                }
            }
        }

        // ---------------------------------------------------------------- C28
        if mode == Mode::C28 {
            // (a) every member is a connected gossipsub peer subscribed to the topic, not explicit
            let all: BTreeMap<PeerId, Vec<gs::TopicHash>> = node.gs.all_peers().map(|(p, ts)| (*p, ts.into_iter().cloned().collect())).collect();
            for t in 0..NT as usize {
                if !node.subscribed(&topics[t]) {
                    if !mesh_after[t].is_empty() {
                        return Err(Outcome::fail("C28:mesh-for-unsubscribed-topic", ctx(json!({"topic": t}))));
                    }
                    continue;
                }
                for p in &mesh_after[t] {
                    let Some(&i) = index_of.get(p) else {
                        return Err(Outcome::fail("C28:member-unknown-peer", ctx(json!({"topic": t, "peer": short(p)}))));
                    };
                    if !node.is_connected(p) {
                        return Err(Outcome::fail("C28:member-not-connected", ctx(json!({"topic": t, "peer": short(p)}))));
                    }
                    if case.kinds[i] < 2 {
                        return Err(Outcome::fail("C28:member-not-gossipsub", ctx(json!({"topic": t, "peer": short(p), "kind": case.kinds[i]}))));
                    }
                    if !all.get(p).map(|ts| ts.contains(&topics[t])).unwrap_or(false) {
                        return Err(Outcome::fail("C28:member-not-subscribed", ctx(json!({"topic": t, "peer": short(p)}))));
                    }
                    if model.explicit.contains(&i) && !model.tainted.contains(&(t as u8, i)) {
                        return Err(Outcome::fail("C28:member-explicit", ctx(json!({"topic": t, "peer": short(p)}))));
                    }
                }
            }
            // a tainted pair stops being tainted once the peer left that mesh
            model.tainted.retain(|(tt, i)| mesh_after[*tt as usize].contains(&pool[*i]));
            // (b) whoever entered a mesh in this step was eligible
            for t in 0..NT as usize {
                for p in mesh_after[t].difference(&mesh_before[t]) {
                    let i = index_of[p];
                    if explicit_before.contains(&i) && model.explicit.contains(&i) {
                        return Err(Outcome::fail("C28:added-explicit-peer", ctx(json!({"topic": t, "peer": short(p)}))));
                    }
                    if let Some(exp) = backoff_before.get(&(t as u8, i)) {
                        if *exp > now {
                            return Err(Outcome::fail(
                                "C28:added-backed-off-peer",
                                ctx(json!({"topic": t, "peer": short(p), "backoff_until_ms": exp.as_millis() as u64})),
                            ));
                        }
                    }
                    if raised_score != Some(i) {
                        if let Some(Some(s)) = score_before.get(i) {
                            if *s < 0.0 {
                                return Err(Outcome::fail("C28:added-negative-score-peer", ctx(json!({"topic": t, "peer": short(p), "score_before": s}))));
                            }
                        }
                    }
                }
            }
        }

        // GRAFT bookkeeping (labels for every mode; assertions for C28 / C32)
        for (i, t) in &delivered_grafts {
            let tu = *t as usize;
            let p = &pool[*i];
            if !subscribed_before[tu] || mesh_before[tu].contains(p) {
                continue;
            }
            let accepted = mesh_after[tu].contains(p);
            let pruned = emitted.get(i).map(|s| s.prunes.iter().any(|(n, _)| n == &topic_name(*t))).unwrap_or(false);
            // the bound in force for *this* topic (its own mesh parameter set, else the default one)
            let n_high = case.cfg.mesh_for(*t).n_high;
            let at_high = mesh_before[tu].len() >= n_high;
            let backed_off = backoff_before.get(&(*t, *i)).map(|e| *e > now).unwrap_or(false);
            let negative = score_before[*i].map(|s| s < 0.0).unwrap_or(false);
            let explicit = explicit_before.contains(i);
            // a peer that negotiated floodsub is ignored altogether (no PRUNE, no penalty)
            let gossipsub = case.kinds[*i] >= 2;
            if accepted {
                stats.graft_accepted += 1;
                if case.cfg.has_topic_mesh(*t) && mesh_before[tu].len() >= case.cfg.n_high {
                    stats.graft_accepted_above_default_high += 1;
                }
            } else if backed_off {
                stats.graft_rejected_backoff += 1;
            } else if negative {
                stats.graft_rejected_score += 1;
            } else if at_high {
                stats.graft_rejected_high += 1;
                if case.cfg.has_topic_mesh(*t) && mesh_before[tu].len() < case.cfg.n_high {
                    stats.graft_rejected_topic_high_below_default += 1;
                }
            }
            if mode == Mode::C28 && at_high {
                if accepted {
                    return Err(Outcome::fail(
                        "C28:graft-accepted-at-mesh-n-high",
                        ctx(json!({"topic": t, "peer": short(p), "n_high": n_high, "default_n_high": case.cfg.n_high, "topic_has_own_mesh_params": case.cfg.has_topic_mesh(*t)})),
                    ));
                }
                if !explicit && gossipsub && !pruned {
                    return Err(Outcome::fail("C28:refused-graft-without-prune", ctx(json!({"topic": t, "peer": short(p), "n_high": case.cfg.n_high}))));
                }
            }
            if mode == Mode::C32 && backed_off {
                if accepted {
                    return Err(Outcome::fail("C32:graft-accepted-during-backoff", ctx(json!({"topic": t, "peer": short(p)}))));
                }
                if !explicit && gossipsub {
                    if !pruned {
                        return Err(Outcome::fail("C32:backoff-graft-not-pruned", ctx(json!({"topic": t, "peer": short(p)}))));
                    }
                    if case.cfg.scoring {
                        let after = node.gs.peer_score(p);
                        match (score_before[*i], after) {
                            (Some(b), Some(a)) if a < b => stats.backoff_graft_penalised += 1,
                            (b, a) => {
                                return Err(Outcome::fail(
                                    "C32:backoff-graft-not-penalised",
                                    ctx(json!({"topic": t, "peer": short(p), "score_before": b, "score_after": a})),
                                ))
                            }
                        }
                    }
                }
            }
        }

        // ---------------------------------------------------------------- C32 behaviour clause
        if mode == Mode::C32 {
            for t in 0..NT as usize {
                for p in mesh_after[t].difference(&mesh_before[t]) {
                    let i = index_of[p];
                    if let Some(exp) = backoff_before.get(&(t as u8, i)) {
                        if *exp > now {
                            return Err(Outcome::fail(
                                "C32:grafted-during-backoff",
                                ctx(json!({"topic": t, "peer": short(p), "backoff_until_ms": exp.as_millis() as u64})),
                            ));
                        }
                    }
                }
                // count steps where a backed-off, otherwise eligible peer was available and stayed out
                if is_heartbeat && node.subscribed(&topics[t]) {
                    for ((tt, i), exp) in &backoff_before {
                        if *tt as usize == t && *exp > now && node.is_connected(&pool[*i]) && case.kinds[*i] >= 2 && !mesh_after[t].contains(&pool[*i]) {
                            stats.backoff_blocked_steps += 1;
                        }
                    }
                }
            }
        }

        // ---------------------------------------------------------------- C29
        if mode == Mode::C29 {
            for (i, p) in pool.iter().enumerate() {
                if !node.is_connected(p) {
                    continue;
                }
                let in_mesh = mesh_after.iter().any(|m| m.contains(p));
                let believes = node.believes(p);
                if in_mesh && node.conns_of(p).len() >= 2 {
                    stats.multi_conn_member += 1;
                }
                if in_mesh != believes {
                    let (j, l) = per_peer_changes.get(&i).copied().unwrap_or((0, 0));
                    let sig = match (in_mesh, is_heartbeat, j >= 2) {
                        (true, true, true) => "C29:in-mesh-but-handler-not-told:heartbeat-multi-topic-graft",
                        (true, _, _) => "C29:in-mesh-but-handler-not-told",
                        (false, _, _) => "C29:not-in-mesh-but-handler-keeps-alive",
                    };
                    return Err(Outcome::fail(
                        sig,
                        ctx(json!({"peer": short(p), "in_mesh": in_mesh, "handler_keep_alive": believes, "joined_topics_this_step": j, "left_topics_this_step": l,
                                   "connections": node.conns_of(p), "notifies": node.notifies.iter().map(|(q, c, k, ok)| json!([short(q), c, format!("{k:?}"), ok])).collect::<Vec<_>>()})),
                    ));
                }
            }
        }
        node.notifies.clear();
        node.app_events.clear();
    }

    if mode == Mode::C28 && !model.tainted.is_empty() {
        let (t, i) = *model.tainted.iter().next().unwrap();
        return Err(Outcome::fail(
            "C28:member-became-explicit-and-stayed",
            json!({"topic": t, "peer": short(&pool[i]), "what": "peer was a mesh member when add_explicit_peer was called and was still a member at the end of the history"}),
        ));
    }
    Ok(stats)
}
