//! C29 — the real connection handlers believe "in mesh" exactly when the peer is in >=1 mesh.
use crate::mesh::{case_strategy, run_case, Case, Mode};
use vcore::{Ctx, Outcome};

fn check(case: &Case) -> Outcome {
    match run_case(case, Mode::C29) {
        Err(o) => o,
        Ok(s) => {
            let mut labels = vec![];
            if s.multi_topic_change > 0 {
                labels.push("one_peer_changed_in_2plus_topics_in_one_step");
            }
            if s.multi_topic_hb_join > 0 {
                labels.push("heartbeat_grafted_peer_in_2plus_topics");
            }
            if s.multi_conn_member > 0 {
                labels.push("mesh_member_with_2plus_connections");
            }
            if s.left_one_mesh_stays_in_other_foreign_topic > 0 {
                labels.push("left_one_mesh_stays_in_another_while_subscribed_to_topic_without_local_mesh");
            }
            if s.hb_changed_topic_cfg_mesh > 0 {
                labels.push("heartbeat_changed_mesh_of_topic_with_own_params");
            }
            if s.hb_changed_mesh > 0 {
                labels.push("heartbeat_changed_mesh");
            }
            Outcome::pass_l(s.multi_topic_change > 0, labels)
        }
    }
}

pub fn run(ctx: &mut Ctx) {
    ctx.assume("hooks: verif::decode, verif::peer_kind_event, Handler::verif_pop_wire, Behaviour::verif_heartbeat, virtual clock");
    ctx.assume("the harness plays the Swarm: every NotifyHandler{One(c)} is delivered with on_behaviour_event to the real Handler returned by handle_established_*_connection for c; notifications for a closed connection are dropped; the belief is read with the public connection_keep_alive()");
    let max_ops = ctx.tier.sel(60, 90);
    ctx.check::<Case>(
        "histories",
        "same history generator as C28 (3 topics, peers subscribed to several, up to 3 connections per peer, heartbeats that graft/prune one peer in several topics at once); after every step: exists live connection whose handler keeps alive == peer is in >=1 mesh; non-trivial = a step that changed one peer's membership in >=2 topics",
        ctx.n(20_000, 600_000),
        &|| case_strategy(max_ops, 20),
        &check,
    );
}
