//! C27 — exactly-once delivery in connected networks of 2..12 in-memory gossipsub nodes.
//!
//! Every node is a real `gossipsub::Behaviour` driven by the common driver; links are reliable
//! FIFO queues of real wire frames (popped from the sender's real handler queue, decoded by the
//! receiver's real codec). The schedule (connection order, subscription exchange, heartbeats,
//! publishes, per-link delivery order) is generated.
//!
//! Safety clauses are checked after every step for every message of the whole history:
//!   * `Event::Message` count per (node, message) <= 1, never at the publisher, only at subscribers
//!   * node X never enqueues `Publish(m)` to `m.source`, nor to a peer X has already received m from
//! Completeness is checked for messages published in the *stable phase* (all links up, all
//! subscriptions exchanged, meshes maintained, at most 2 heartbeats per node before the final
//! rounds so that the bounded gossip window cannot be overrun by the schedule): after
//! history_gossip + 2 rounds of {every node heartbeats; everything in flight is delivered} every
//! other subscriber of a connected subscriber sub-network has received it exactly once.

use crate::driver::*;
use libp2p_core::verif_clock;
use libp2p_gossipsub as gs;
use libp2p_identity::PeerId;
use proptest::prelude::*;
use serde::{Deserialize, Serialize};
use serde_json::json;
use std::collections::{BTreeMap, BTreeSet, VecDeque};
use std::time::Duration;
use vcore::{pick, Ctx, Outcome};

#[derive(Clone, Debug, Serialize, Deserialize)]
pub enum NetOp {
    ConnectEdge(u16),
    SubT0(u16),
    SubT1(u16),
    UnsubT1(u16),
    /// deliver the head frame of the k-th non-empty link
    Deliver(u16),
    /// deliver up to n frames, each from a generated non-empty link
    Burst(u16, u8),
    /// deliver everything in flight (fixed round-robin order)
    Flush,
    Heartbeat(u16),
    Publish { node: u16, topic: u8, big: bool },
    AdvanceMs(u16),
    /// the application of a validating node accepts the k-th message still waiting for its
    /// validation result (`report_message_validation_result(.., Accept)`)
    Validate(u16),
}

#[derive(Clone, Debug, Serialize, Deserialize)]
pub struct Case {
    pub n: u8,
    /// parent pick of node i+1 among nodes 0..=i (spanning tree)
    pub tree: Vec<u16>,
    pub extra: Vec<(u16, u16)>,
    pub flood_publish: bool,
    pub prefix: Vec<NetOp>,
    pub stable: Vec<NetOp>,
    /// protocol level per node: 1 floodsub-only, 2..5 gossipsub 1.0..1.3 (missing = 5); a link
    /// negotiates the minimum of its two ends
    #[serde(default)]
    pub levels: Vec<u8>,
    /// nodes running with `validate_messages()`: forwarding waits for the application's verdict
    #[serde(default)]
    pub validating: Vec<bool>,
    /// explicit ("direct") peerings: (edge pick, 0 = both ends, 1 = only the lower-numbered end,
    /// 2 = only the higher-numbered end call add_explicit_peer)
    #[serde(default)]
    pub explicit: Vec<(u16, u8)>,
}

fn op_strategy(stable: bool) -> impl Strategy<Value = NetOp> {
    if stable {
        prop_oneof![
            8 => any::<u16>().prop_map(NetOp::Deliver),
            4 => (any::<u16>(), 2u8..20).prop_map(|(k, n)| NetOp::Burst(k, n)),
            1 => Just(NetOp::Flush),
            2 => any::<u16>().prop_map(NetOp::Heartbeat),
            5 => (any::<u16>(), prop_oneof![4 => Just(0u8), 1 => Just(1u8)], prop::bool::weighted(0.15)).prop_map(|(node, topic, big)| NetOp::Publish { node, topic, big }),
            1 => (0u16..500).prop_map(NetOp::AdvanceMs),
            3 => any::<u16>().prop_map(NetOp::Validate),
        ]
        .boxed()
    } else {
        prop_oneof![
            5 => any::<u16>().prop_map(NetOp::ConnectEdge),
            4 => any::<u16>().prop_map(NetOp::SubT0),
            2 => any::<u16>().prop_map(NetOp::SubT1),
            1 => any::<u16>().prop_map(NetOp::UnsubT1),
            6 => any::<u16>().prop_map(NetOp::Deliver),
            3 => (any::<u16>(), 2u8..20).prop_map(|(k, n)| NetOp::Burst(k, n)),
            1 => Just(NetOp::Flush),
            3 => any::<u16>().prop_map(NetOp::Heartbeat),
            3 => (any::<u16>(), prop_oneof![3 => Just(0u8), 1 => Just(1u8)], prop::bool::weighted(0.1)).prop_map(|(node, topic, big)| NetOp::Publish { node, topic, big }),
            1 => (0u16..2000).prop_map(NetOp::AdvanceMs),
            2 => any::<u16>().prop_map(NetOp::Validate),
        ]
        .boxed()
    }
}

fn strategy() -> BoxedStrategy<Case> {
    (2u8..=12)
        .prop_flat_map(|n| {
            (
                Just(n),
                prop::collection::vec(any::<u16>(), (n - 1) as usize),
                prop::collection::vec((any::<u16>(), any::<u16>()), 0..=(2 * n as usize)),
                any::<bool>(),
                prop::collection::vec(op_strategy(false), 0..60),
                prop::collection::vec(op_strategy(true), 1..60),
                // 40 % of the networks are homogeneous (every node speaks gossipsub 1.3); in the others
                // each node is floodsub-only with probability 0.2 and an older gossipsub with 0.25
                prop_oneof![
                    4 => Just(vec![]),
                    6 => prop::collection::vec(prop_oneof![11 => Just(5u8), 2 => Just(4u8), 2 => Just(3u8), 1 => Just(2u8), 4 => Just(1u8)], n as usize),
                ],
                // half of the networks have no validating node; otherwise each node validates with probability 0.5
                prop_oneof![1 => Just(vec![]), 1 => prop::collection::vec(any::<bool>(), n as usize)],
                prop_oneof![
                    2 => Just(vec![]),
                    3 => prop::collection::vec((any::<u16>(), prop_oneof![6 => Just(0u8), 1 => Just(1u8), 1 => Just(2u8)]), 1..=(n as usize).min(5)),
                ],
            )
        })
        .prop_map(|(n, tree, extra, flood_publish, prefix, stable, levels, validating, explicit)| Case { n, tree, extra, flood_publish, prefix, stable, levels, validating, explicit })
        .boxed()
}

type MsgKey = (Vec<u8>, Vec<u8>); // (from, seqno) as on the wire

struct MsgInfo {
    publisher: usize,
    topic: u8,
    stable: bool,
}

struct Net {
    nodes: Vec<Node>,
    ids: Vec<PeerId>,
    index: BTreeMap<PeerId, usize>,
    edges: Vec<(usize, usize)>,
    up: Vec<bool>,
    links: BTreeMap<(usize, usize), VecDeque<Vec<u8>>>,
    /// received[x][m] = peers from which x has received m
    received: Vec<BTreeMap<MsgKey, BTreeSet<usize>>>,
    delivered: BTreeMap<(usize, MsgKey), u32>,
    msgs: BTreeMap<MsgKey, MsgInfo>,
    sub: Vec<[bool; 2]>,
    frames: u64,
    /// some node unsubscribed t1 at some point: PRUNE backoffs exist on t1 and its meshes may be
    /// thinner than D_lo, so delivery on t1 is probabilistic (gossip to a random subset)
    t1_backoffs: bool,
    /// protocol level per node (1 = floodsub-only)
    levels: Vec<u8>,
    validating: Vec<bool>,
    /// explicit[x] = nodes x has added as explicit peers
    explicit: Vec<BTreeSet<usize>>,
    /// messages waiting for the application's verdict: (node, message id, propagation source, wire key)
    pending: Vec<(usize, gs::MessageId, PeerId, MsgKey)>,
    // generator-distribution counters
    accepted_after_duplicate: u32,
    first_copy_via_third_party_while_source_is_direct: u32,
    forwarded_by_floodsub_node: u32,
}

fn key_of(m: &pb::Message) -> MsgKey {
    (m.from.clone().unwrap_or_default(), m.seqno.clone().unwrap_or_default())
}

fn topic_ix(name: &str) -> u8 {
    if name == topic_name(1) {
        1
    } else {
        0
    }
}

impl Net {
    fn conn_id(&self, e: usize) -> u64 {
        e as u64 + 1
    }
    fn neighbours(&self, x: usize) -> Vec<(usize, usize)> {
        // (edge index, other node) of live edges
        self.edges.iter().enumerate().filter(|(e, _)| self.up[*e]).filter_map(|(e, (a, b))| if *a == x { Some((e, *b)) } else if *b == x { Some((e, *a)) } else { None }).collect()
    }

    /// collect what node x emitted: application events and frames for its neighbours
    fn after_step(&mut self, x: usize) -> Result<(), Outcome> {
        self.nodes[x].drain();
        let events: Vec<gs::Event> = self.nodes[x].app_events.drain(..).collect();
        for ev in events {
            if let gs::Event::Message { message, message_id, propagation_source } = ev {
                let key: MsgKey = (message.source.map(|p| p.to_bytes()).unwrap_or_default(), message.sequence_number.map(|s| s.to_be_bytes().to_vec()).unwrap_or_default());
                let t = topic_ix(message.topic.as_str());
                let c = self.delivered.entry((x, key.clone())).or_insert(0);
                *c += 1;
                if *c > 1 {
                    return Err(Outcome::fail("C27:delivered-twice", json!({"node": x, "count": *c, "topic": t})));
                }
                match self.msgs.get(&key) {
                    Some(info) if info.publisher == x => return Err(Outcome::fail("C27:delivered-to-publisher", json!({"node": x, "topic": t}))),
                    Some(_) => {}
                    None => return Err(Outcome::fail("C27:delivered-unknown-message", json!({"node": x, "topic": t}))),
                }
                if !self.sub[x][t as usize] {
                    return Err(Outcome::fail("C27:delivered-to-non-subscriber", json!({"node": x, "topic": t})));
                }
                if self.validating[x] {
                    self.pending.push((x, message_id, propagation_source, key));
                }
            }
        }
        for (e, y) in self.neighbours(x) {
            let _ = e;
            let peer = self.ids[y];
            let frames = self.nodes[x].pop_wire(&peer);
            for f in frames {
                let rpc = unframe(&f).expect("frame from the real codec parses");
                for m in &rpc.publish {
                    let key = key_of(m);
                    if m.from.as_deref() == Some(&self.ids[y].to_bytes()[..]) {
                        return Err(Outcome::fail(
                            "C27:message-sent-to-its-source",
                            json!({"sender": x, "recipient": y, "topic": m.topic, "source_is_explicit_peer_of_sender": self.explicit[x].contains(&y),
                                   "link_level": self.levels[x].min(self.levels[y])}),
                        ));
                    }
                    if self.received[x].get(&key).map(|s| s.contains(&y)).unwrap_or(false) {
                        return Err(Outcome::fail(
                            "C27:message-sent-back-to-a-peer-it-was-received-from",
                            json!({"sender": x, "recipient": y, "topic": m.topic, "sender_validates": self.validating[x],
                                   "received_from": self.received[x].get(&key).map(|s| s.iter().copied().collect::<Vec<_>>())}),
                        ));
                    }
                    if self.levels[x] == 1 && m.from.as_deref() != Some(&self.ids[x].to_bytes()[..]) {
                        self.forwarded_by_floodsub_node += 1;
                    }
                }
                self.links.entry((x, y)).or_default().push_back(f);
            }
        }
        Ok(())
    }

    fn nonempty_links(&self) -> Vec<(usize, usize)> {
        self.links.iter().filter(|(_, q)| !q.is_empty()).map(|(k, _)| *k).collect()
    }

    fn deliver_one(&mut self, link: (usize, usize)) -> Result<(), Outcome> {
        let (x, y) = link;
        let Some(f) = self.links.get_mut(&link).and_then(|q| q.pop_front()) else { return Ok(()) };
        let Some(e) = self.edges.iter().position(|(a, b)| (*a == x && *b == y) || (*a == y && *b == x)) else { return Ok(()) };
        let rpc = unframe(&f).expect("parses");
        for m in &rpc.publish {
            let key = key_of(m);
            if !self.received[y].contains_key(&key) {
                if let Some(src) = self.msgs.get(&key).map(|i| i.publisher) {
                    let linked = self.neighbours(y).iter().any(|(_, z)| *z == src);
                    if src != x && src != y && linked && (self.explicit[y].contains(&src) || self.levels[y].min(self.levels[src]) == 1) {
                        self.first_copy_via_third_party_while_source_is_direct += 1;
                    }
                }
            }
            self.received[y].entry(key).or_default().insert(x);
        }
        self.frames += 1;
        let id = self.conn_id(e);
        if let Err(err) = self.nodes[y].deliver_bytes(id, &f) {
            return Err(Outcome::fail("C27:frame-from-honest-node-refused-by-codec", json!({"from": x, "to": y, "err": err})));
        }
        self.after_step(y)
    }

    fn flush(&mut self, max_frames: u64) -> Result<bool, Outcome> {
        let start = self.frames;
        loop {
            let links = self.nonempty_links();
            if links.is_empty() {
                return Ok(true);
            }
            for l in links {
                self.deliver_one(l)?;
            }
            if self.frames - start > max_frames {
                return Ok(false);
            }
        }
    }

    /// the application accepts the k-th pending message
    fn validate(&mut self, k: usize) -> Result<(), Outcome> {
        if k >= self.pending.len() {
            return Ok(());
        }
        let (x, id, src, key) = self.pending.remove(k);
        if self.received[x].get(&key).map(|s| s.len()).unwrap_or(0) >= 2 {
            self.accepted_after_duplicate += 1;
        }
        let _ = self.nodes[x].gs.report_message_validation_result(&id, &src, gs::MessageAcceptance::Accept);
        self.after_step(x)
    }

    /// deliver everything in flight and accept everything pending until the network is quiet
    fn settle(&mut self, max_frames: u64) -> Result<bool, Outcome> {
        loop {
            if !self.flush(max_frames)? {
                return Ok(false);
            }
            if self.pending.is_empty() {
                return Ok(true);
            }
            while !self.pending.is_empty() {
                self.validate(0)?;
            }
        }
    }

    fn connect_edge(&mut self, e: usize) -> Result<(), Outcome> {
        if self.up[e] {
            return Ok(());
        }
        self.up[e] = true;
        let (a, b) = self.edges[e];
        let id = self.conn_id(e);
        let (pa, pb_) = (self.ids[a], self.ids[b]);
        self.nodes[a].connect(pb_, id, true);
        self.nodes[b].connect(pa, id, false);
        // both ends negotiated the highest common protocol (floodsub if one end speaks nothing else)
        let kind = self.levels[a].min(self.levels[b]);
        self.nodes[a].peer_kind(id, kind);
        self.nodes[b].peer_kind(id, kind);
        self.after_step(a)?;
        self.after_step(b)
    }

    fn subscribe(&mut self, x: usize, t: u8, on: bool) -> Result<(), Outcome> {
        if on {
            let _ = self.nodes[x].gs.subscribe(&topic(t));
        } else {
            if self.nodes[x].gs.unsubscribe(&topic(t)) {
                self.t1_backoffs = true;
            }
        }
        self.sub[x][t as usize] = on;
        self.after_step(x)
    }

    fn publish(&mut self, x: usize, t: u8, big: bool, stable: bool, counter: &mut u32) -> Result<bool, Outcome> {
        *counter += 1;
        let mut data = counter.to_be_bytes().to_vec();
        data.resize(4 + (*counter % 3) as usize, 0x11);
        if big {
            data.resize(1500 + (*counter % 3) as usize, 0xAB);
        }
        let ok = self.nodes[x].gs.publish(topic_hash(t), data).is_ok();
        // learn the wire identity of the message from what was enqueued
        self.nodes[x].drain();
        let mut new_key = None;
        for (_, y) in self.neighbours(x) {
            let peer = self.ids[y];
            for f in self.nodes[x].pop_wire(&peer) {
                let rpc = unframe(&f).expect("parses");
                for m in &rpc.publish {
                    if m.from.as_deref() == Some(&self.ids[x].to_bytes()[..]) && !self.msgs.contains_key(&key_of(m)) {
                        new_key = Some(key_of(m));
                    }
                    if m.from.as_deref() == Some(&self.ids[y].to_bytes()[..]) {
                        return Err(Outcome::fail("C27:message-sent-to-its-source", json!({"sender": x, "recipient": y})));
                    }
                }
                self.links.entry((x, y)).or_default().push_back(f);
            }
        }
        if let Some(k) = new_key {
            self.msgs.insert(k, MsgInfo { publisher: x, topic: t, stable });
        }
        self.after_step(x)?;
        Ok(ok)
    }
}

fn connected_subgraph(n: usize, edges: &[(usize, usize)], member: &dyn Fn(usize) -> bool, start: usize) -> BTreeSet<usize> {
    let mut seen = BTreeSet::new();
    if !member(start) {
        return seen;
    }
    let mut stack = vec![start];
    seen.insert(start);
    while let Some(x) = stack.pop() {
        for (a, b) in edges {
            let y = if *a == x { *b } else if *b == x { *a } else { continue };
            if y < n && member(y) && seen.insert(y) {
                stack.push(y);
            }
        }
    }
    seen
}

fn check(case: &Case) -> Outcome {
    match run_case(case) {
        Ok(o) | Err(o) => o,
    }
}

fn run_case(case: &Case) -> Result<Outcome, Outcome> {
    verif_clock::set(Duration::ZERO);
    let n = case.n as usize;
    // topology: spanning tree + extra edges, no duplicates / self loops
    let mut edges: Vec<(usize, usize)> = vec![];
    let mut have = BTreeSet::new();
    for i in 1..n {
        let p = pick(case.tree[i - 1], i);
        edges.push((p, i));
        have.insert((p, i));
    }
    for (a, b) in &case.extra {
        let (a, b) = (pick(*a, n), pick(*b, n));
        let (a, b) = (a.min(b), a.max(b));
        if a != b && have.insert((a, b)) {
            edges.push((a, b));
        }
    }
    let has_cycle = edges.len() >= n;
    let levels: Vec<u8> = (0..n).map(|i| case.levels.get(i).copied().unwrap_or(5).clamp(1, 5)).collect();
    let validating: Vec<bool> = (0..n).map(|i| case.validating.get(i).copied().unwrap_or(false)).collect();
    let nodes: Vec<Node> = (0..n)
        .map(|i| Node::new(node_key(100 + i as u16), &NodeCfg { flood_publish: case.flood_publish, validate_messages: validating[i], ..NodeCfg::default_mesh() }))
        .collect();
    let ids: Vec<PeerId> = nodes.iter().map(|x| x.local).collect();
    // explicit peerings are configured before any link comes up (as an operator would)
    let mut explicit: Vec<BTreeSet<usize>> = vec![BTreeSet::new(); n];
    let mut asymmetric_explicit = false;
    for (e, mode) in &case.explicit {
        let (a, b) = edges[pick(*e, edges.len())];
        if *mode != 2 {
            explicit[a].insert(b);
        }
        if *mode != 1 {
            explicit[b].insert(a);
        }
    }
    for a in 0..n {
        for b in &explicit[a] {
            if !explicit[*b].contains(&a) {
                asymmetric_explicit = true;
            }
        }
    }
    let mut net = Net {
        index: ids.iter().enumerate().map(|(i, p)| (*p, i)).collect(),
        ids,
        nodes,
        up: vec![false; edges.len()],
        edges,
        links: BTreeMap::new(),
        received: (0..n).map(|_| BTreeMap::new()).collect(),
        delivered: BTreeMap::new(),
        msgs: BTreeMap::new(),
        sub: vec![[false; 2]; n],
        frames: 0,
        t1_backoffs: false,
        levels,
        validating,
        explicit,
        pending: vec![],
        accepted_after_duplicate: 0,
        first_copy_via_third_party_while_source_is_direct: 0,
        forwarded_by_floodsub_node: 0,
    };
    let _ = &net.index;
    for a in 0..n {
        for b in net.explicit[a].clone() {
            let pb_ = net.ids[b];
            net.nodes[a].gs.add_explicit_peer(&pb_);
        }
        net.nodes[a].drain(); // the Dial requests for not yet connected explicit peers
    }
    let mut counter = 0u32;
    let mut advanced = Duration::ZERO;
    let mut publishers: BTreeSet<usize> = BTreeSet::new();
    let mut hb_in_stable = vec![0u32; n];
    const MAX_FRAMES: u64 = 200_000;

    let apply = |net: &mut Net, op: &NetOp, stable: bool, counter: &mut u32, advanced: &mut Duration, publishers: &mut BTreeSet<usize>, hb_in_stable: &mut Vec<u32>| -> Result<(), Outcome> {
        match op {
            NetOp::ConnectEdge(e) => {
                if !stable {
                    let e = pick(*e, net.edges.len());
                    net.connect_edge(e)?;
                }
            }
            NetOp::SubT0(x) => {
                if !stable {
                    net.subscribe(pick(*x, n), 0, true)?;
                }
            }
            NetOp::SubT1(x) => {
                if !stable {
                    net.subscribe(pick(*x, n), 1, true)?;
                }
            }
            NetOp::UnsubT1(x) => {
                if !stable {
                    net.subscribe(pick(*x, n), 1, false)?;
                }
            }
            NetOp::Deliver(k) => {
                let links = net.nonempty_links();
                if !links.is_empty() {
                    net.deliver_one(links[pick(*k, links.len())])?;
                }
            }
            NetOp::Burst(k, cnt) => {
                let mut sel = *k as u32;
                for _ in 0..*cnt {
                    let links = net.nonempty_links();
                    if links.is_empty() {
                        break;
                    }
                    net.deliver_one(links[pick(sel as u16, links.len())])?;
                    sel = sel.wrapping_mul(25173).wrapping_add(13849) & 0xffff;
                }
            }
            NetOp::Flush => {
                net.flush(MAX_FRAMES)?;
            }
            NetOp::Heartbeat(x) => {
                let x = pick(*x, n);
                if stable {
                    if hb_in_stable[x] >= 2 {
                        return Ok(());
                    }
                    hb_in_stable[x] += 1;
                }
                net.nodes[x].heartbeat();
                net.after_step(x)?;
            }
            NetOp::Publish { node, topic, big } => {
                let x = pick(*node, n);
                if net.publish(x, *topic, *big, stable, counter)? {
                    publishers.insert(x);
                }
            }
            NetOp::Validate(k) => {
                if !net.pending.is_empty() {
                    let k = pick(*k, net.pending.len());
                    net.validate(k)?;
                }
            }
            NetOp::AdvanceMs(ms) => {
                // stay well inside the duplicate-cache lifetime (60 s)
                let d = Duration::from_millis(*ms as u64);
                if *advanced + d <= Duration::from_secs(30) {
                    *advanced += d;
                    verif_clock::advance(d);
                }
            }
        }
        Ok(())
    };

    for op in &case.prefix {
        apply(&mut net, op, false, &mut counter, &mut advanced, &mut publishers, &mut hb_in_stable)?;
    }
    // stabilise: all links up, everybody subscribed to T0, subscriptions exchanged, meshes maintained
    for e in 0..net.edges.len() {
        net.connect_edge(e)?;
    }
    for x in 0..n {
        if !net.sub[x][0] {
            net.subscribe(x, 0, true)?;
        }
    }
    for _ in 0..3 {
        if !net.settle(MAX_FRAMES)? {
            return Ok(Outcome::Inconclusive("frame bound exceeded while stabilising".into()));
        }
        for x in 0..n {
            net.nodes[x].heartbeat();
            net.after_step(x)?;
        }
    }
    if !net.settle(MAX_FRAMES)? {
        return Ok(Outcome::Inconclusive("frame bound exceeded while stabilising".into()));
    }
    // stable phase
    for op in &case.stable {
        apply(&mut net, op, true, &mut counter, &mut advanced, &mut publishers, &mut hb_in_stable)?;
    }
    // final rounds: history_gossip (3) + 2
    for _ in 0..5 {
        if !net.settle(MAX_FRAMES)? {
            return Ok(Outcome::Inconclusive("frame bound exceeded in the final rounds".into()));
        }
        for x in 0..n {
            net.nodes[x].heartbeat();
            net.after_step(x)?;
        }
    }
    if !net.settle(MAX_FRAMES)? {
        return Ok(Outcome::Inconclusive("frame bound exceeded in the final rounds".into()));
    }

    // completeness for stable-phase messages
    let mut stable_msgs = 0;
    let mut fanout_publish = false;
    for (key, info) in &net.msgs {
        // a one-sided explicit peering keeps the pair out of each other's mesh while only one side
        // forwards unconditionally: the other direction depends on gossip to a random subset
        if !info.stable || (info.topic == 1 && net.t1_backoffs) || asymmetric_explicit {
            continue;
        }
        stable_msgs += 1;
        let t = info.topic as usize;
        let subs = |x: usize| net.sub[x][t];
        // the sub-network of subscribers reachable from the publisher (through subscribers only)
        let mut expect: BTreeSet<usize> = BTreeSet::new();
        if subs(info.publisher) {
            expect = connected_subgraph(n, &net.edges, &subs, info.publisher);
            expect.remove(&info.publisher);
        } else {
            fanout_publish = true;
            // a non-subscribed publisher hands the message to >=1 subscribed neighbour; which ones is
            // its choice, so only components containing a node that got it are required to be complete
            for (a, b) in &net.edges {
                let y = if *a == info.publisher { *b } else if *b == info.publisher { *a } else { continue };
                if subs(y) && net.delivered.get(&(y, key.clone())).copied().unwrap_or(0) > 0 {
                    expect.extend(connected_subgraph(n, &net.edges, &subs, y));
                }
            }
        }
        for x in expect {
            let c = net.delivered.get(&(x, key.clone())).copied().unwrap_or(0);
            if c != 1 {
                return Err(Outcome::fail(
                    "C27:not-delivered-after-bounded-gossip-rounds",
                    json!({"node": x, "publisher": info.publisher, "topic": t, "count": c, "n": n, "edges": net.edges,
                           "subscribers": (0..n).filter(|x| subs(*x)).collect::<Vec<_>>(),
                           "mesh_of_node": net.nodes[x].mesh(&topic_hash(info.topic)).iter().map(|p| net.index[p]).collect::<Vec<_>>()}),
                ));
            }
        }
    }
    let mut labels = vec![];
    if has_cycle {
        labels.push("graph_with_cycle");
    }
    if publishers.len() >= 2 {
        labels.push("two_or_more_publishers");
    }
    if stable_msgs > 0 {
        labels.push("completeness_checked");
    }
    if fanout_publish {
        labels.push("publish_by_non_subscriber");
    }
    if net.msgs.values().any(|m| !m.stable) {
        labels.push("message_published_in_chaotic_prefix");
    }
    if n >= 8 {
        labels.push("n_ge_8");
    }
    if net.t1_backoffs {
        labels.push("t1_unsubscribed_somewhere_completeness_on_t1_skipped");
    }
    if net.levels.iter().any(|l| *l == 1) {
        labels.push("has_floodsub_only_node");
    }
    if net.levels.iter().any(|l| (2..5).contains(l)) {
        labels.push("has_older_gossipsub_node");
    }
    if net.validating.iter().any(|v| *v) {
        labels.push("has_validating_node");
    }
    if net.explicit.iter().any(|s| !s.is_empty()) {
        labels.push("has_explicit_peering");
    }
    if asymmetric_explicit {
        labels.push("one_sided_explicit_peering_completeness_skipped");
    }
    if net.accepted_after_duplicate > 0 {
        labels.push("accepted_after_a_duplicate_arrived_from_another_peer");
    }
    if net.first_copy_via_third_party_while_source_is_direct > 0 {
        labels.push("first_copy_via_third_party_while_source_is_explicit_or_floodsub_neighbour");
    }
    if net.forwarded_by_floodsub_node > 0 {
        labels.push("forwarded_by_floodsub_only_node");
    }
    Ok(Outcome::pass_l(has_cycle && publishers.len() >= 2 && stable_msgs > 0, labels))
}

pub fn run(ctx: &mut Ctx) {
    ctx.assume("hooks: verif::decode (real codec incl. signature validation), Handler::verif_pop_wire, Behaviour::verif_heartbeat, verif::peer_kind_event, virtual clock (total advance <= 30 s, inside the 60 s duplicate-cache lifetime)");
    ctx.assume("a validating node's application accepts every message (never rejects/ignores), at a generated point of the schedule and at the latest before the next stabilisation / final round; explicit peerings are configured before any link is up; completeness is not asserted for networks with a one-sided explicit peering (the pair stays out of each other's mesh and only one direction forwards unconditionally)");
    ctx.assume("links are reliable FIFO; default mesh parameters (D_lo 5, D 6, D_hi 12, gossip_lazy 6, history 5/3); topic t0 is never unsubscribed; completeness only for messages published after stabilisation with <= 2 heartbeats per node before the final rounds (otherwise the bounded gossip window makes delivery depend on the schedule); exceeding the frame bound is inconclusive");
    ctx.check::<Case>(
        "networks",
        "connected graph on 2..12 nodes (generated spanning tree + extra edges), all nodes end up subscribed to t0, some to t1; 60% heterogeneous networks (node = floodsub-only 20% / gossipsub 1.0-1.2 25% / 1.3; a link negotiates the minimum), 50% with nodes running validate_messages() whose application accepts each message at a generated later point (duplicates may arrive in between), 60% with 1..5 explicit peerings (3/4 two-sided); generated order of link establishment, subscription exchange, heartbeats, publishes (small / >1000 B so IDONTWANT is used) and per-link frame delivery; safety after every step, completeness after 5 final heartbeat rounds; non-trivial = graph with a cycle, >=2 publishing nodes and >=1 message whose completeness was checked",
        ctx.n(5_000, 150_000),
        &strategy,
        &check,
    );
}
