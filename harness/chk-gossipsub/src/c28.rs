//! C28 — mesh membership respects the eligibility rules, after every step of arbitrary histories.
use crate::mesh::{case_strategy, run_case, Case, Mode};
use vcore::{Ctx, Outcome};

fn check(case: &Case) -> Outcome {
    match run_case(case, Mode::C28) {
        Err(o) => o,
        Ok(s) => {
            let mut labels = vec![];
            if s.graft_rejected_high > 0 {
                labels.push("graft_rejected_at_n_high");
            }
            if s.graft_rejected_topic_high_below_default > 0 {
                labels.push("graft_rejected_at_topic_n_high_below_default_n_high");
            }
            if s.graft_accepted_above_default_high > 0 {
                labels.push("graft_accepted_above_default_n_high_below_topic_n_high");
            }
            if !case.cfg.topic_mesh.is_empty() {
                labels.push("cfg_with_per_topic_mesh_params");
            }
            if s.hb_changed_topic_cfg_mesh > 0 {
                labels.push("heartbeat_changed_mesh_of_topic_with_own_params");
            }
            if s.graft_rejected_backoff > 0 {
                labels.push("graft_rejected_backoff");
            }
            if s.graft_rejected_score > 0 {
                labels.push("graft_rejected_negative_score");
            }
            if s.graft_accepted > 0 {
                labels.push("graft_accepted");
            }
            if s.hb_changed_mesh > 0 {
                labels.push("heartbeat_changed_mesh");
            }
            if s.entered_total > 0 {
                labels.push("some_peer_entered_mesh");
            }
            Outcome::pass_l(s.graft_rejected_high > 0 && s.hb_changed_mesh > 0, labels)
        }
    }
}

pub fn run(ctx: &mut Ctx) {
    ctx.assume("hooks: verif::decode (real codec), verif::peer_kind_event, Handler::verif_pop_wire (real queue + codec), Behaviour::verif_heartbeat, virtual clock");
    ctx.assume("'backed off' is what was announced on the wire (PRUNE received with its backoff / default prune_backoff, PRUNE sent with a backoff field); 'negative score' is Behaviour::peer_score() read before the step; comparisons at exactly the expiry instant are not asserted");
    ctx.assume("all connections of one peer negotiate the same protocol; the PeerKind event precedes any RPC of that connection (as the real handler guarantees)");
    let max_ops = ctx.tier.sel(60, 90);
    ctx.check::<Case>(
        "histories",
        "one behaviour (default and, with probability 0.4 per topic, topic-specific mesh parameter sets: mesh_n_low 1..3, mesh_n 2..4, mesh_n_high 3..6; the mesh_n_high bound asserted for a GRAFT is the one of its topic; prune_backoff 1..20 s, scoring on 70%), 1..14 pool peers (floodsub / gossipsub 1.0-1.3, up to 3 connections each), 3 topics; <=60 ops: connect/disconnect, subscription/GRAFT/PRUNE RPCs as wire bytes, local (un)subscribe, explicit add/remove, application score, publish, heartbeat, clock advance; oracle after every step; non-trivial = >=1 GRAFT refused because the mesh was at mesh_n_high and >=1 heartbeat that changed a mesh",
        ctx.n(20_000, 600_000),
        &|| case_strategy(max_ops, 20),
        &check,
    );
}
