//! C35 — publishing to a topic the node is not subscribed to keeps the fanout peers selected
//! earlier that are still eligible; new peers are only added (until a heartbeat maintains the set).
use crate::driver::*;
use libp2p_core::verif_clock;
use libp2p_identity::PeerId;
use proptest::prelude::*;
use serde::{Deserialize, Serialize};
use serde_json::json;
use std::collections::BTreeSet;
use std::time::Duration;
use vcore::{ensure, pick, Ctx, Outcome};

#[derive(Clone, Debug, Serialize, Deserialize)]
pub enum Op {
    /// connect the peer (if not connected) and let it subscribe to T
    Add(u16),
    /// the peer unsubscribes from T (false) or disconnects (true)
    Remove(u16, bool),
    /// the peer (connected) sends a subscription RPC for T again / for the other topic
    Resub(u16),
    Publish,
    Heartbeat,
    AdvanceMs(u32),
    /// set_application_score(peer, level): 0 => -5000 (below publish_threshold -2000), 1 => -100, 2 => 0, 3 => +10
    Score(u16, u8),
}

#[derive(Clone, Debug, Serialize, Deserialize)]
pub struct Case {
    pub mesh_n: usize,
    pub npeers: u8,
    /// peers 0..warm subscribed before the ops
    pub warm: u8,
    pub floodsub_mask: u16,
    pub ops: Vec<Op>,
    /// peer scoring enabled (application score only; publish_threshold -2000)
    #[serde(default)]
    pub scoring: bool,
}

fn strategy() -> BoxedStrategy<Case> {
    let op = prop_oneof![
        5 => any::<u16>().prop_map(Op::Add),
        2 => (any::<u16>(), any::<bool>()).prop_map(|(p, d)| Op::Remove(p, d)),
        1 => any::<u16>().prop_map(Op::Resub),
        8 => Just(Op::Publish),
        2 => Just(Op::Heartbeat),
        2 => (0u32..20_000).prop_map(Op::AdvanceMs),
        // score changes (ignored when scoring is off): dips below the publish threshold and back
        3 => (any::<u16>(), prop_oneof![3 => Just(0u8), 1 => Just(1u8), 3 => Just(2u8), 1 => Just(3u8)]).prop_map(|(p, l)| Op::Score(p, l)),
    ];
    (2usize..=4, 2u8..=12, any::<u8>(), prop_oneof![3 => Just(0u16), 1 => any::<u16>()], prop::collection::vec(op, 2..40), any::<bool>())
        .prop_map(|(mesh_n, npeers, warm, floodsub_mask, ops, scoring)| Case { mesh_n, npeers, warm: pick((warm as u16) << 8, npeers as usize + 1).min(3) as u8, floodsub_mask, ops, scoring })
        .boxed()
}

const T: u8 = 0;

fn check(case: &Case) -> Outcome {
    verif_clock::set(Duration::ZERO);
    let cfg = NodeCfg {
        outbound_min: 0,
        n_low: 1.min(case.mesh_n),
        n: case.mesh_n,
        n_high: case.mesh_n + 2,
        flood_publish: false,
        scoring: case.scoring,
        fanout_ttl_s: 60,
        ..NodeCfg::default_mesh()
    };
    let mut node = Node::new(node_key(0), &cfg);
    let np = case.npeers as usize;
    let pool: Vec<PeerId> = (0..np).map(|i| node_key(2000 + i as u16).public().to_peer_id()).collect();
    let floodsub = |i: usize| case.floodsub_mask & (1 << i) != 0;
    let th = topic_hash(T);
    // model: which pool peers are connected and subscribed to T
    let mut subscribed: BTreeSet<usize> = BTreeSet::new();
    let mut next_conn = 1u64;
    let mut last_recipients: Option<BTreeSet<usize>> = None; // of the previous publish, no heartbeat since
    let mut nontrivial = false;
    let mut labels: Vec<&'static str> = vec![];
    let mut publishes_ok = 0;
    // peers that were members of fanout(T) at some point since the last heartbeat and have not
    // unsubscribed / disconnected since ("selected earlier")
    let mut selected: BTreeSet<usize> = BTreeSet::new();
    let mut dipped_member_at_publish: BTreeSet<usize> = BTreeSet::new();
    let mut restored_after_dip_publish = false;

    let mut ops: Vec<Op> = (0..case.warm as usize).map(|i| Op::Add((((i as u32) << 16) / np as u32 + 1) as u16)).collect();
    ops.extend(case.ops.iter().cloned());

    for (step, op) in ops.iter().enumerate() {
        let fanout_before: Option<BTreeSet<PeerId>> = node.gs.verif_fanout(&th).map(|v| v.into_iter().collect());
        let mut is_heartbeat = false;
        let mut published = false;
        let mut publish_result = String::new();
        match op {
            Op::Add(p) => {
                let i = pick(*p, np);
                if !node.is_connected(&pool[i]) {
                    let id = next_conn;
                    next_conn += 1;
                    node.connect(pool[i], id, i % 2 == 0);
                    node.peer_kind(id, if floodsub(i) { KIND_FLOODSUB } else { KIND_GS11 });
                }
                let id = node.conns_of(&pool[i])[0];
                node.deliver(id, &rpc_subs(&[(T, true)])).expect("codec accepts");
                subscribed.insert(i);
            }
            Op::Remove(p, disconnect) => {
                let i = pick(*p, np);
                if node.is_connected(&pool[i]) {
                    let id = node.conns_of(&pool[i])[0];
                    if *disconnect {
                        node.disconnect(id);
                    } else {
                        node.deliver(id, &rpc_subs(&[(T, false)])).expect("codec accepts");
                    }
                    subscribed.remove(&i);
                    selected.remove(&i);
                    dipped_member_at_publish.remove(&i);
                    // no longer "selected earlier and still eligible", even if it subscribes again later
                    if let Some(prev) = last_recipients.as_mut() {
                        prev.remove(&i);
                    }
                }
            }
            Op::Resub(p) => {
                let i = pick(*p, np);
                if node.is_connected(&pool[i]) {
                    let id = node.conns_of(&pool[i])[0];
                    node.deliver(id, &rpc_subs(&[(1, true), (T, subscribed.contains(&i))])).expect("codec accepts");
                }
            }
            Op::Publish => {
                published = true;
                publish_result = format!("{:?}", node.gs.publish(th.clone(), vec![step as u8, 7, 7]).map(|_| ()));
            }
            Op::Heartbeat => {
                is_heartbeat = true;
                node.heartbeat();
            }
            Op::AdvanceMs(ms) => verif_clock::advance(Duration::from_millis(*ms as u64)),
            Op::Score(p, level) => {
                let i = pick(*p, np);
                let v = match level {
                    0 => -5000.0,
                    1 => -100.0,
                    2 => 0.0,
                    _ => 10.0,
                };
                let _ = node.gs.set_application_score(&pool[i], v);
            }
        }
        node.drain();
        node.app_events.clear();
        // eligible = connected, subscribed and (with scoring) not below the publish threshold right now
        let below_set: BTreeSet<usize> = (0..np).filter(|i| case.scoring && node.gs.peer_score(&pool[*i]).is_some_and(|s| s < -2000.0)).collect();
        let below = |i: usize| below_set.contains(&i);
        let eligible: BTreeSet<PeerId> = subscribed.iter().filter(|i| !below(**i)).map(|i| pool[*i]).collect();
        let fanout_after: Option<BTreeSet<PeerId>> = node.gs.verif_fanout(&th).map(|v| v.into_iter().collect());
        // who was sent the message in this step
        let mut recipients: BTreeSet<usize> = BTreeSet::new();
        for (i, p) in pool.iter().enumerate() {
            if node.is_connected(p) && !summarize(&node.pop(p)).publishes.is_empty() {
                recipients.insert(i);
            }
        }
        let detail = |what: &str| {
            json!({"step": step, "op": format!("{op:?}"), "what": what, "mesh_n": case.mesh_n, "publish_result": publish_result,
                   "eligible": eligible.iter().map(short).collect::<Vec<_>>(),
                   "fanout_before": fanout_before.as_ref().map(|f| f.iter().map(short).collect::<Vec<_>>()),
                   "fanout_after": fanout_after.as_ref().map(|f| f.iter().map(short).collect::<Vec<_>>()),
                   "recipients": recipients.iter().map(|i| short(&pool[*i])).collect::<Vec<_>>()})
        };

        if is_heartbeat {
            last_recipients = None;
            selected.clear();
            dipped_member_at_publish.clear();
            continue;
        }
        // "selected earlier ... still eligible ... stay": a peer selected since the last heartbeat that is
        // eligible now is a member now, also when it was below the publish threshold at a publish in between
        for i in &selected {
            if eligible.contains(&pool[*i]) && !fanout_after.as_ref().is_some_and(|f| f.contains(&pool[*i])) {
                return Outcome::fail(
                    "C35:fanout-peer-selected-earlier-and-eligible-again-is-missing",
                    detail("a peer that was in the fanout set since the last heartbeat, never unsubscribed or disconnected, and is eligible now (score back above the publish threshold) is not in the fanout set"),
                );
            }
            if dipped_member_at_publish.contains(i) && eligible.contains(&pool[*i]) {
                restored_after_dip_publish = true;
            }
        }
        if let Some(f) = &fanout_after {
            for (i, p) in pool.iter().enumerate() {
                if f.contains(p) {
                    selected.insert(i);
                }
            }
        }
        if published {
            for i in &selected {
                if subscribed.contains(i) && below(*i) {
                    dipped_member_at_publish.insert(*i);
                }
            }
        }
        // between heartbeats: nobody still eligible leaves the fanout set, whatever the step was
        if let Some(before) = &fanout_before {
            let must_stay: BTreeSet<PeerId> = before.intersection(&eligible).copied().collect();
            let after = fanout_after.clone().unwrap_or_default();
            if !must_stay.is_subset(&after) {
                let sig = if published { "C35:publish-dropped-eligible-fanout-peer" } else { "C35:eligible-fanout-peer-dropped-outside-heartbeat" };
                return Outcome::fail(sig, detail("an earlier fanout peer that is still connected and subscribed is no longer in the fanout set"));
            }
        }
        if published {
            let after = fanout_after.clone().unwrap_or_default();
            // members of the fanout set are eligible non-floodsub peers
            let connected_subscribers: BTreeSet<PeerId> = subscribed.iter().map(|i| pool[*i]).collect();
            let before_set = fanout_before.clone().unwrap_or_default();
            for p in &after {
                ensure!(connected_subscribers.contains(p), "C35:ineligible-peer-in-fanout-after-publish", detail("fanout member is not a connected subscriber"));
                // a member that is below the publish threshold may linger until the heartbeat, but is never added
                ensure!(eligible.contains(p) || before_set.contains(p), "C35:ineligible-peer-added-to-fanout", detail("a peer below the publish threshold was added to the fanout set"));
            }
            // the message went to every fanout peer
            let rec_ids: BTreeSet<PeerId> = recipients.iter().map(|i| pool[*i]).collect();
            ensure!(after.intersection(&eligible).all(|p| rec_ids.contains(p)), "C35:fanout-peer-not-a-recipient", detail("an eligible fanout peer did not get the published message"));
            ensure!(recipients.iter().all(|i| subscribed.contains(i)), "C35:recipient-not-subscribed", detail("message sent to a peer that is not a connected subscriber"));
            ensure!(recipients.iter().all(|i| !below(*i)), "C35:recipient-below-publish-threshold", detail("message sent to a peer whose score is below the publish threshold"));
            // cross-check that needs no hook: recipients of consecutive publishes (no heartbeat between)
            if let Some(prev) = &last_recipients {
                let still: BTreeSet<usize> = prev.iter().copied().filter(|i| subscribed.contains(i) && !below(*i)).collect();
                ensure!(
                    still.is_subset(&recipients),
                    "C35:earlier-recipient-skipped-by-next-publish",
                    detail("a still-eligible recipient of the previous publish (no heartbeat in between) was not a recipient of this publish")
                );
            }
            if publish_result == "Ok(())" {
                publishes_ok += 1;
                last_recipients = Some(recipients.clone());
            }
            let nonflood_eligible = subscribed.iter().filter(|i| !floodsub(**i)).count();
            if let Some(before) = &fanout_before {
                let kept = before.intersection(&eligible).count();
                if kept > 0 && kept < case.mesh_n && nonflood_eligible > kept {
                    nontrivial = true;
                }
                if kept > 0 && kept < case.mesh_n {
                    labels.push("publish_with_partial_fanout");
                }
                if kept >= case.mesh_n {
                    labels.push("publish_with_full_fanout");
                }
            } else {
                labels.push("publish_creating_fanout");
            }
        }
    }
    labels.sort();
    labels.dedup();
    if publishes_ok >= 2 {
        labels.push("two_or_more_publishes");
    }
    if case.scoring {
        labels.push("scoring");
    }
    if !dipped_member_at_publish.is_empty() || restored_after_dip_publish {
        labels.push("publish_while_a_selected_peer_is_below_publish_threshold");
    }
    if restored_after_dip_publish {
        labels.push("selected_peer_eligible_again_after_publish_during_its_dip");
    }
    Outcome::pass_l(nontrivial, labels)
}

pub fn run(ctx: &mut Ctx) {
    ctx.assume("hooks: Behaviour::verif_fanout (read accessor), verif_heartbeat, verif::decode, Handler::verif_pop_wire; flood_publish disabled (the fanout path is unused otherwise); 'eligible' = connected, subscribed to the topic and, when scoring is on (50% of the cases, application score only), Behaviour::peer_score() not below the publish threshold at that moment");
    ctx.assume("'selected earlier and still eligible' is read as: member of the fanout set at some point since the last heartbeat, no unsubscribe/disconnect since, and eligible now - a dip of the score below the publish threshold in between does not end the selection (the implementation only drops such peers in the heartbeat)");
    ctx.check::<Case>(
        "publish-histories",
        "node never subscribed to T, mesh_n 2..4, 2..12 peers (some floodsub); <=40 ops: peer subscribes / unsubscribes / disconnects, publish(T), heartbeat, clock advance, application-score changes (below the publish threshold and back; scoring on in 50%); after every non-heartbeat step fanout(T) keeps every earlier member that is still eligible; after a publish fanout is a subset of the recipients and of the eligible peers, and (hook-free) still-eligible recipients of the previous publish are recipients again; non-trivial = a publish while 0 < |fanout| < mesh_n and further eligible peers exist",
        ctx.n(30_000, 600_000),
        &strategy,
        &check,
    );
}
