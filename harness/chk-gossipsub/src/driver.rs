//! Common driver: a real `gossipsub::Behaviour` driven directly through its public
//! `NetworkBehaviour` methods, with the harness playing the Swarm (it owns the real per-connection
//! `Handler` objects, delivers `NotifyHandler` events to them and pops their send queues).
//!
//! Inbound RPCs are wire bytes decoded by the real codec (hook `verif::decode`), outbound RPCs are
//! popped from the real handler queue as wire bytes (hook `Handler::verif_pop_wire`) and decoded
//! here with prost structs generated from the repo's own `.proto` (included by path).

use bytes::BytesMut;
use libp2p_core::{transport::PortUse, ConnectedPoint, Endpoint, Multiaddr};
use libp2p_gossipsub as gs;
use libp2p_identity::{Keypair, PeerId};
use libp2p_swarm::{
    behaviour::{ConnectionClosed, ConnectionEstablished, FromSwarm},
    ConnectionHandler, ConnectionId, NetworkBehaviour, NotifyHandler, THandler, ToSwarm,
};
use prost::Message as _;
use serde::{Deserialize, Serialize};
use std::collections::{BTreeMap, BTreeSet};
use std::task::{Context, Poll};
use std::time::Duration;

#[allow(dead_code, unreachable_pub, clippy::all)]
pub mod pb {
    include!("/repo/protocols/gossipsub/src/generated/gossipsub.pb.rs");
}

pub type Beh = gs::Behaviour;
pub type Hdl = THandler<Beh>;

pub const KIND_FLOODSUB: u8 = 1;
#[allow(dead_code)]
pub const KIND_GS10: u8 = 2;
pub const KIND_GS11: u8 = 3;

/// Serialisable node configuration (the part of `gossipsub::Config` the checks vary).
#[derive(Clone, Debug, Serialize, Deserialize, PartialEq)]
pub struct NodeCfg {
    pub outbound_min: usize,
    pub n_low: usize,
    pub n: usize,
    pub n_high: usize,
    pub prune_backoff_s: u64,
    pub unsub_backoff_s: u64,
    pub backoff_slack: u32,
    pub flood_publish: bool,
    pub scoring: bool,
    pub fanout_ttl_s: u64,
    pub opportunistic_ticks: u64,
    /// topic-specific mesh parameter sets (`ConfigBuilder::mesh_*_for_topic`); topics without an
    /// entry use the default set above. Only valid sets are generated (see C34's known finding).
    #[serde(default)]
    pub topic_mesh: Vec<TopicMesh>,
    /// `ConfigBuilder::validate_messages()`: the application (= the harness) reports the validation
    /// result before a received message is forwarded
    #[serde(default)]
    pub validate_messages: bool,
}

/// Mesh parameters of one topic (index into the check's topic pool).
#[derive(Clone, Debug, Serialize, Deserialize, PartialEq)]
pub struct TopicMesh {
    pub topic: u8,
    pub outbound_min: usize,
    pub n_low: usize,
    pub n: usize,
    pub n_high: usize,
}

impl NodeCfg {
    pub fn default_mesh() -> Self {
        NodeCfg {
            outbound_min: 2,
            n_low: 5,
            n: 6,
            n_high: 12,
            prune_backoff_s: 60,
            unsub_backoff_s: 10,
            backoff_slack: 1,
            flood_publish: true,
            scoring: false,
            fanout_ttl_s: 60,
            opportunistic_ticks: 60,
            topic_mesh: vec![],
            validate_messages: false,
        }
    }

    /// the mesh parameter set in force for topic `t` (last entry wins, as `set_topic_config` replaces)
    pub fn mesh_for(&self, t: u8) -> TopicMesh {
        self.topic_mesh.iter().rev().find(|m| m.topic == t).cloned().unwrap_or(TopicMesh {
            topic: t,
            outbound_min: self.outbound_min,
            n_low: self.n_low,
            n: self.n,
            n_high: self.n_high,
        })
    }

    pub fn has_topic_mesh(&self, t: u8) -> bool {
        self.topic_mesh.iter().any(|m| m.topic == t)
    }

    pub fn build(&self) -> gs::Config {
        let mut b = gs::ConfigBuilder::default();
        b.mesh_outbound_min(self.outbound_min)
            .mesh_n_low(self.n_low)
            .mesh_n(self.n)
            .mesh_n_high(self.n_high)
            .prune_backoff(Duration::from_secs(self.prune_backoff_s))
            .unsubscribe_backoff(Duration::from_secs(self.unsub_backoff_s))
            .backoff_slack(self.backoff_slack)
            .flood_publish(self.flood_publish)
            .fanout_ttl(Duration::from_secs(self.fanout_ttl_s))
            .opportunistic_graft_ticks(self.opportunistic_ticks)
            // the heartbeat timer must never fire from `poll`: heartbeats are explicit
            .heartbeat_interval(Duration::from_secs(1))
            .heartbeat_initial_delay(Duration::from_secs(365 * 24 * 3600))
            // real timers attached to queued publishes must never expire during a case
            .publish_queue_duration(Duration::from_secs(24 * 3600))
            .forward_queue_duration(Duration::from_secs(24 * 3600))
            .support_floodsub();
        for m in &self.topic_mesh {
            // the four public per-topic setters (TopicMeshConfig itself is not exported)
            b.mesh_outbound_min_for_topic(m.outbound_min, topic_hash(m.topic))
                .mesh_n_low_for_topic(m.n_low, topic_hash(m.topic))
                .mesh_n_for_topic(m.n, topic_hash(m.topic))
                .mesh_n_high_for_topic(m.n_high, topic_hash(m.topic));
        }
        if self.validate_messages {
            b.validate_messages();
        }
        b.build().expect("valid gossipsub config")
    }
}

pub fn topic_name(i: u8) -> String {
    format!("t{i}")
}
pub fn topic(i: u8) -> gs::IdentTopic {
    gs::IdentTopic::new(topic_name(i))
}
pub fn topic_hash(i: u8) -> gs::TopicHash {
    topic(i).hash()
}

/// deterministic ed25519 key for node/peer index `i`
pub fn node_key(i: u16) -> Keypair {
    let mut s = [0u8; 32];
    for (k, b) in s.iter_mut().enumerate() {
        *b = (k as u8).wrapping_mul(13).wrapping_add(0x5A) ^ (i as u8).wrapping_mul(29);
    }
    s[0] = 0x77;
    s[1] = (i >> 8) as u8;
    s[2] = i as u8;
    Keypair::ed25519_from_bytes(s).expect("32 bytes")
}

pub fn scoring_params() -> (gs::PeerScoreParams, gs::PeerScoreThresholds) {
    // no topic is scored; the score is app_score − penalties², so: app < 0 ⇒ negative,
    // app ≥ 0 and no behaviour penalty ⇒ non-negative
    let params = gs::PeerScoreParams {
        topics: Default::default(),
        topic_score_cap: 0.0,
        app_specific_weight: 1.0,
        ip_colocation_factor_weight: 0.0,
        ip_colocation_factor_threshold: 10.0,
        ip_colocation_factor_whitelist: Default::default(),
        behaviour_penalty_weight: -1.0,
        behaviour_penalty_threshold: 0.0,
        behaviour_penalty_decay: 0.9,
        // refresh (decay) is driven by a real timer inside `poll`: keep it out of the case
        decay_interval: Duration::from_secs(24 * 3600),
        decay_to_zero: 0.01,
        retain_score: Duration::from_secs(3600),
        slow_peer_weight: 0.0,
        slow_peer_threshold: 0.0,
        slow_peer_decay: 0.9,
    };
    let thresholds = gs::PeerScoreThresholds {
        gossip_threshold: -1000.0,
        publish_threshold: -2000.0,
        graylist_threshold: -3000.0,
        accept_px_threshold: 10.0,
        opportunistic_graft_threshold: 5.0,
    };
    (params, thresholds)
}

#[derive(Clone, Debug, PartialEq, Eq)]
pub enum Notify {
    Joined,
    Left,
}

pub struct Conn {
    pub peer: PeerId,
    pub outbound: bool,
    pub handler: Hdl,
}

pub struct Node {
    pub gs: Beh,
    pub local: PeerId,
    /// live connections, keyed by connection id (as the Swarm's pool would hold them)
    pub conns: BTreeMap<u64, Conn>,
    pub app_events: Vec<gs::Event>,
    /// (peer, connection, Joined/Left, delivered to a live handler?) since the last `take_notifies`
    pub notifies: Vec<(PeerId, u64, Notify, bool)>,
    pub dials: u64,
}

fn endpoint(outbound: bool, n: u64) -> ConnectedPoint {
    let addr: Multiaddr = format!("/memory/{}", n + 1).parse().unwrap();
    if outbound {
        ConnectedPoint::Dialer { address: addr, role_override: Endpoint::Dialer, port_use: PortUse::Reuse }
    } else {
        ConnectedPoint::Listener { local_addr: "/memory/999999".parse().unwrap(), send_back_addr: addr }
    }
}

pub fn frame(rpc: &pb::Rpc) -> Vec<u8> {
    vcore::refcodec::lp(&rpc.encode_to_vec())
}

pub fn unframe(bytes: &[u8]) -> Option<pb::Rpc> {
    let (len, n) = vcore::refcodec::read_uvarint(bytes)?;
    if bytes.len() != n + len as usize {
        return None;
    }
    pb::Rpc::decode(&bytes[n..]).ok()
}

impl Node {
    pub fn new(key: Keypair, cfg: &NodeCfg) -> Node {
        let local = key.public().to_peer_id();
        let mut gs = Beh::new(gs::MessageAuthenticity::Signed(key), cfg.build()).expect("behaviour");
        if cfg.scoring {
            let (p, t) = scoring_params();
            gs.with_peer_score(p, t).expect("peer score");
        }
        Node { gs, local, conns: BTreeMap::new(), app_events: vec![], notifies: vec![], dials: 0 }
    }

    pub fn conns_of(&self, peer: &PeerId) -> Vec<u64> {
        self.conns.iter().filter(|(_, c)| &c.peer == peer).map(|(id, _)| *id).collect()
    }

    pub fn is_connected(&self, peer: &PeerId) -> bool {
        self.conns.values().any(|c| &c.peer == peer)
    }

    /// New established connection `id` to `peer` (as the Swarm does: handler first, then the event).
    pub fn connect(&mut self, peer: PeerId, id: u64, outbound: bool) {
        let other = self.conns_of(&peer).len();
        let cid = ConnectionId::new_unchecked(id as usize);
        let ep = endpoint(outbound, id);
        let handler = if outbound {
            self.gs
                .handle_established_outbound_connection(cid, peer, ep.get_remote_address(), Endpoint::Dialer, PortUse::Reuse)
                .expect("never denied")
        } else {
            let local: Multiaddr = "/memory/999999".parse().unwrap();
            self.gs.handle_established_inbound_connection(cid, peer, &local, ep.get_remote_address()).expect("never denied")
        };
        self.conns.insert(id, Conn { peer, outbound, handler });
        self.gs.on_swarm_event(FromSwarm::ConnectionEstablished(ConnectionEstablished {
            peer_id: peer,
            connection_id: cid,
            endpoint: &ep,
            failed_addresses: &[],
            other_established: other,
        }));
    }

    /// The handler of connection `id` reports the negotiated protocol.
    pub fn peer_kind(&mut self, id: u64, kind: u8) {
        let Some(c) = self.conns.get(&id) else { return };
        let peer = c.peer;
        self.gs.on_connection_handler_event(peer, ConnectionId::new_unchecked(id as usize), gs::verif::peer_kind_event(kind));
    }

    pub fn disconnect(&mut self, id: u64) {
        let Some(c) = self.conns.remove(&id) else { return };
        let remaining = self.conns_of(&c.peer).len();
        let ep = endpoint(c.outbound, id);
        self.gs.on_swarm_event(FromSwarm::ConnectionClosed(ConnectionClosed {
            peer_id: c.peer,
            connection_id: ConnectionId::new_unchecked(id as usize),
            endpoint: &ep,
            cause: None,
            remaining_established: remaining,
        }));
        drop(c.handler);
    }

    /// Deliver one length-prefixed frame as received on connection `id`. Err = codec refused it.
    pub fn deliver_bytes(&mut self, id: u64, bytes: &[u8]) -> Result<(), String> {
        let Some(c) = self.conns.get(&id) else { return Err("no such connection".into()) };
        let peer = c.peer;
        let mut buf = BytesMut::from(bytes);
        let cfg = self.gs.verif_config().clone();
        match gs::verif::decode(&cfg, &mut buf)? {
            Some(ev) => {
                self.gs.on_connection_handler_event(peer, ConnectionId::new_unchecked(id as usize), ev);
                Ok(())
            }
            None => Err("incomplete frame".into()),
        }
    }

    pub fn deliver(&mut self, id: u64, rpc: &pb::Rpc) -> Result<(), String> {
        self.deliver_bytes(id, &frame(rpc))
    }

    /// Poll the behaviour until `Pending`, acting as the Swarm for everything it emits.
    pub fn drain(&mut self) {
        let waker = futures::task::noop_waker();
        let mut cx = Context::from_waker(&waker);
        for _ in 0..100_000 {
            match self.gs.poll(&mut cx) {
                Poll::Pending => return,
                Poll::Ready(ToSwarm::GenerateEvent(e)) => self.app_events.push(e),
                Poll::Ready(ToSwarm::NotifyHandler { peer_id, handler, event }) => {
                    let kind = match format!("{event:?}").as_str() {
                        "JoinedMesh" => Notify::Joined,
                        _ => Notify::Left,
                    };
                    match handler {
                        NotifyHandler::One(cid) => {
                            let id = conn_num(cid);
                            match self.conns.get_mut(&id) {
                                Some(c) if c.peer == peer_id => {
                                    c.handler.on_behaviour_event(event);
                                    self.notifies.push((peer_id, id, kind, true));
                                }
                                _ => self.notifies.push((peer_id, id, kind, false)),
                            }
                        }
                        NotifyHandler::Any => {
                            // the Swarm picks any connection of the peer: use the oldest
                            if let Some(id) = self.conns_of(&peer_id).first().copied() {
                                self.conns.get_mut(&id).unwrap().handler.on_behaviour_event(event);
                                self.notifies.push((peer_id, id, kind, true));
                            } else {
                                self.notifies.push((peer_id, u64::MAX, kind, false));
                            }
                        }
                    }
                }
                Poll::Ready(ToSwarm::Dial { .. }) => self.dials += 1,
                Poll::Ready(_) => {}
            }
        }
        panic!("behaviour poll did not become pending");
    }

    /// Pop every queued RPC for `peer` through its real handler, as wire frames.
    pub fn pop_wire(&mut self, peer: &PeerId) -> Vec<Vec<u8>> {
        let mut out = vec![];
        for id in self.conns_of(peer) {
            let h = &mut self.conns.get_mut(&id).unwrap().handler;
            while let Some(bytes) = h.verif_pop_wire() {
                out.push(bytes);
            }
        }
        out
    }

    pub fn pop(&mut self, peer: &PeerId) -> Vec<pb::Rpc> {
        self.pop_wire(peer).iter().map(|b| unframe(b).expect("frame written by the real codec parses")).collect()
    }

    /// Does any live handler of `peer` keep its connection alive (i.e. believe "in mesh")?
    pub fn believes(&self, peer: &PeerId) -> bool {
        self.conns.values().any(|c| &c.peer == peer && c.handler.connection_keep_alive())
    }

    pub fn mesh(&self, t: &gs::TopicHash) -> BTreeSet<PeerId> {
        self.gs.mesh_peers(t).copied().collect()
    }

    pub fn subscribed(&self, t: &gs::TopicHash) -> bool {
        self.gs.topics().any(|x| x == t)
    }

    pub fn heartbeat(&mut self) {
        self.gs.verif_heartbeat();
    }
}

pub fn conn_num(c: ConnectionId) -> u64 {
    // ConnectionId has no public getter; its Display/Debug prints the number
    let s = format!("{c}");
    s.parse().unwrap_or_else(|_| {
        let d = format!("{c:?}");
        d.chars().filter(|c| c.is_ascii_digit()).collect::<String>().parse().expect("connection id number")
    })
}

// ---- RPC builders -----------------------------------------------------------------------------

pub fn rpc_subs(subs: &[(u8, bool)]) -> pb::Rpc {
    pb::Rpc {
        subscriptions: subs
            .iter()
            .map(|(t, s)| pb::rpc::SubOpts { subscribe: Some(*s), topic_id: Some(topic_name(*t)), requests_partial: None, supports_partial: None })
            .collect(),
        publish: vec![],
        control: None,
        partial: None,
    }
}

pub fn rpc_control(grafts: &[u8], prunes: &[(u8, Option<u64>)]) -> pb::Rpc {
    pb::Rpc {
        subscriptions: vec![],
        publish: vec![],
        control: Some(pb::ControlMessage {
            ihave: vec![],
            iwant: vec![],
            graft: grafts.iter().map(|t| pb::ControlGraft { topic_id: Some(topic_name(*t)) }).collect(),
            prune: prunes.iter().map(|(t, b)| pb::ControlPrune { topic_id: Some(topic_name(*t)), peers: vec![], backoff: *b }).collect(),
            idontwant: vec![],
            extensions: None,
        }),
        partial: None,
    }
}

/// Summary of what one popped RPC carries (topic names).
#[derive(Default, Debug, Clone)]
pub struct OutSummary {
    pub grafts: Vec<String>,
    pub prunes: Vec<(String, Option<u64>)>,
    pub publishes: Vec<pb::Message>,
    pub subs: Vec<(String, bool)>,
}

pub fn summarize(rpcs: &[pb::Rpc]) -> OutSummary {
    let mut s = OutSummary::default();
    for r in rpcs {
        for sub in &r.subscriptions {
            s.subs.push((sub.topic_id.clone().unwrap_or_default(), sub.subscribe.unwrap_or(false)));
        }
        s.publishes.extend(r.publish.iter().cloned());
        if let Some(c) = &r.control {
            s.grafts.extend(c.graft.iter().map(|g| g.topic_id.clone().unwrap_or_default()));
            s.prunes.extend(c.prune.iter().map(|p| (p.topic_id.clone().unwrap_or_default(), p.backoff)));
        }
    }
    s
}

pub fn short(p: &PeerId) -> String {
    let s = p.to_base58();
    s[s.len() - 6..].to_string()
}
