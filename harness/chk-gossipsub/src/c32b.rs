//! C32, behaviour-level clause: while a backoff announced for (topic, peer) has not elapsed the
//! node neither grafts the peer (heartbeat / subscription / join) nor accepts its GRAFT, which is
//! answered with PRUNE and a score penalty. Registered under C32 by the owner of that property.
use crate::mesh::{case_strategy, run_case, Case, Mode};
use vcore::{Ctx, Outcome};

fn check(case: &Case) -> Outcome {
    match run_case(case, Mode::C32) {
        Err(o) => o,
        Ok(s) => {
            let mut labels = vec![];
            if s.graft_rejected_backoff > 0 {
                labels.push("graft_refused_during_backoff");
            }
            if s.backoff_graft_penalised > 0 {
                labels.push("graft_during_backoff_penalised");
            }
            if s.backoff_blocked_steps > 0 {
                labels.push("heartbeat_left_backed_off_peer_out");
            }
            if s.backoff_outlived_prune_backoff > 0 {
                labels.push("remote_backoff_longer_than_prune_backoff");
            }
            Outcome::pass_l(s.graft_rejected_backoff > 0 && s.backoff_blocked_steps > 0, labels)
        }
    }
}

pub fn run_behaviour_part(ctx: &mut Ctx) {
    ctx.assume("behaviour clause: backoffs are those announced on the wire (PRUNE received: min(backoff,3600 s) or prune_backoff; PRUNE sent: its backoff field); ties at the expiry instant are not asserted");
    let max_ops = ctx.tier.sel(60, 90);
    ctx.check::<Case>(
        "behaviour",
        "C28's history generator with prune_backoff 1..8 s and received PRUNE backoffs up to 2x that (longer than prune_backoff), heartbeats and clock advances interleaved; while now < announced expiry: the peer never enters that mesh, its GRAFT is refused, answered with PRUNE and lowers its score; non-trivial = >=1 GRAFT refused during backoff and >=1 heartbeat that left a connected backed-off peer out",
        ctx.n(20_000, 600_000),
        &|| case_strategy(max_ops, 8),
        &check,
    );
}
