//! C14 — multistream-select negotiation agrees and is transparent to application data.
//!
//! `dialer_select_proto` and `listener_select_proto` run as two tasks on the simulation executor
//! over a scripted in-memory pipe. Generated: both protocol lists, the version, application
//! payloads and the order in which each side reads/writes them, the chunking / readiness script of
//! all four pipe half-directions, and the task schedule (including spurious polls).

use crate::msref::{self, End, Next};
use crate::tapio::{kind_name, Tap, TapStats};
use futures::{AsyncReadExt, AsyncWriteExt};
use multistream_select::{dialer_select_proto, listener_select_proto, Negotiated, NegotiationError, ProtocolError, Version};
use proptest::prelude::*;
use serde::{Deserialize, Serialize};
use serde_json::json;
use std::sync::{Arc, Mutex};
use vcore::simexec::{Exec, Slot};
use vcore::simio::{self, DirCfg, Duplex};
use vcore::{ensure, Ctx, Outcome};

/// valid names (index 0..6); index 5 needs a two-byte length prefix
pub fn name(i: u8) -> String {
    match i {
        0 => "/a".into(),
        1 => "/b".into(),
        2 => "/proto/1.0.0".into(),
        3 => "/".into(),
        4 => "/\u{fc}n\u{ef}/\u{df}".into(),
        5 => format!("/long/{}", "x".repeat(194)),
        // names `listener_select_proto` ignores
        6 => "a".into(),
        7 => "".into(),
        _ => "na".into(),
    }
}

#[derive(Clone, Debug, Serialize, Deserialize)]
pub struct App {
    /// how many bytes of the peer's payload to read before writing (scaled; only honoured for the side named by `reader_first`)
    pub pre_read: u16,
    /// payload is written in pieces of these sizes, optionally flushing after each
    pub pieces: Vec<(u16, bool)>,
    /// read buffer size
    pub rbuf: u16,
    /// bit k set: piece k is written with `write_vectored` (two IoSlices) instead of `write`
    #[serde(default)]
    pub vectored: u8,
}

#[derive(Clone, Debug, Serialize, Deserialize)]
pub enum Sched {
    /// poll the n-th runnable task
    Pick(u16),
    /// poll this task even though it was not woken (false = dialer, true = listener)
    Spurious(bool),
}

#[derive(Clone, Debug, Serialize, Deserialize)]
pub struct Case {
    pub dialer: Vec<u8>,
    pub listener: Vec<u8>,
    pub lazy: bool,
    pub d_payload: Vec<u8>,
    pub l_payload: Vec<u8>,
    pub d_app: App,
    pub l_app: App,
    /// 0: both write first; 1: dialer reads first; 2: listener reads first
    pub reader_first: u8,
    pub d2l: DirCfg,
    pub l2d: DirCfg,
    pub schedule: Vec<Sched>,
}

pub fn payload() -> impl Strategy<Value = Vec<u8>> {
    let prefixes: Vec<Vec<u8>> = vec![
        vec![0],
        vec![0x80, 0x80],
        vec![0x80, 0x00],
        b"\x03na\n".to_vec(),
        b"\x03ls\n".to_vec(),
        b"\x03/b\n".to_vec(),
        b"\x03/\xff\n".to_vec(),
        b"\x01\n".to_vec(),
        b"\x05\x04abc\n".to_vec(),
        b"\x06\x04abc\n\n".to_vec(),
        b"\x13/multistream/1.0.0\n".to_vec(),
        vec![0x7f],
        vec![0xff, 0x7f],
        vec![0x02, 0x80, 0x80],
    ];
    prop_oneof![
        5 => proptest::collection::vec(any::<u8>(), 0..300),
        2 => proptest::collection::vec(any::<u8>(), 0..8),
        1 => proptest::collection::vec(prop_oneof![0x20u8..0x7f, Just(b'\n')], 0..80),
        2 => (proptest::sample::select(prefixes), proptest::collection::vec(any::<u8>(), 0..40)).prop_map(|(mut p, t)| { p.extend(t); p }),
    ]
}

fn app() -> impl Strategy<Value = App> {
    (any::<u16>(), proptest::collection::vec((prop_oneof![1u16..8, 1u16..400], any::<bool>()), 0..4), prop_oneof![1u16..4, 1u16..600])
        .prop_flat_map(|(pre_read, pieces, rbuf)| prop_oneof![3 => Just(0u8), 2 => any::<u8>(), 1 => Just(1u8)].prop_map(move |vectored| App { pre_read, pieces: pieces.clone(), rbuf, vectored }))
}

pub fn strategy() -> impl Strategy<Value = Case> {
    (
        (
            prop_oneof![1 => Just(vec![]), 14 => proptest::collection::vec(prop_oneof![3 => 0u8..3, 2 => 3u8..6], 1..=4)],
            proptest::collection::vec(prop_oneof![4 => 0u8..3, 2 => 3u8..6, 1 => 6u8..9], 0..=4),
            any::<bool>(),
        ),
        (payload(), payload(), app(), app(), 0u8..3),
        (simio::dircfg_strategy(40), simio::dircfg_strategy(40)),
        proptest::collection::vec(prop_oneof![9 => any::<u16>().prop_map(Sched::Pick), 1 => any::<bool>().prop_map(Sched::Spurious)], 0..60),
    )
        .prop_map(|((dialer, listener, lazy), (d_payload, l_payload, d_app, l_app, reader_first), (d2l, l2d), schedule)| Case {
            dialer,
            listener,
            lazy,
            d_payload,
            l_payload,
            d_app,
            l_app,
            reader_first,
            d2l,
            l2d,
            schedule,
        })
}

pub fn end_of(e: &NegotiationError) -> End {
    match e {
        NegotiationError::Failed => End::Failed,
        NegotiationError::ProtocolError(p) => match p {
            ProtocolError::InvalidMessage => End::InvalidMessage,
            ProtocolError::InvalidProtocol => End::InvalidProtocol,
            ProtocolError::TooManyProtocols => End::TooMany,
            ProtocolError::IoError(e) => match e.kind() {
                std::io::ErrorKind::InvalidData => End::IoInvalidData,
                std::io::ErrorKind::UnexpectedEof => End::IoEof,
                k => End::IoOther(kind_name(k)),
            },
        },
    }
}

#[derive(Clone, Debug, Serialize, PartialEq, Eq)]
pub enum Ev {
    Wrote(usize),
    WriteErr(String),
    Flushed,
    FlushErr(String),
    Closed,
    CloseErr(String),
    Read(usize),
    Eof,
    ReadErr(String),
}

impl Ev {
    fn is_err(&self) -> bool {
        matches!(self, Ev::WriteErr(_) | Ev::FlushErr(_) | Ev::CloseErr(_) | Ev::ReadErr(_))
    }
    fn is_completed_read(&self) -> bool {
        matches!(self, Ev::Read(_) | Ev::Eof | Ev::ReadErr(_))
    }
}

#[derive(Clone, Debug, Serialize)]
pub struct SideOut {
    pub nego: End,
    pub events: Vec<Ev>,
    pub received: Vec<u8>,
    pub vectored_writes: u32,
}

/// The application on one side of a negotiated stream. Stops at the first error (as an
/// application would) and drops the stream.
async fn run_app(mut io: Negotiated<Tap<Duplex>>, payload: Vec<u8>, app: App, pre_read: usize, out: &mut SideOut) {
    let rbuf = app.rbuf.max(1) as usize;
    let mut rb = vec![0u8; rbuf];
    let mut got = 0;
    while got < pre_read {
        let want = rbuf.min(pre_read - got);
        match io.read(&mut rb[..want]).await {
            Ok(0) => {
                out.events.push(Ev::Eof);
                break;
            }
            Ok(n) => {
                out.events.push(Ev::Read(n));
                out.received.extend_from_slice(&rb[..n]);
                got += n;
            }
            Err(e) => {
                out.events.push(Ev::ReadErr(kind_name(e.kind())));
                return;
            }
        }
    }
    let mut off = 0;
    let mut pieces = app.pieces.clone();
    pieces.push((u16::MAX, true));
    for (k, (len, flush)) in pieces.into_iter().enumerate() {
        let end = (off + len as usize).min(payload.len());
        if off < end {
            let res = if k < 8 && app.vectored & (1 << k) != 0 {
                // vectored write of the piece as two slices, repeated until everything is accepted
                let mut at = off;
                let mut r = Ok(());
                while at < end {
                    let mid = at + (end - at) / 2;
                    let bufs = [std::io::IoSlice::new(&payload[at..mid]), std::io::IoSlice::new(&payload[mid..end])];
                    match io.write_vectored(&bufs).await {
                        Ok(0) => {
                            r = Err(std::io::Error::from(std::io::ErrorKind::WriteZero));
                            break;
                        }
                        Ok(n) => at += n,
                        Err(e) => {
                            r = Err(e);
                            break;
                        }
                    }
                }
                out.vectored_writes += 1;
                r
            } else {
                io.write_all(&payload[off..end]).await
            };
            match res {
                Ok(()) => out.events.push(Ev::Wrote(end - off)),
                Err(e) => {
                    out.events.push(Ev::WriteErr(kind_name(e.kind())));
                    return;
                }
            }
        }
        off = end;
        if flush {
            match io.flush().await {
                Ok(()) => out.events.push(Ev::Flushed),
                Err(e) => {
                    out.events.push(Ev::FlushErr(kind_name(e.kind())));
                    return;
                }
            }
        }
    }
    match io.close().await {
        Ok(()) => out.events.push(Ev::Closed),
        Err(e) => {
            out.events.push(Ev::CloseErr(kind_name(e.kind())));
            return;
        }
    }
    loop {
        match io.read(&mut rb).await {
            Ok(0) => {
                out.events.push(Ev::Eof);
                return;
            }
            Ok(n) => {
                out.events.push(Ev::Read(n));
                out.received.extend_from_slice(&rb[..n]);
            }
            Err(e) => {
                out.events.push(Ev::ReadErr(kind_name(e.kind())));
                return;
            }
        }
    }
}

/// frames (prefix_start, data_start, end) of the first `k` frames of a stream
fn frames_of(b: &[u8], k: usize) -> Vec<(usize, usize, usize)> {
    let mut v = vec![];
    let mut pos = 0;
    for _ in 0..k {
        match msref::next_frame(b, pos) {
            Next::Frame { start, end } => {
                v.push((pos, start, end));
                pos = end;
            }
            _ => break,
        }
    }
    v
}

fn split_inside(frames: &[(usize, usize, usize)], read_bounds: &[usize], write_bounds: &[usize]) -> bool {
    frames.iter().any(|&(p, d, e)| read_bounds.iter().any(|&o| o > d && o < e) || write_bounds.iter().any(|&o| o > p && o < e))
}

pub const MAX_POLLS: usize = 60_000;

pub fn check(c: &Case) -> Outcome {
    let d_names: Vec<String> = c.dialer.iter().map(|&i| name(i)).collect();
    let l_names: Vec<String> = c.listener.iter().map(|&i| name(i)).collect();
    let supported = |n: &String| msref::valid_name(n) && l_names.contains(n);
    let idx = d_names.iter().position(supported);
    let n = d_names.len();
    let rejected = idx.unwrap_or(n);
    // V1Lazy settles optimistically on the last protocol once all earlier ones were rejected
    let lazy_path = c.lazy && n > 0 && rejected >= n - 1;

    let (d_end, l_end) = simio::pair(c.d2l.clone(), c.l2d.clone());
    let (d_io, d_tap) = Tap::new(d_end);
    let (l_io, l_tap) = Tap::new(l_end);
    let d_slot: Slot<SideOut> = Slot::new();
    let l_slot: Slot<SideOut> = Slot::new();
    let version = if c.lazy { Version::V1Lazy } else { Version::V1 };
    let d_pre = if c.reader_first == 1 { vcore::pick(c.d_app.pre_read, c.l_payload.len() + 1) } else { 0 };
    let l_pre = if c.reader_first == 2 { vcore::pick(c.l_app.pre_read, c.d_payload.len() + 1) } else { 0 };

    let ex = Exec::new();
    {
        let (slot, names, payload, app) = (d_slot.clone(), d_names.clone(), c.d_payload.clone(), c.d_app.clone());
        ex.spawn_named("dialer", async move {
            let mut out = SideOut { nego: End::Failed, events: vec![], received: vec![], vectored_writes: 0 };
            match dialer_select_proto(d_io, names, version).await {
                Ok((p, io)) => {
                    out.nego = End::Ok(p);
                    run_app(io, payload, app, d_pre, &mut out).await;
                }
                Err(e) => out.nego = end_of(&e),
            }
            slot.set(out);
        });
    }
    {
        let (slot, names, payload, app) = (l_slot.clone(), l_names.clone(), c.l_payload.clone(), c.l_app.clone());
        ex.spawn_named("listener", async move {
            let mut out = SideOut { nego: End::Failed, events: vec![], received: vec![], vectored_writes: 0 };
            match listener_select_proto(l_io, names).await {
                Ok((p, io)) => {
                    out.nego = End::Ok(p);
                    run_app(io, payload, app, l_pre, &mut out).await;
                }
                Err(e) => out.nego = end_of(&e),
            }
            slot.set(out);
        });
    }
    let mut spurious = false;
    for s in &c.schedule {
        match s {
            Sched::Pick(p) => {
                if ex.step(*p).is_none() {
                    break;
                }
            }
            Sched::Spurious(t) => {
                spurious = true;
                ex.poll_task(*t as usize);
            }
        }
    }
    let quiescent = ex.drain(MAX_POLLS);
    let (d, l) = (d_slot.take(), l_slot.take());
    let stats = |t: &Arc<Mutex<TapStats>>| t.lock().unwrap().clone();
    let (ds, ls) = (stats(&d_tap), stats(&l_tap));
    ex.clear();
    let (d, l) = match (d, l) {
        (Some(d), Some(l)) => (d, l),
        (d, l) => {
            if quiescent {
                return Outcome::fail(
                    "C14:negotiation-stalled",
                    json!({"dialer_done": d.is_some(), "listener_done": l.is_some(), "dialer": d, "listener": l,
                           "d2l_written": ds.written.len(), "l2d_written": ls.written.len()}),
                );
            }
            return Outcome::Inconclusive(format!("poll bound {MAX_POLLS} hit"));
        }
    };

    let mut labels: Vec<&'static str> = vec![];
    if spurious {
        labels.push("spurious-poll");
    }
    if rejected >= 1 {
        labels.push("rejected>=1");
    }
    if d.vectored_writes + l.vectored_writes > 0 {
        labels.push("vectored-write");
    }
    // split of a negotiation frame, either direction
    let d2l_frames = frames_of(&ds.written, 1 + (rejected + 1).min(n));
    let l2d_frames = frames_of(&ls.written, 1 + (rejected + usize::from(idx.is_some())));
    let split = split_inside(&d2l_frames, &ls.read_bounds, &ds.write_bounds) || split_inside(&l2d_frames, &ds.read_bounds, &ls.write_bounds);
    if split {
        labels.push("split-in-frame");
    }
    if d2l_frames.iter().chain(l2d_frames.iter()).any(|&(p, dd, _)| dd - p == 2) {
        labels.push("2-byte-prefix");
    }
    let detail = |what: &str| json!({"what": what, "expected_protocol": idx.map(|i| d_names[i].clone()), "lazy_path": lazy_path, "dialer": d, "listener": l});
    let nontrivial = (rejected >= 1 || lazy_path) && split;

    match (idx, lazy_path) {
        (Some(i), _) => {
            labels.push(if lazy_path { "lazy-ok" } else if c.lazy { "lazy-version-regular-ok" } else { "v1-ok" });
            let p = End::Ok(d_names[i].clone());
            ensure!(d.nego == p, "C14:dialer-wrong-outcome", detail("dialer result"));
            ensure!(l.nego == p, "C14:listener-wrong-outcome", detail("listener result"));
            ensure!(!d.events.iter().any(Ev::is_err), "C14:dialer-app-io-error", detail("dialer application I/O failed after successful negotiation"));
            ensure!(!l.events.iter().any(Ev::is_err), "C14:listener-app-io-error", detail("listener application I/O failed after successful negotiation"));
            ensure!(l.received == c.d_payload, "C14:data-dialer-to-listener-differs", detail("bytes received by listener != bytes written by dialer"));
            ensure!(d.received == c.l_payload, "C14:data-listener-to-dialer-differs", detail("bytes received by dialer != bytes written by listener"));
            if !c.d_payload.is_empty() || !c.l_payload.is_empty() {
                labels.push("payload");
            }
            if c.reader_first != 0 {
                labels.push("reader-first");
            }
        }
        (None, false) => {
            labels.push(if n == 0 { "empty-dialer-list" } else { "v1-fail" });
            ensure!(d.nego == End::Failed, "C14:dialer-wrong-outcome", detail("dialer must fail with Failed"));
            ensure!(l.nego == End::Failed, "C14:listener-wrong-outcome", detail("listener must fail with Failed"));
        }
        (None, true) => {
            labels.push("lazy-fail");
            // dialer: optimistic Ok on its last protocol, failure surfaces by the first completed read
            ensure!(d.nego == End::Ok(d_names[n - 1].clone()), "C14:dialer-wrong-outcome", detail("lazy dialer must settle on its last protocol"));
            let first_err = d.events.iter().position(Ev::is_err);
            let first_read = d.events.iter().position(Ev::is_completed_read);
            let told = match (first_err, first_read) {
                (Some(e), Some(r)) => e <= r,
                (Some(_), None) => true,
                _ => false,
            };
            ensure!(told, "C14:lazy-dialer-not-told-of-failure", detail("no error by the first completed read"));
            ensure!(d.received.is_empty(), "C14:lazy-dialer-got-bytes-after-failed-negotiation", detail("application bytes delivered"));
            // listener: classify what followed the last rejected proposal on the wire
            let mut prefix = msref::frame_msg(&msref::RefMsg::Header);
            for p in &d_names {
                prefix.extend(msref::frame_msg(&msref::RefMsg::Protocol(p.clone())));
            }
            let common = ds.written.len().min(prefix.len());
            ensure!(ds.written[..common] == prefix[..common], "C14:dialer-wire-bytes-unexpected", detail("negotiation bytes differ from header+proposals"));
            let w: &[u8] = if ds.written.len() > prefix.len() { &ds.written[prefix.len()..] } else { &[] };
            enum Cls {
                Garbage,
                Pitfall,
                ErrKind,
            }
            let cls = match msref::next_frame(w, 0) {
                Next::CleanEof | Next::TruncEof => Cls::Garbage,
                Next::BadPrefix => Cls::ErrKind,
                Next::Frame { start, end } => match msref::ref_decode(&w[start..end]) {
                    Err(msref::RefErr::InvalidMessage) => Cls::Garbage,
                    Err(_) => Cls::ErrKind,
                    Ok(_) => Cls::Pitfall,
                },
            };
            match cls {
                Cls::Pitfall => labels.push("lazy-fail:payload-is-a-message(documented pitfall, listener not asserted)"),
                Cls::Garbage => {
                    labels.push(if w.is_empty() { "lazy-fail:no-payload" } else { "lazy-fail:garbage-payload" });
                    ensure!(l.nego == End::Failed, "C14:listener-wrong-outcome", detail("listener must fail with Failed"));
                }
                Cls::ErrKind => {
                    labels.push("lazy-fail:malformed-frame-payload");
                    ensure!(!l.nego.is_ok(), "C14:listener-wrong-outcome", detail("listener must fail"));
                    ensure!(
                        l.nego == End::Failed,
                        "C14:lazy-listener-protocol-error-instead-of-failed",
                        detail("after rejecting the optimistic proposal the listener read application bytes that are not a message and reported a protocol error instead of Failed")
                    );
                }
            }
        }
    }
    Outcome::pass_l(nontrivial, labels)
}

pub fn run(ctx: &mut Ctx) {
    ctx.assume("the in-memory pipe (vcore::simio) is a faithful AsyncRead/AsyncWrite: unbounded, flush is a no-op, dropping an end gives EOF / BrokenPipe to the peer");
    ctx.assume("application payloads that themselves parse as a multistream-select message are outside the V1Lazy failure clause (documented pitfall in Version::V1Lazy); they are generated, counted and only the dialer side is asserted");
    ctx.assume("an application stops using a stream after its first I/O error");
    ctx.check::<Case>(
        "negotiate",
        "dialer list 0..4 of 6 valid names (one needs a 2-byte length prefix), listener list 0..4 of the same plus 3 invalid names, V1/V1Lazy, payloads 0..300 bytes per direction written in generated pieces (optionally read-first on one side), 4 generated chunk/Pending scripts, generated 2-task schedule with spurious polls; non-trivial = (>=1 rejected proposal or the lazy path) and a read/write boundary strictly inside a negotiation frame",
        ctx.n(40_000, 1_000_000),
        &|| strategy().boxed(),
        &check,
    );
}
