//! C25 — mplex frame codec: round-trip under any split with the role mirrored; declared length
//! > 1 MiB rejected before the payload is buffered; unknown frame types rejected; arbitrary input
//! never panics.
//!
//! Drives the real `Codec` (`Encoder`/`Decoder`) through the `libp2p_mplex::verif_codec` shim.

use crate::msref::{put_uvarint, uvarint, Uv};
use bytes::BytesMut;
use libp2p_mplex::verif_codec::{VerifCodec, VerifDecoded, VerifFrame, MAX_FRAME_SIZE};

const _: () = assert!(MAX_FRAME_SIZE == MAX);
use proptest::prelude::*;
use serde::{Deserialize, Serialize};
use serde_json::{json, Value};
use vcore::gen::{apply_mutations, mutation, Mutation};
use vcore::runner::catch;
use vcore::{ensure, Ctx, Outcome};

pub const MAX: usize = 1024 * 1024;
/// ids the 64-bit header (`num << 3 | flag`) can carry
pub const ID_LIMIT: u64 = 1 << 61;

#[derive(Clone, Debug, Serialize, Deserialize)]
pub enum DataSpec {
    Bytes(Vec<u8>),
    /// `len` bytes produced from a seed (for large payloads)
    Fill { len: u32, seed: u8 },
}

impl DataSpec {
    pub fn build(&self) -> Vec<u8> {
        match self {
            DataSpec::Bytes(b) => b.clone(),
            DataSpec::Fill { len, seed } => (0..*len).map(|i| (i as u8).wrapping_mul(31).wrapping_add(*seed)).collect(),
        }
    }
}

#[derive(Clone, Debug, Serialize, Deserialize)]
pub struct FrameSpec {
    /// 0 Open, 1 Data, 2 Close, 3 Reset
    pub kind: u8,
    pub num: u64,
    pub dialer: bool,
    pub data: DataSpec,
}

impl FrameSpec {
    pub fn build(&self) -> VerifFrame {
        match self.kind % 4 {
            // an Open frame is only ever sent for a stream the local node initiates
            0 => VerifFrame::Open { num: self.num, dialer: true },
            1 => VerifFrame::Data { num: self.num, dialer: self.dialer, data: self.data.build() },
            2 => VerifFrame::Close { num: self.num, dialer: self.dialer },
            _ => VerifFrame::Reset { num: self.num, dialer: self.dialer },
        }
    }
}

pub fn id() -> impl Strategy<Value = u64> {
    prop_oneof![
        3 => 0u64..4,
        3 => 0u64..1000,
        1 => Just(15u64), // header 127 -> 128 boundary
        1 => Just(16u64),
        1 => Just((1u64 << 60) - 1),
        1 => Just(1u64 << 60),
        1 => Just(ID_LIMIT - 1),
        1 => 0u64..ID_LIMIT,
        1 => prop_oneof![Just(ID_LIMIT), Just(1u64 << 63), Just(u64::MAX), ID_LIMIT..=u64::MAX],
    ]
}

pub fn data_spec() -> impl Strategy<Value = DataSpec> {
    prop_oneof![
        6 => proptest::collection::vec(any::<u8>(), 0..40).prop_map(DataSpec::Bytes),
        2 => proptest::collection::vec(any::<u8>(), 100..2048).prop_map(DataSpec::Bytes),
        1 => (prop_oneof![Just(127u32), Just(128), Just(16383), Just(16384)], any::<u8>()).prop_map(|(len, seed)| DataSpec::Fill { len, seed }),
        1 => (prop_oneof![Just(MAX as u32 - 1), Just(MAX as u32), Just(MAX as u32 + 1), Just(MAX as u32 + 4096)], any::<u8>()).prop_map(|(len, seed)| DataSpec::Fill { len, seed }),
    ]
}

pub fn frame_spec() -> impl Strategy<Value = FrameSpec> {
    (0u8..4, id(), any::<bool>(), data_spec()).prop_map(|(kind, num, dialer, data)| FrameSpec { kind, num, dialer, data })
}

#[derive(Clone, Debug, Serialize, Deserialize)]
pub enum Chunking {
    Whole,
    Bytewise,
    /// cut positions scaled into the buffer
    Cuts(Vec<u16>),
}

pub fn chunking() -> impl Strategy<Value = Chunking> {
    prop_oneof![1 => Just(Chunking::Whole), 2 => Just(Chunking::Bytewise), 5 => proptest::collection::vec(any::<u16>(), 1..8).prop_map(Chunking::Cuts)]
}

pub fn chunks<'a>(b: &'a [u8], c: &Chunking) -> Vec<&'a [u8]> {
    match c {
        Chunking::Whole => vec![b],
        Chunking::Bytewise => b.chunks(1).collect(),
        Chunking::Cuts(cs) => {
            let mut pos: Vec<usize> = cs.iter().map(|&p| vcore::pick(p, b.len() + 1)).collect();
            pos.push(0);
            pos.push(b.len());
            pos.sort_unstable();
            pos.dedup();
            pos.windows(2).map(|w| &b[w[0]..w[1]]).collect()
        }
    }
}

/// flag carried in the low three header bits for a frame sent with a local id
fn flag_of(f: &VerifFrame) -> (u64, u8, &[u8]) {
    match f {
        VerifFrame::Open { num, .. } => (*num, 0, &[]),
        VerifFrame::Data { num, dialer, data } => (*num, if *dialer { 2 } else { 1 }, data),
        VerifFrame::Close { num, dialer } => (*num, if *dialer { 4 } else { 3 }, &[]),
        VerifFrame::Reset { num, dialer } => (*num, if *dialer { 6 } else { 5 }, &[]),
    }
}

/// reference encoder (mplex spec): uvarint(id << 3 | flag) ++ uvarint(len) ++ data
pub fn ref_encode(f: &VerifFrame) -> Vec<u8> {
    let (num, flag, data) = flag_of(f);
    let mut v = vec![];
    put_uvarint((num << 3) | flag as u64, &mut v);
    put_uvarint(data.len() as u64, &mut v);
    v.extend_from_slice(data);
    v
}

#[derive(Clone, Debug, PartialEq, Eq, Serialize)]
pub enum Term {
    /// input exhausted at a frame boundary
    Clean,
    /// input exhausted inside a frame
    NeedMore,
    /// decoder must have failed
    Error(&'static str),
}

/// Reference decoder over a complete buffer: frames as the receiver sees them (`dialer` = role in
/// the *remote* id, i.e. the role of the sender) and how the stream ends.
pub fn ref_decode_all(b: &[u8]) -> (Vec<VerifFrame>, Term) {
    let mut out = vec![];
    let mut pos = 0;
    loop {
        if pos == b.len() {
            return (out, Term::Clean);
        }
        let (header, used) = match uvarint(&b[pos..]) {
            Uv::Ok(v, u) => (v, u),
            Uv::Insufficient => return (out, Term::NeedMore),
            Uv::Bad => return (out, Term::Error("header-varint")),
        };
        let p2 = pos + used;
        let (len, used2) = match uvarint(&b[p2..]) {
            Uv::Ok(v, u) => (v, u),
            Uv::Insufficient => return (out, Term::NeedMore),
            Uv::Bad => return (out, Term::Error("length-varint")),
        };
        if len > MAX as u64 {
            return (out, Term::Error("length>1MiB"));
        }
        let start = p2 + used2;
        let len = len as usize;
        if b.len() - start < len {
            return (out, Term::NeedMore);
        }
        let data = b[start..start + len].to_vec();
        let num = header >> 3;
        out.push(match header & 7 {
            0 => VerifFrame::Open { num, dialer: true },
            1 => VerifFrame::Data { num, dialer: false, data },
            2 => VerifFrame::Data { num, dialer: true, data },
            3 => VerifFrame::Close { num, dialer: false },
            4 => VerifFrame::Close { num, dialer: true },
            5 => VerifFrame::Reset { num, dialer: false },
            6 => VerifFrame::Reset { num, dialer: true },
            _ => return (out, Term::Error("unknown-frame-type")),
        });
        pos = start + len;
    }
}

fn flip(f: &VerifFrame) -> VerifFrame {
    match f.clone() {
        VerifFrame::Open { num, dialer } => VerifFrame::Open { num, dialer: !dialer },
        VerifFrame::Data { num, dialer, data } => VerifFrame::Data { num, dialer: !dialer, data },
        VerifFrame::Close { num, dialer } => VerifFrame::Close { num, dialer: !dialer },
        VerifFrame::Reset { num, dialer } => VerifFrame::Reset { num, dialer: !dialer },
    }
}

#[derive(Debug)]
pub struct Decoded {
    pub frames: Vec<VerifDecoded>,
    /// index of the chunk and total bytes fed when the decoder first failed
    pub error: Option<(usize, usize, String)>,
    /// a frame was produced after an error
    pub frame_after_error: bool,
    pub leftover: usize,
}

/// Feed chunks to a fresh real decoder the way `Framed` does (append, decode until `None`).
pub fn real_decode(chunks: &[&[u8]], probe_after_error: bool) -> Result<Decoded, String> {
    catch(|| {
        let mut c = VerifCodec::new();
        let mut buf = BytesMut::new();
        let mut d = Decoded { frames: vec![], error: None, frame_after_error: false, leftover: 0 };
        let mut fed = 0;
        'outer: for (i, ch) in chunks.iter().enumerate() {
            buf.extend_from_slice(ch);
            fed += ch.len();
            loop {
                match c.decode(&mut buf) {
                    Ok(Some(f)) => d.frames.push(f),
                    Ok(None) => break,
                    Err(e) => {
                        d.error = Some((i, fed, e.to_string()));
                        break 'outer;
                    }
                }
            }
        }
        if d.error.is_some() && probe_after_error {
            // the rest of the input (and a valid frame) must not produce frames any more
            let (i, _, _) = d.error.clone().unwrap();
            for ch in chunks.iter().skip(i + 1) {
                buf.extend_from_slice(ch);
            }
            buf.extend_from_slice(&ref_encode(&VerifFrame::Close { num: 1, dialer: true }));
            for _ in 0..3 {
                if let Ok(Some(_)) = c.decode(&mut buf) {
                    d.frame_after_error = true;
                }
            }
        }
        d.leftover = buf.len();
        d
    })
}

fn short(b: &[u8]) -> Value {
    let hex: String = b.iter().take(64).map(|x| format!("{x:02x}")).collect();
    json!({"len": b.len(), "hex_prefix": hex})
}

fn fshort(f: &VerifFrame) -> String {
    match f {
        VerifFrame::Data { num, dialer, data } => format!("Data{{num:{num},dialer:{dialer},len:{}}}", data.len()),
        o => format!("{o:?}"),
    }
}

// ---------------------------------------------------------------------------------------------
// roundtrip

#[derive(Clone, Debug, Serialize, Deserialize)]
pub struct RtCase {
    pub frames: Vec<FrameSpec>,
    pub chunking: Chunking,
}

fn rt_check(c: &RtCase) -> Outcome {
    let mut labels: Vec<&'static str> = vec![];
    let mut wire = BytesMut::new();
    let mut expected: Vec<VerifFrame> = vec![]; // as sent (local ids)
    let mut big_id = false;
    let encoded = catch(|| {
        let mut enc = VerifCodec::new();
        let mut results = vec![];
        for fs in &c.frames {
            let f = fs.build();
            let before = wire.len();
            let r = enc.encode(&f, &mut wire).map_err(|e| e.to_string());
            results.push((f, r, wire.len() - before));
        }
        results
    });
    let results = match encoded {
        Err(p) => return Outcome::fail("C25:panic-in-encode", json!({"panic": p})),
        Ok(r) => r,
    };
    for (f, r, grew) in results {
        let (num, _, data) = flag_of(&f);
        if data.len() > MAX {
            labels.push("encode:data>1MiB");
            ensure!(r.is_err(), "C25:oversize-frame-encoded", json!({"frame": fshort(&f)}));
            ensure!(grew == 0, "C25:failed-encode-wrote-bytes", json!({"frame": fshort(&f), "bytes": grew}));
            continue;
        }
        ensure!(r.is_ok(), "C25:valid-frame-not-encodable", json!({"frame": fshort(&f), "err": r.err()}));
        if data.len() == MAX {
            labels.push("data=1MiB");
        }
        if num >= ID_LIMIT {
            big_id = true;
        }
        expected.push(f);
    }
    if big_id {
        labels.push("id>=2^61(not asserted)");
    }
    let wire = wire.to_vec();
    if !big_id {
        let spec: Vec<u8> = expected.iter().flat_map(ref_encode).collect();
        ensure!(wire == spec, "C25:encoding-differs-from-spec", json!({"real": short(&wire), "spec": short(&spec)}));
    }
    let verify = |chs: &[&[u8]], how: &str| -> Option<Outcome> {
        let d = match real_decode(chs, false) {
            Err(p) => return Some(Outcome::fail("C25:panic-in-decode", json!({"panic": p, "split": how, "input": short(&wire)}))),
            Ok(d) => d,
        };
        if let Some((_, at, e)) = &d.error {
            return Some(Outcome::fail("C25:roundtrip-decode-error", json!({"err": e, "fed": at, "split": how, "input": short(&wire)})));
        }
        if d.frames.len() != expected.len() || d.leftover != 0 {
            return Some(Outcome::fail("C25:roundtrip-frame-count-differs", json!({"decoded": d.frames.len(), "expected": expected.len(), "leftover": d.leftover, "split": how})));
        }
        for (got, sent) in d.frames.iter().zip(&expected) {
            let (num, _, _) = flag_of(sent);
            if num >= ID_LIMIT {
                continue;
            }
            // on the wire the id carries the sender's role; mapped to a local id the role is mirrored
            if got.remote != *sent {
                return Some(Outcome::fail("C25:roundtrip-frame-differs", json!({"sent": fshort(sent), "decoded_remote": fshort(&got.remote), "split": how})));
            }
            if got.local != flip(sent) {
                return Some(Outcome::fail("C25:role-not-mirrored", json!({"sent": fshort(sent), "decoded_local": fshort(&got.local), "split": how})));
            }
        }
        None
    };
    if let Some(o) = verify(&chunks(&wire, &c.chunking), "generated") {
        return o;
    }
    let mut exhaustive = false;
    if wire.len() <= 64 {
        exhaustive = true;
        for cut in 0..=wire.len() {
            if let Some(o) = verify(&[&wire[..cut], &wire[cut..]], "two-chunks") {
                return o;
            }
        }
        if let Some(o) = verify(&wire.chunks(1).collect::<Vec<_>>(), "bytewise") {
            return o;
        }
    }
    if exhaustive {
        labels.push("all-2-splits");
    }
    let kinds: std::collections::BTreeSet<u8> = c.frames.iter().map(|f| f.kind % 4).collect();
    if expected.iter().any(|f| matches!(f, VerifFrame::Data { dialer: false, .. } | VerifFrame::Close { dialer: false, .. } | VerifFrame::Reset { dialer: false, .. })) {
        labels.push("listener-role-frame");
    }
    let nontrivial = expected.len() >= 2 && kinds.len() >= 2 && !matches!(c.chunking, Chunking::Whole);
    Outcome::pass_l(nontrivial, labels)
}

// ---------------------------------------------------------------------------------------------
// limits: declared length / unknown type

#[derive(Clone, Debug, Serialize, Deserialize)]
pub struct LimCase {
    pub flag: u8,
    pub num: u64,
    /// declared payload length
    pub declared: u64,
    /// payload bytes actually supplied (capped at `declared`)
    pub supplied: u16,
    pub bytewise: bool,
}

fn lim_check(c: &LimCase) -> Outcome {
    let flag = c.flag % 8;
    let num = c.num % ID_LIMIT;
    let mut prefix = vec![];
    put_uvarint((num << 3) | flag as u64, &mut prefix);
    let header_len = prefix.len();
    put_uvarint(c.declared, &mut prefix);
    let supplied = (c.supplied as u64).min(c.declared) as usize;
    let mut input = prefix.clone();
    input.extend(std::iter::repeat(0xab).take(supplied));
    let chs: Vec<&[u8]> = if c.bytewise { input.chunks(1).collect() } else { vec![&input[..prefix.len()], &input[prefix.len()..]] };
    let d = match real_decode(&chs, true) {
        Err(p) => return Outcome::fail("C25:panic-in-decode", json!({"panic": p, "input": short(&input)})),
        Ok(d) => d,
    };
    let det = |what: &str| json!({"what": what, "flag": flag, "declared": c.declared, "supplied": supplied, "error": d.error, "frames": d.frames.len(), "input": short(&input)});
    ensure!(!d.frame_after_error, "C25:frame-produced-after-error", det("decoder kept producing frames after it reported an error"));
    let mut labels: Vec<&'static str> = vec![];
    if c.declared > MAX as u64 {
        labels.push("declared>1MiB");
        // rejected as soon as the length prefix is complete: before any payload byte is supplied
        match &d.error {
            None => return Outcome::fail("C25:oversize-length-not-rejected-before-payload", det("no error after the complete length prefix")),
            Some((_, fed, _)) => ensure!(*fed <= prefix.len(), "C25:oversize-length-not-rejected-before-payload", det("error only after payload bytes were fed")),
        }
        ensure!(d.frames.is_empty(), "C25:frame-from-oversize-length", det("frame decoded"));
        if c.declared == MAX as u64 + 1 {
            labels.push("declared=1MiB+1");
        }
        let _ = header_len;
        return Outcome::pass_l(true, labels);
    }
    if supplied as u64 == c.declared {
        if flag == 7 {
            labels.push("unknown-type:complete");
            ensure!(d.error.is_some() && d.frames.is_empty(), "C25:unknown-frame-type-accepted", det("frame type 7 must be rejected"));
            return Outcome::pass_l(true, labels);
        }
        labels.push("valid-frame");
        ensure!(d.error.is_none() && d.frames.len() == 1 && d.leftover == 0, "C25:valid-frame-rejected", det("complete valid frame"));
        let (rf, _) = ref_decode_all(&input);
        ensure!(rf.len() == 1 && d.frames[0].remote == rf[0], "C25:decoded-frame-differs-from-spec", det("frame content"));
        if c.declared == MAX as u64 {
            labels.push("declared=1MiB");
        }
        return Outcome::pass_l(c.declared == MAX as u64, labels);
    }
    labels.push(if flag == 7 { "unknown-type:incomplete" } else { "incomplete" });
    ensure!(d.frames.is_empty(), "C25:frame-from-incomplete-input", det("frame decoded from an incomplete payload"));
    Outcome::pass_l(false, labels)
}

// ---------------------------------------------------------------------------------------------
// arbitrary bytes: differential against the reference decoder under chunking

#[derive(Clone, Debug, Serialize, Deserialize)]
pub enum ArbCase {
    Raw { bytes: Vec<u8>, chunking: Chunking },
    Mutated { frames: Vec<FrameSpec>, muts: Vec<Mutation>, chunking: Chunking },
}

pub fn arb_bytes(c: &ArbCase) -> (Vec<u8>, &Chunking) {
    match c {
        ArbCase::Raw { bytes, chunking } => (bytes.clone(), chunking),
        ArbCase::Mutated { frames, muts, chunking } => {
            let mut v = vec![];
            for f in frames {
                let f = f.build();
                let (_, _, data) = flag_of(&f);
                if data.len() <= 4096 {
                    v.extend(ref_encode(&f));
                }
            }
            (apply_mutations(&v, muts), chunking)
        }
    }
}

/// Oracle on arbitrary bytes (shared with the fuzz target).
pub fn arb_oracle(bytes: &[u8], chunking: &Chunking) -> Result<(usize, Term), (String, Value)> {
    let chs = chunks(bytes, chunking);
    let d = match real_decode(&chs, true) {
        Err(p) => return Err(("C25:panic-in-decode".into(), json!({"panic": p, "input": short(bytes)}))),
        Ok(d) => d,
    };
    let (frames, term) = ref_decode_all(bytes);
    let det = |what: &str| json!({"what": what, "input": short(bytes), "real": {"frames": d.frames.iter().map(|f| fshort(&f.remote)).collect::<Vec<_>>(), "error": d.error, "leftover": d.leftover}, "spec": {"frames": frames.iter().map(fshort).collect::<Vec<_>>(), "end": term}});
    if d.frame_after_error {
        return Err(("C25:frame-produced-after-error".into(), det("decoder kept producing frames after an error")));
    }
    let real_frames: Vec<&VerifFrame> = d.frames.iter().map(|f| &f.remote).collect();
    if real_frames.len() != frames.len() || real_frames.iter().zip(&frames).any(|(a, b)| *a != b) {
        let sig = if real_frames.len() > frames.len() { "C25:accepted-frames-the-spec-rejects" } else { "C25:decoded-frames-differ-from-spec" };
        return Err((sig.into(), det("frame sequence")));
    }
    for f in &d.frames {
        if f.local != flip(&f.remote) {
            return Err(("C25:role-not-mirrored".into(), det("into_local")));
        }
    }
    match (&term, &d.error) {
        (Term::Error(_), None) => Err(("C25:malformed-input-not-rejected".into(), det("spec rejects, decoder waits or accepts"))),
        (Term::Clean | Term::NeedMore, Some(_)) => Err(("C25:valid-prefix-rejected".into(), det("decoder failed on a valid (possibly incomplete) stream"))),
        (Term::Clean, None) if d.leftover != 0 => Err(("C25:leftover-after-complete-stream".into(), det("bytes left"))),
        _ => Ok((frames.len(), term)),
    }
}

fn arb_check(c: &ArbCase) -> Outcome {
    let (bytes, chunking) = arb_bytes(c);
    match arb_oracle(&bytes, chunking) {
        Err((sig, d)) => Outcome::fail(sig, d),
        Ok((n, term)) => {
            let mut labels = vec![match c {
                ArbCase::Raw { .. } => "raw",
                ArbCase::Mutated { .. } => "mutated",
            }];
            labels.push(match term {
                Term::Clean => "end:clean",
                Term::NeedMore => "end:incomplete",
                Term::Error("unknown-frame-type") => "end:unknown-type",
                Term::Error("length>1MiB") => "end:length>1MiB",
                Term::Error(_) => "end:bad-varint",
            });
            if n > 0 {
                labels.push("some-frames");
            }
            Outcome::pass_l(matches!(term, Term::Error(_)) && matches!(c, ArbCase::Mutated { .. }), labels)
        }
    }
}

pub fn run(ctx: &mut Ctx) {
    ctx.assume("hook libp2p_mplex::verif_codec mirrors Frame 1:1 and calls the real Codec Encoder/Decoder and RemoteStreamId::into_local");
    ctx.assume("ids >= 2^61 cannot be carried by the 64-bit header (num << 3): generated and counted, id equality not asserted for them");
    ctx.assume("Open frames are only generated with the dialer role (the only way the muxer sends them)");
    ctx.check::<RtCase>(
        "roundtrip",
        "1..5 frames of all kinds, ids {0..1000, 15/16, 2^60-1, 2^60, 2^61-1, random <2^61, >=2^61}, payload 0..2 KiB plus 127/128/16383/16384 and 1MiB-1/1MiB/1MiB+1/+4096; encoded with the real encoder, decoded under a generated chunking and, when the encoding is <= 64 bytes, under every two-chunk split and bytewise; non-trivial = >=2 frames of >=2 kinds and not delivered whole",
        ctx.n(12_000, 300_000),
        &|| (proptest::collection::vec(frame_spec(), 1..5), chunking()).prop_map(|(frames, chunking)| RtCase { frames, chunking }).boxed(),
        &rt_check,
    );
    ctx.check::<LimCase>(
        "limits",
        "hand-built header (flag 0..7, id) + length prefix declaring {<=1MiB, 1MiB, 1MiB+1, ..., 2^32, 2^63, u64::MAX} with 0..n payload bytes supplied, fed prefix-then-payload or bytewise; non-trivial = declared > 1MiB, unknown type with complete payload, or exactly 1MiB accepted",
        ctx.n(60_000, 1_500_000),
        &|| {
            (
                prop_oneof![3 => 0u8..7, 2 => Just(7u8)],
                id(),
                prop_oneof![
                    3 => 0u64..64,
                    1 => Just(MAX as u64),
                    2 => Just(MAX as u64 + 1),
                    2 => (MAX as u64 + 1)..(MAX as u64 + 70_000),
                    1 => prop_oneof![Just(1u64 << 32), Just((1u64 << 32) + 5), Just(1u64 << 62), Just(1u64 << 63), Just(u64::MAX), Just(u64::MAX >> 1)],
                    1 => any::<u64>(),
                ],
                prop_oneof![3 => Just(0u16), 2 => 0u16..64, 1 => Just(u16::MAX)],
                any::<bool>(),
            )
                .prop_map(|(flag, num, declared, supplied, bytewise)| {
                    // make "complete" cases common for small declared lengths, and supply the full MiB when asked for exactly 1 MiB
                    let supplied = if declared <= 64 && supplied != 0 { declared as u16 } else { supplied };
                    LimCase { flag, num, declared, supplied, bytewise }
                })
                .boxed()
        },
        &|c: &LimCase| {
            // exactly-1MiB frames need the whole payload: build it here instead of through `supplied`
            if c.declared == MAX as u64 && c.supplied == u16::MAX {
                let flag = c.flag % 8;
                let mut input = vec![];
                put_uvarint(((c.num % ID_LIMIT) << 3) | flag as u64, &mut input);
                put_uvarint(c.declared, &mut input);
                input.extend(std::iter::repeat(0x5a).take(MAX));
                return match arb_oracle(&input, &Chunking::Cuts(vec![3, 40_000])) {
                    Err((s, d)) => Outcome::fail(s, d),
                    Ok((n, _)) => {
                        if flag == 7 {
                            Outcome::pass_l(true, vec!["unknown-type:complete", "declared=1MiB"])
                        } else if n == 1 {
                            Outcome::pass_l(true, vec!["valid-frame", "declared=1MiB"])
                        } else {
                            Outcome::fail("C25:valid-frame-rejected", json!({"declared": c.declared}))
                        }
                    }
                };
            }
            lim_check(c)
        },
    );
    ctx.check::<ArbCase>(
        "arbitrary",
        "raw bytes (0..64, plus varint-heavy alphabet) or 1..4 structure-aware mutations of 1..4 valid encoded frames, under a generated chunking; real decoder vs reference decoder (frames, error/incomplete/clean end), never a panic, no frame after an error; non-trivial = mutated input the reference rejects",
        ctx.n(200_000, 5_000_000),
        &|| {
            prop_oneof![
                2 => (proptest::collection::vec(any::<u8>(), 0..64), chunking()).prop_map(|(bytes, chunking)| ArbCase::Raw { bytes, chunking }),
                2 => (proptest::collection::vec(prop_oneof![0u8..16, Just(0x80u8), Just(0xffu8), Just(0x7fu8), Just(0x87u8), any::<u8>()], 0..40), chunking()).prop_map(|(bytes, chunking)| ArbCase::Raw { bytes, chunking }),
                5 => (proptest::collection::vec(frame_spec(), 1..4), proptest::collection::vec(mutation(), 1..4), chunking()).prop_map(|(frames, muts, chunking)| ArbCase::Mutated { frames, muts, chunking }),
            ]
            .boxed()
        },
        &arb_check,
    );
    ctx.fuzz(&crate::fuzzapi::MPLEX_CODEC, 30_000, 600_000, crate::fuzzapi::MPLEX_RUNS_PER_JOB, crate::fuzzapi::FUZZ_JOBS);
}
