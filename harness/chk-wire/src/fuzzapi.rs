//! Entry points for the libFuzzer targets in /verif/fuzz (and the seed corpus writer).
//!
//! Every target splits its input into a few control bytes (protocol list, role, chunking script,
//! codec limit) and a raw tail, and runs the *same* oracle as the proptest sub-check. The entry
//! points return `Ok(nontrivial)` / `Err((signature, detail))`; `vcore::fuzz::fuzz_main` turns an
//! `Err` into a panic inside libFuzzer (the input becomes a crash artifact) unless the signature is
//! listed with status `known` in known_findings.json, and `Ctx::fuzz` runs the same functions
//! in-process on the committed seeds, on proptest-mutated seeds and on replay files.

use crate::c14::name;
use crate::c15::{self, Role};
use crate::c25::{self, Chunking};
use crate::c57;
use crate::msref::End;
use vcore::simio::{Script, Step};
pub use vcore::fuzz::fuzz_main;
use vcore::{FuzzTarget, FuzzVerdict};

pub const MS_LISTENER: FuzzTarget = FuzzTarget {
    name: "ms_listener",
    entry: ms_listener,
    about: "input = [supported-protocol bitmask][4 read-script bytes][incoming byte stream, then EOF]; oracle = C15 black-box oracle (listener_select_proto vs reference listener: outcome, error kind, bytes sent, rest of stream; no panic, no stall) + Message::decode vs reference on the first frame body; non-trivial = the conversation got beyond the header (a proposal was answered or a malformed message was classified)",
};
pub const MS_DIALER: FuzzTarget = FuzzTarget {
    name: "ms_dialer",
    entry: ms_dialer,
    about: "input = [bit7 V1Lazy, bits0-5 proposed protocols][order][4 read-script bytes][incoming byte stream, then EOF]; oracle = C15 black-box oracle (dialer_select_proto V1/V1Lazy vs reference dialer) + Message::decode vs reference on the stream; non-trivial = the conversation got beyond the header",
};
pub const MPLEX_CODEC: FuzzTarget = FuzzTarget {
    name: "mplex_codec",
    entry: mplex_codec,
    about: "input = [4 chunking bytes][bytes]; oracle = C25 arbitrary-bytes oracle (real mplex decoder under the chunking vs reference decoder: same frames, mirrored role, error exactly where the reference fails, no frame after an error, no panic); non-trivial = at least one frame decoded or the reference rejects the input",
};
pub const PROST_CODEC: FuzzTarget = FuzzTarget {
    name: "prost_codec",
    entry: prost_codec,
    about: "input = [limit index][4 chunking bytes][bytes]; oracle = C57 arbitrary-bytes oracle (prost_codec::Codec with the selected limit under the chunking vs reference framer: same messages, error exactly where the reference fails, no panic); non-trivial = at least one message decoded or the reference rejects the input",
};

/// libFuzzer stage budget (thorough tier): fixed -runs per job, independent jobs with seeds s, s+1, ...
pub const FUZZ_JOBS: u32 = 16;
/// measured (ASan build, one core): ms_listener ~1100, ms_dialer ~450, mplex_codec ~670, prost_codec ~2100 exec/s
pub const MS_LISTENER_RUNS_PER_JOB: u64 = 800_000;
pub const MS_DIALER_RUNS_PER_JOB: u64 = 400_000;
pub const MPLEX_RUNS_PER_JOB: u64 = 600_000;
pub const PROST_RUNS_PER_JOB: u64 = 1_600_000;

fn beyond_header(end: &End, rejected: usize) -> bool {
    match end {
        End::IoEof | End::IoOther(_) => false,
        End::Failed => rejected > 0,
        _ => true,
    }
}

/// control bytes -> read script (default chunk + up to 7 scripted steps)
fn script(ctl: &[u8]) -> Script {
    let default_chunk = [0u16, 1, 2, 3, 7, 64][ctl.first().copied().unwrap_or(0) as usize % 6];
    let steps = ctl.iter().skip(1).map(|&b| if b % 8 == 0 { Step::Pending } else { Step::Chunk((b % 32) as u16) }).collect();
    Script { steps, default_chunk }
}

fn chunking(ctl: &[u8]) -> Chunking {
    match ctl.first().copied().unwrap_or(0) % 4 {
        0 => Chunking::Whole,
        1 => Chunking::Bytewise,
        _ => Chunking::Cuts(ctl.iter().skip(1).map(|&b| (b as u16) << 8 | 0x55).collect()),
    }
}

/// layout: [proto bitmask][script: 4 bytes][stream...]
pub fn ms_listener(data: &[u8]) -> FuzzVerdict {
    if data.len() < 5 {
        return Ok(false);
    }
    let protos: Vec<String> = (0..8u8).filter(|i| data[0] & (1 << i) != 0).map(name).collect();
    let sc = script(&data[1..5]);
    let inp = &data[5..];
    let (obs, rejected) = c15::bb_oracle(Role::Listener, &protos, inp, &sc)?;
    // every well-delimited frame body also goes through the message decoder oracle
    if let crate::msref::Next::Frame { start, end } = crate::msref::next_frame(inp, 0) {
        let _ = c15::decode_oracle(&inp[start..end])?;
    }
    Ok(beyond_header(&obs.end, rejected))
}

/// layout: [bit7: lazy, bits0..5: proto bitmask (valid names)][order byte][script: 4 bytes][stream...]
pub fn ms_dialer(data: &[u8]) -> FuzzVerdict {
    if data.len() < 6 {
        return Ok(false);
    }
    let mut protos: Vec<String> = (0..6u8).filter(|i| data[0] & (1 << i) != 0).map(name).collect();
    if data[1] & 1 == 1 {
        protos.reverse();
    }
    let role = if data[0] & 0x80 != 0 { Role::DialerLazy } else { Role::DialerV1 };
    let sc = script(&data[2..6]);
    let inp = &data[6..];
    let (obs, rejected) = c15::bb_oracle(role, &protos, inp, &sc)?;
    let _ = c15::decode_oracle(inp)?;
    Ok(beyond_header(&obs.end, rejected))
}

/// layout: [chunking: 4 bytes][bytes...]
pub fn mplex_codec(data: &[u8]) -> FuzzVerdict {
    if data.len() < 4 {
        return Ok(false);
    }
    let (n, term) = c25::arb_oracle(&data[4..], &chunking(&data[..4]))?;
    Ok(n > 0 || matches!(term, c25::Term::Error(_)))
}

/// layout: [limit index][chunking: 4 bytes][bytes...]
pub fn prost_codec(data: &[u8]) -> FuzzVerdict {
    if data.len() < 5 {
        return Ok(false);
    }
    let max = c57::MAXES[data[0] as usize % c57::MAXES.len()];
    let (n, term) = c57::arb_oracle(max, &data[5..], &chunking(&data[1..5]))?;
    Ok(n > 0 || matches!(term, c57::Term::Error(_)))
}

/// Golden seeds: valid conversations / encodings (and a few single-violation ones) per target.
pub fn write_seeds(dir: &std::path::Path) -> std::io::Result<usize> {
    use crate::c15::{Fr, Viol};
    use prost::Message as _;
    let mut n = 0;
    let mut put = |target: &str, name: &str, bytes: Vec<u8>| -> std::io::Result<()> {
        let d = dir.join(target);
        std::fs::create_dir_all(&d)?;
        std::fs::write(d.join(name), bytes)?;
        n += 1;
        Ok(())
    };
    let conv = |frames: &[Fr], tail: &[u8]| -> Vec<u8> {
        let mut v = vec![];
        for f in frames {
            v.extend(f.bytes());
        }
        v.extend_from_slice(tail);
        v
    };
    let ctl_l = |mask: u8, sc: [u8; 4]| {
        let mut v = vec![mask];
        v.extend(sc);
        v
    };
    let listener_convs: Vec<(&str, Vec<Fr>, &[u8])> = vec![
        ("accept", vec![Fr::Header, Fr::Name(0)], b"hello"),
        ("reject-accept", vec![Fr::Header, Fr::Name(2), Fr::Name(1)], b""),
        ("ls", vec![Fr::Header, Fr::Ls, Fr::Name(0)], b"x"),
        ("reject-eof", vec![Fr::Header, Fr::Name(5)], b""),
        ("lazy-garbage", vec![Fr::Header, Fr::Name(4)], b"\x00\x20noise"),
        ("oversize", vec![Fr::Header, Fr::Oversize { over: 0, supplied: 3 }], b""),
        ("too-many", vec![Fr::Header, Fr::Bad(Viol::TooMany { extra: 1 })], b""),
        ("no-slash", vec![Fr::Header, Fr::Bad(Viol::NoSlash { in_list: false, chars: vec![1, 2, 3] })], b""),
        ("non-utf8", vec![Fr::Header, Fr::Bad(Viol::NonUtf8 { in_list: false, bad: 1 })], b""),
        ("list", vec![Fr::Header, Fr::List { count: 3 }], b""),
    ];
    for (i, (nm, frames, tail)) in listener_convs.iter().enumerate() {
        let mut v = ctl_l(0b0000_0011, [i as u8, 3, 0, 9]);
        v.extend(conv(frames, tail));
        put("ms_listener", nm, v)?;
    }
    let dialer_convs: Vec<(&str, u8, Vec<Fr>, &[u8])> = vec![
        ("confirm", 0b01, vec![Fr::Header, Fr::Name(0)], b"data"),
        ("na-confirm", 0b11, vec![Fr::Header, Fr::Na, Fr::Name(1)], b""),
        ("na-na", 0b11, vec![Fr::Header, Fr::Na, Fr::Na], b""),
        ("lazy-confirm", 0x80 | 0b01, vec![Fr::Header, Fr::Name(0)], b"payload"),
        ("lazy-na", 0x80 | 0b01, vec![Fr::Header, Fr::Na], b""),
        ("long-name", 0b10_0000, vec![Fr::Header, Fr::Name(5)], b""),
        ("list-1000", 0b01, vec![Fr::Header, Fr::List { count: 1000 }], b""),
        ("too-many", 0b01, vec![Fr::Header, Fr::Bad(Viol::TooMany { extra: 1 })], b""),
        ("bad-name-in-list", 0b01, vec![Fr::Header, Fr::Bad(Viol::NoSlash { in_list: true, chars: vec![7] })], b""),
        ("non-minimal", 0b01, vec![Fr::Header, Fr::NonMinimalPrefix { low: 3 }], b""),
    ];
    for (i, (nm, mask, frames, tail)) in dialer_convs.iter().enumerate() {
        let mut v = vec![*mask, (i % 2) as u8, i as u8, 0, 5, 1];
        v.extend(conv(frames, tail));
        put("ms_dialer", nm, v)?;
    }
    use libp2p_mplex::verif_codec::VerifFrame as F;
    let frames = vec![
        F::Open { num: 0, dialer: true },
        F::Data { num: 0, dialer: true, data: b"hello mplex".to_vec() },
        F::Data { num: 1, dialer: false, data: vec![7; 200] },
        F::Close { num: 3, dialer: false },
        F::Reset { num: (1 << 60) - 1, dialer: true },
    ];
    let all: Vec<u8> = frames.iter().flat_map(c25::ref_encode).collect();
    for (i, f) in frames.iter().enumerate() {
        let mut v = vec![i as u8, 10, 200, 90];
        v.extend(c25::ref_encode(f));
        put("mplex_codec", &format!("frame{i}"), v)?;
    }
    let mut v = vec![2, 30, 99, 180];
    v.extend(&all);
    put("mplex_codec", "sequence", v)?;
    put("mplex_codec", "oversize", vec![1, 0, 0, 0, 0x0a, 0x81, 0x80, 0x40])?;
    put("mplex_codec", "type7", vec![0, 0, 0, 0, 0x0f, 0x01, 0x00])?;
    let msgs = vec![
        c57::TestMsg { data: vec![], n: 0, s: None, r: vec![] },
        c57::TestMsg { data: b"abc".to_vec(), n: 300, s: Some("str".into()), r: vec![1, 128] },
        c57::TestMsg { data: vec![9; 130], n: u64::MAX, s: None, r: vec![] },
    ];
    let mut seq = vec![];
    for (i, m) in msgs.iter().enumerate() {
        let mut one = vec![];
        crate::msref::put_uvarint(m.encoded_len() as u64, &mut one);
        one.extend(m.encode_to_vec());
        seq.extend(&one);
        for limit in [2u8, 4, 8] {
            let mut v = vec![limit, i as u8, 17, 130, 220];
            v.extend(&one);
            put("prost_codec", &format!("msg{i}-limit{limit}"), v)?;
        }
    }
    let mut v = vec![8, 3, 50, 100, 150];
    v.extend(&seq);
    put("prost_codec", "sequence", v)?;
    put("prost_codec", "over-limit-prefix", vec![2, 1, 0, 0, 0, 0x80, 0x01])?;
    Ok(n)
}
